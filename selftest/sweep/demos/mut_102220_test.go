// place in: sourcebundle
package sourcebundle_test

import (
	"testing"

	"github.com/hashicorp/go-slug/sourcebundle"
)

// Metadata supplied by the fetcher must be retrievable unchanged (C08).
func TestMut102220PackageMetaRoundTrip(t *testing.T) {
	const id = "0123456789abcdef0123456789abcdef01234567"
	const msg = "initial commit"
	m := sourcebundle.PackageMetaWithGitMetadata(id, msg)
	if got := m.GitCommitID(); got != id {
		t.Errorf("GitCommitID() = %q, want %q", got, id)
	}
	if got := m.GitCommitMessage(); got != msg {
		t.Errorf("GitCommitMessage() = %q, want %q", got, msg)
	}
}
