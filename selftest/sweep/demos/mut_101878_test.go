// place in: sourcebundle
package sourcebundle_test

import (
	"context"
	"fmt"
	"io/fs"
	"net/url"
	"os"
	"path/filepath"
	"testing"

	"github.com/hashicorp/go-slug/sourceaddrs"
	"github.com/hashicorp/go-slug/sourcebundle"
)

type fetcher101878 func(dir string) error

func (f fetcher101878) FetchSourcePackage(ctx context.Context, sourceType string, u *url.URL, targetDir string) (sourcebundle.FetchSourcePackageResponse, error) {
	return sourcebundle.FetchSourcePackageResponse{}, f(targetDir)
}

type noDeps101878 struct{}

func (noDeps101878) FindDependencies(fsys fs.FS, subPath string, deps *sourcebundle.Dependencies) sourcebundle.Diagnostics {
	return nil
}

// build101878 builds a bundle in targetDir from one remote package whose
// content is produced by populate, and returns the package directory.
func build101878(targetDir string, populate func(dir string) error) (string, error) {
	b, err := sourcebundle.NewBuilder(targetDir, fetcher101878(populate), nil)
	if err != nil {
		return "", err
	}
	src := sourceaddrs.MustParseSource("https://example.com/pkg.tgz").(sourceaddrs.RemoteSource)
	diags := b.AddRemoteSource(context.Background(), src, noDeps101878{})
	if diags.HasErrors() {
		msg := ""
		for _, d := range diags {
			msg += d.Description().Summary + ": " + d.Description().Detail + "; "
		}
		return "", fmt.Errorf("build failed: %s", msg)
	}
	bundle, err := b.Close()
	if err != nil {
		return "", err
	}
	return bundle.LocalPathForRemoteSource(src)
}

var _ = filepath.Join
var _ = os.Lstat

// The target directory may be named through a symlink; the package content
// is still inside the package and the build must succeed.
func TestMut101878_TargetDirThroughSymlink(t *testing.T) {
	base := t.TempDir()
	realDir := filepath.Join(base, "real")
	if err := os.Mkdir(realDir, 0755); err != nil {
		t.Fatal(err)
	}
	linkDir := filepath.Join(base, "link")
	if err := os.Symlink("real", linkDir); err != nil {
		t.Fatal(err)
	}
	dir, err := build101878(linkDir, func(dir string) error {
		return os.WriteFile(filepath.Join(dir, "main.tf"), []byte("main"), 0644)
	})
	if err != nil {
		t.Fatalf("build failed: %v", err)
	}
	if _, err := os.Lstat(filepath.Join(dir, "main.tf")); err != nil {
		t.Errorf("main.tf missing: %v", err)
	}
}
