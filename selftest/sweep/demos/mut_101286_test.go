// place in: sourceaddrs
package sourceaddrs

import (
	"net/url"
	"testing"
)

// C06: a package URL whose path contains a doubled slash cannot be written
// down (it would read back as a shorter package plus a sub-path), so it must
// be refused; otherwise the printed form must parse back to an equal address.
func TestMut101286(t *testing.T) {
	u := &url.URL{Scheme: "https", Host: "example.com", Path: "/a//b.tgz"}
	src, err := MakeRemoteSource("https", u, "")
	if err != nil {
		return // refused: fine
	}
	back, err := ParseRemoteSource(src.String())
	if err != nil {
		t.Fatalf("accepted address prints as %q which does not parse back: %v", src.String(), err)
	}
	if back != src {
		t.Fatalf("accepted address prints as %q which parses back to a different address %q", src.String(), back.String())
	}
}
