// place in: sourcebundle
package sourcebundle

// Demonstrates mutation 2006: a failing version-list query calls a nil trace callback

import (
	"context"
	"errors"
	"fmt"
	"io/fs"
	"net/url"
	"os"
	"path/filepath"
	"testing"

	"github.com/apparentlymart/go-versions/versions"
	regaddr "github.com/hashicorp/terraform-registry-address"

	"github.com/hashicorp/go-slug/sourceaddrs"
)

type mut2006Fetcher struct{}

func (mut2006Fetcher) FetchSourcePackage(ctx context.Context, sourceType string, u *url.URL, targetDir string) (FetchSourcePackageResponse, error) {
	return FetchSourcePackageResponse{}, os.WriteFile(filepath.Join(targetDir, "main.tf"), []byte("# hello\n"), 0o644)
}

type mut2006Registry struct {
	versionsFn func(ctx context.Context) error
	sourceFn   func(ctx context.Context) error
}

func (r mut2006Registry) ModulePackageVersions(ctx context.Context, pkgAddr regaddr.ModulePackage) (ModulePackageVersionsResponse, error) {
	if r.versionsFn != nil {
		if err := r.versionsFn(ctx); err != nil {
			return ModulePackageVersionsResponse{}, err
		}
	}
	return ModulePackageVersionsResponse{Versions: []ModulePackageInfo{{Version: versions.MustParseVersion("1.0.0")}}}, nil
}

func (r mut2006Registry) ModulePackageSourceAddr(ctx context.Context, pkgAddr regaddr.ModulePackage, version versions.Version) (ModulePackageSourceAddrResponse, error) {
	if r.sourceFn != nil {
		if err := r.sourceFn(ctx); err != nil {
			return ModulePackageSourceAddrResponse{}, err
		}
	}
	return ModulePackageSourceAddrResponse{SourceAddr: sourceaddrs.MustParseSource("https://example.com/foo.tgz").(sourceaddrs.RemoteSource)}, nil
}

type mut2006NoDeps struct{}

func (mut2006NoDeps) FindDependencies(fsys fs.FS, subPath string, deps *Dependencies) Diagnostics {
	return nil
}

// mut2006Add adds one registry source and converts a panic into an error.
func mut2006Add(ctx context.Context, b *Builder, addr string) (diags Diagnostics, panicked error) {
	defer func() {
		if r := recover(); r != nil {
			panicked = fmt.Errorf("panic: %v", r)
		}
	}()
	src := sourceaddrs.MustParseSource(addr).(sourceaddrs.RegistrySource)
	return b.AddRegistrySource(ctx, src, versions.All, mut2006NoDeps{}), nil
}

var _ = errors.New

func TestMut2006(t *testing.T) {
	// Default configuration (no tracer): a failing registry query must come
	// back as an error diagnostic, not as a crash.
	reg := mut2006Registry{versionsFn: func(ctx context.Context) error { return errors.New("registry is down") }}
	b, err := NewBuilder(t.TempDir(), mut2006Fetcher{}, reg)
	if err != nil {
		t.Fatal(err)
	}
	diags, perr := mut2006Add(context.Background(), b, "example.com/foo/bar/baz")
	if perr != nil {
		t.Fatalf("registry failure was not reported as a diagnostic: %s", perr)
	}
	if !diags.HasErrors() {
		t.Fatalf("registry failure was not reported")
	}
}
