// place in: sourcebundle
package sourcebundle

import (
	"os"
	"path/filepath"
	"testing"

	"github.com/hashicorp/go-slug/sourceaddrs"
)

// A relative spelling of a path inside a package directory must translate to
// a source address and back to the same location (C18).
func TestMut102043RelativePathRoundTrip(t *testing.T) {
	dir, err := filepath.EvalSymlinks(t.TempDir())
	if err != nil {
		t.Fatal(err)
	}
	manifest := `{"terraform_source_bundle":1,"packages":[{"source":"git::https://example.com/foo.git","local":"pkgdir"}]}`
	if err := os.WriteFile(filepath.Join(dir, manifestFilename), []byte(manifest), 0o644); err != nil {
		t.Fatal(err)
	}
	if err := os.MkdirAll(filepath.Join(dir, "pkgdir", "sub"), 0o755); err != nil {
		t.Fatal(err)
	}
	b, err := OpenDir(dir)
	if err != nil {
		t.Fatal(err)
	}
	cwd, err := os.Getwd()
	if err != nil {
		t.Fatal(err)
	}
	cwd, err = filepath.EvalSymlinks(cwd)
	if err != nil {
		t.Fatal(err)
	}
	abs := filepath.Join(dir, "pkgdir", "sub")
	rel, err := filepath.Rel(cwd, abs)
	if err != nil {
		t.Fatal(err)
	}
	src, err := b.SourceForLocalPath(rel)
	if err != nil {
		t.Fatalf("relative path %q inside the bundle not translated: %s", rel, err)
	}
	want := sourceaddrs.MustParseSource("git::https://example.com/foo.git//sub")
	if src.String() != want.String() {
		t.Fatalf("got %s, want %s", src, want)
	}
	back, err := b.LocalPathForSource(src)
	if err != nil {
		t.Fatal(err)
	}
	if back != abs {
		t.Fatalf("round trip gave %q, want %q", back, abs)
	}
}
