// place in: sourcebundle
package sourcebundle

// Edit 101571: the RegistryPackageVersionsSuccess trace callback must receive the context returned by the
// matching Start callback (that is how a tracer pairs a start with its end).

import (
	"context"
	"errors"
	"io/fs"
	"net/url"
	"os"
	"path/filepath"
	"testing"

	"github.com/apparentlymart/go-versions/versions"
	"github.com/hashicorp/go-slug/sourceaddrs"
	regaddr "github.com/hashicorp/terraform-registry-address"
)

type spanKey101571 struct{}

type fetcher101571 struct{}

func (fetcher101571) FetchSourcePackage(ctx context.Context, sourceType string, u *url.URL, targetDir string) (FetchSourcePackageResponse, error) {
	return FetchSourcePackageResponse{}, os.WriteFile(filepath.Join(targetDir, "main.tf"), []byte("# hi\n"), 0o644)
}

type registry101571 struct {
	failVersions, failSource bool
}

func (r registry101571) ModulePackageVersions(ctx context.Context, pkgAddr regaddr.ModulePackage) (ModulePackageVersionsResponse, error) {
	if r.failVersions {
		return ModulePackageVersionsResponse{}, errors.New("versions unavailable")
	}
	return ModulePackageVersionsResponse{Versions: []ModulePackageInfo{{Version: versions.MustParseVersion("1.0.0")}}}, nil
}

func (r registry101571) ModulePackageSourceAddr(ctx context.Context, pkgAddr regaddr.ModulePackage, version versions.Version) (ModulePackageSourceAddrResponse, error) {
	if r.failSource {
		return ModulePackageSourceAddrResponse{}, errors.New("source unavailable")
	}
	return ModulePackageSourceAddrResponse{SourceAddr: sourceaddrs.MustParseSource("https://example.com/foo.tgz").(sourceaddrs.RemoteSource)}, nil
}

type noDeps101571 struct{}

func (noDeps101571) FindDependencies(fsys fs.FS, subPath string, deps *Dependencies) Diagnostics {
	return nil
}

func TestMut101571(t *testing.T) {
	b, err := NewBuilder(t.TempDir(), fetcher101571{}, registry101571{failVersions: false, failSource: false})
	if err != nil {
		t.Fatal(err)
	}
	calls := 0
	paired := 0
	check := func(ctx context.Context) {
		calls++
		if ctx.Value(spanKey101571{}) == "versions" {
			paired++
		}
	}
	tracer := &BuildTracer{
		RegistryPackageVersionsStart: func(ctx context.Context, pkgAddr regaddr.ModulePackage) context.Context {
			return context.WithValue(ctx, spanKey101571{}, "versions")
		},
		RegistryPackageSourceStart: func(ctx context.Context, pkgAddr regaddr.ModulePackage, v versions.Version) context.Context {
			return context.WithValue(ctx, spanKey101571{}, "source")
		},
		RegistryPackageVersionsSuccess: func(ctx context.Context, pkgAddr regaddr.ModulePackage, vs versions.List) { check(ctx) },
	}
	ctx := tracer.OnContext(context.Background())
	addr := sourceaddrs.MustParseSource("example.com/foo/bar/baz").(sourceaddrs.RegistrySource)
	diags := b.AddRegistrySource(ctx, addr, versions.All, noDeps101571{})
	if got, want := diags.HasErrors(), false; got != want {
		t.Fatalf("HasErrors = %v, want %v", got, want)
	}
	if calls != 1 {
		t.Fatalf("RegistryPackageVersionsSuccess called %d times, want 1", calls)
	}
	if paired != 1 {
		t.Fatalf("RegistryPackageVersionsSuccess did not receive the context returned by its Start callback: the start event has no matching end event")
	}
}
