// place in: sourceaddrs
package sourceaddrs_test

import (
	"net/url"
	"testing"

	"github.com/hashicorp/go-slug/sourceaddrs"
)

// C06/C07: a URL fragment with an escaped slash and a semicolon must be accepted and round-trip
func TestMut101230(t *testing.T) {
	const given = "https://example.com/foo.tgz#a%2Fb;c"
	typ := "https"
	raw := given
	if typ == "git" {
		raw = given[len("git::"):]
	}
	u, err := url.Parse(raw)
	if err != nil {
		t.Fatal(err)
	}
	made, err := sourceaddrs.MakeRemoteSource(typ, u, "")
	if err != nil {
		t.Fatalf("MakeRemoteSource: %v", err)
	}
	if got := made.String(); got != given {
		t.Fatalf("assembled address prints as %q, want %q", got, given)
	}
	parsed, err := sourceaddrs.ParseRemoteSource(made.String())
	if err != nil {
		t.Fatalf("address %q handed out by MakeRemoteSource does not parse back: %v", made.String(), err)
	}
	if parsed != made {
		t.Fatalf("%q parses back to a different value: %#v vs %#v", made.String(), parsed, made)
	}
	if got := parsed.String(); got != given {
		t.Fatalf("parsing %q and printing gives %q", given, got)
	}
}
