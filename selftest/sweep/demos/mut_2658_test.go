// place in: sourcebundle
package sourcebundle

import (
	"fmt"
	"os"
	"path/filepath"
	"reflect"
	"strings"
	"testing"
)

func TestMut2658_RemotePackagesStableOrder(t *testing.T) {
	root := t.TempDir()
	var pk []string
	for i := 0; i < 24; i++ {
		pk = append(pk, fmt.Sprintf(`{"source":"git::https://example.com/repo%02d.git","local":"dir%02d"}`, i, i))
	}
	manifest := `{"terraform_source_bundle":1,"packages":[` + strings.Join(pk, ",") + `]}`
	if err := os.WriteFile(filepath.Join(root, "terraform-sources.json"), []byte(manifest), 0o644); err != nil {
		t.Fatal(err)
	}
	list := func() []string {
		b, err := OpenDir(root)
		if err != nil {
			t.Fatal(err)
		}
		var ret []string
		for _, p := range b.RemotePackages() {
			ret = append(ret, p.String())
		}
		return ret
	}
	first := list()
	if len(first) != 24 {
		t.Fatalf("got %d packages", len(first))
	}
	for i := 0; i < 10; i++ {
		again := list()
		if !reflect.DeepEqual(first, again) {
			t.Fatalf("re-opening the same bundle lists the remote packages in a different order:\n%v\n%v", first, again)
		}
	}
}
