// place in: sourcebundle
package sourcebundle

import (
	"os"
	"path/filepath"
	"testing"

	"github.com/hashicorp/go-slug/sourceaddrs"
)

func TestMut101971MetaWithoutMessage(t *testing.T) {
	bundleDir := t.TempDir()
	if err := os.MkdirAll(filepath.Join(bundleDir, "pkgdir"), 0755); err != nil {
		t.Fatal(err)
	}
	manifest := `{"terraform_source_bundle":1,"packages":[{"source":"git::https://example.com/foo.git","local":"pkgdir","meta":{"git_commit_id":"abc123"}}]}`
	if err := os.WriteFile(filepath.Join(bundleDir, manifestFilename), []byte(manifest), 0644); err != nil {
		t.Fatal(err)
	}
	b, err := OpenDir(bundleDir)
	if err != nil {
		t.Fatal(err)
	}
	pkg, err := sourceaddrs.ParseRemotePackage("git::https://example.com/foo.git")
	if err != nil {
		t.Fatal(err)
	}
	meta := b.RemotePackageMeta(pkg)
	if meta == nil {
		t.Fatalf("commit id recorded in the manifest was dropped on open")
	}
	if got := meta.GitCommitID(); got != "abc123" {
		t.Fatalf("commit id %q, want abc123", got)
	}
}
