// place in: sourcebundle
package sourcebundle

import (
	"fmt"
	"os"
	"path/filepath"
	"strings"
	"testing"
)

// RemotePackages must list the packages in one consistent order however the
// underlying map happens to be iterated, also after re-opening (C13 / C09).
func TestMut102153RemotePackagesOrder(t *testing.T) {
	dir := t.TempDir()
	var pkgs []string
	for i := 0; i < 40; i++ {
		typ := "git::https"
		if i%2 == 1 {
			typ = "https"
		}
		pkgs = append(pkgs, fmt.Sprintf(`{"source":"%s://example.com/p%02d.tar.gz","local":"d%02d"}`, typ, (i*7)%40, i))
	}
	manifest := `{"terraform_source_bundle":1,"packages":[` + strings.Join(pkgs, ",") + `]}`
	if err := os.WriteFile(filepath.Join(dir, manifestFilename), []byte(manifest), 0o644); err != nil {
		t.Fatal(err)
	}
	first := ""
	for round := 0; round < 30; round++ {
		b, err := OpenDir(dir)
		if err != nil {
			t.Fatal(err)
		}
		got := b.RemotePackages()
		if len(got) != 40 {
			t.Fatalf("got %d packages, want 40", len(got))
		}
		strs := make([]string, len(got))
		for i, p := range got {
			strs[i] = p.String()
		}
		order := strings.Join(strs, "\n")
		if round == 0 {
			first = order
		} else if order != first {
			t.Fatalf("round %d: RemotePackages order differs from the first call:\n%s\n--- first:\n%s", round, order, first)
		}
	}
}
