// place in: .
// run with: go test -tags linux_amd64   (the default Linux build compiles lchtimes_others.go,
// where CanMaintainSymlinkTimestamps() is false and the edited call is never reached; the test skips then)
package slug

import (
	"bytes"
	"os"
	"path/filepath"
	"testing"

	"github.com/hashicorp/go-slug/internal/unpackinfo"
)

// Pack followed by Unpack keeps the permission bits and the modification time
// of a file that a symlink in the tree points to, and accepts a dangling
// in-tree link.
func TestMut100202_LinkRestoreDoesNotTouchTarget(t *testing.T) {
	if !unpackinfo.CanMaintainSymlinkTimestamps() {
		t.Skip("symlink timestamps are not restored in this build (needs -tags linux_amd64)")
	}
	src := t.TempDir()
	target := filepath.Join(src, "target.txt")
	if err := os.WriteFile(target, []byte("secret"), 0600); err != nil {
		t.Fatal(err)
	}
	if err := os.Symlink("target.txt", filepath.Join(src, "zlink")); err != nil {
		t.Fatal(err)
	}
	if err := os.Symlink("nowhere", filepath.Join(src, "zzdangling")); err != nil {
		t.Fatal(err)
	}
	buf := &bytes.Buffer{}
	if _, err := Pack(src, buf, false); err != nil {
		t.Fatal(err)
	}
	dst := t.TempDir()
	if err := Unpack(bytes.NewReader(buf.Bytes()), dst); err != nil {
		t.Fatalf("Unpack of a slug made by Pack: %v", err)
	}
	fi, err := os.Stat(filepath.Join(dst, "target.txt"))
	if err != nil {
		t.Fatal(err)
	}
	if got := fi.Mode().Perm(); got != 0600 {
		t.Fatalf("target.txt has mode %o after the round trip, want 600", got)
	}
	if _, err := os.Lstat(filepath.Join(dst, "zzdangling")); err != nil {
		t.Fatalf("dangling link not reproduced: %v", err)
	}
}
