// place in: sourceaddrs
package sourceaddrs

import (
	"net/url"
	"testing"
)

// C19: no entry point panics. A URL assembled from parts whose printed form
// does not parse must be refused with an error, not dereference a nil *url.URL.
func TestMut101269(t *testing.T) {
	defer func() {
		if r := recover(); r != nil {
			t.Fatalf("MakeRemoteSource panicked: %v", r)
		}
	}()
	u := &url.URL{Scheme: "https", Host: "exa mple.com", Path: "/x.tgz"}
	_, err := MakeRemoteSource("https", u, "")
	if err == nil {
		t.Fatalf("expected an error for unparseable URL")
	}
}
