// place in: .
package slug

import (
	"archive/tar"
	"bytes"
	"compress/gzip"
	"io"
	"os"
	"path/filepath"
	"runtime"
	"strings"
	"syscall"
	"testing"
)

var _ = runtime.LockOSThread
var _ = syscall.Setfsuid
var _ = strings.HasPrefix
var _ = filepath.Join

type mutEntry100303 struct {
	hdr  *tar.Header
	body string
}

func mutRead100303(t *testing.T, data []byte) []mutEntry100303 {
	t.Helper()
	gz, err := gzip.NewReader(bytes.NewReader(data))
	if err != nil {
		t.Fatal(err)
	}
	tr := tar.NewReader(gz)
	var out []mutEntry100303
	for {
		h, err := tr.Next()
		if err == io.EOF {
			break
		}
		if err != nil {
			t.Fatal(err)
		}
		b, err := io.ReadAll(tr)
		if err != nil {
			t.Fatal(err)
		}
		out = append(out, mutEntry100303{h, string(b)})
	}
	return out
}

func mutNames100303(es []mutEntry100303) []string {
	var n []string
	for _, e := range es {
		n = append(n, e.hdr.Name)
	}
	return n
}

func mutWrite100303(t *testing.T, path, content string) {
	t.Helper()
	if err := os.MkdirAll(filepath.Dir(path), 0755); err != nil {
		t.Fatal(err)
	}
	if err := os.WriteFile(path, []byte(content), 0644); err != nil {
		t.Fatal(err)
	}
}

// A rule anchored with a leading '/' excludes the file of that name at the
// root of the slug (and only that one).
func TestMut100303(t *testing.T) {
	src := t.TempDir()
	mutWrite100303(t, filepath.Join(src, ".terraformignore"), "/foo.txt\n")
	mutWrite100303(t, filepath.Join(src, "foo.txt"), "x")
	mutWrite100303(t, filepath.Join(src, "sub", "foo.txt"), "y")
	var buf bytes.Buffer
	if _, err := Pack(src, &buf, false); err != nil {
		t.Fatal(err)
	}
	es := mutRead100303(t, buf.Bytes())
	names := strings.Join(mutNames100303(es), "|")
	for _, e := range es {
		if e.hdr.Name == "foo.txt" {
			t.Errorf("excluded foo.txt was shipped; entries %q", names)
		}
	}
	if !strings.Contains("|"+names+"|", "|sub/foo.txt|") {
		t.Errorf("sub/foo.txt missing; entries %q", names)
	}
}
