// place in: sourcebundle
package sourcebundle_test

import (
	"github.com/hashicorp/go-slug/sourcebundle"
	"os"
	"path/filepath"
	"testing"
)

func open2677(t *testing.T, manifest string) *sourcebundle.Bundle {
	t.Helper()
	dir := t.TempDir()
	if err := os.WriteFile(filepath.Join(dir, "terraform-sources.json"), []byte(manifest), 0o644); err != nil {
		t.Fatal(err)
	}
	b, err := sourcebundle.OpenDir(dir)
	if err != nil {
		t.Fatalf("OpenDir: %s", err)
	}
	return b
}

func TestMut2677(t *testing.T) {
	b := open2677(t, `{"terraform_source_bundle":1,
	 "packages":[{"source":"https://example.com/foo.tgz","local":"abc"}],
	 "registry":[{"source":"example.com/ns/name/sys","versions":{"1.0.0":{"source":"https://example.com/foo.tgz"}}}]}`)
	pkgs := b.RegistryPackages()
	if len(pkgs) != 1 {
		t.Fatalf("want 1 registry package, got %d: %v", len(pkgs), pkgs)
	}
	vs := b.RegistryPackageVersions(pkgs[0])
	if len(vs) != 1 || vs[0].String() != "1.0.0" {
		t.Fatalf("bundle holds exactly version 1.0.0 of %s, but RegistryPackageVersions says %v", pkgs[0], vs)
	}
}
