// place in: sourcebundle
package sourcebundle_test

import (
	"context"
	"io/fs"
	"net/url"
	"os"
	"path/filepath"
	"strings"
	"testing"

	"github.com/hashicorp/go-slug/sourceaddrs"
	"github.com/hashicorp/go-slug/sourcebundle"
)

type fetcher31 func(dir string) error

func (f fetcher31) FetchSourcePackage(ctx context.Context, sourceType string, u *url.URL, targetDir string) (sourcebundle.FetchSourcePackageResponse, error) {
	return sourcebundle.FetchSourcePackageResponse{}, f(targetDir)
}

type noDeps31 struct{}

func (noDeps31) FindDependencies(fsys fs.FS, subPath string, deps *sourcebundle.Dependencies) sourcebundle.Diagnostics {
	return nil
}

func TestMut31(t *testing.T) {
	_ = strings.Repeat
	// The package's .terraformignore has an over-long line, so it cannot be
	// parsed. Either the build reports that, or the built-in exclusions are
	// honoured; it must not succeed with .git left in the package directory.
	target := t.TempDir()
	f := fetcher31(func(dir string) error {
		if err := os.WriteFile(filepath.Join(dir, ".terraformignore"), []byte(strings.Repeat("a", 70000)+"\n"), 0o644); err != nil {
			return err
		}
		if err := os.WriteFile(filepath.Join(dir, "main.tf"), []byte("x"), 0o644); err != nil {
			return err
		}
		if err := os.Mkdir(filepath.Join(dir, ".git"), 0o755); err != nil {
			return err
		}
		return os.WriteFile(filepath.Join(dir, ".git", "config"), []byte("x"), 0o644)
	})
	b, err := sourcebundle.NewBuilder(target, f, nil)
	if err != nil {
		t.Fatal(err)
	}
	src := sourceaddrs.MustParseSource("https://example.com/foo.tgz").(sourceaddrs.RemoteSource)
	diags := b.AddRemoteSource(context.Background(), src, noDeps31{})
	if diags.HasErrors() {
		return // reported: fine
	}
	bundle, err := b.Close()
	if err != nil {
		return
	}
	p, err := bundle.LocalPathForRemoteSource(src)
	if err != nil {
		t.Fatal(err)
	}
	if _, err := os.Lstat(filepath.Join(p, ".git", "config")); err == nil {
		t.Fatalf("build succeeded although the ignore file could not be parsed, and .git was kept in the package directory")
	}
}
