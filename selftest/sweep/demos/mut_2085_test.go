// place in: sourcebundle
package sourcebundle

// Demonstrates mutation 2085: cached source address calls a nil 'already' trace callback

import (
	"context"
	"errors"
	"fmt"
	"io/fs"
	"net/url"
	"os"
	"path/filepath"
	"testing"

	"github.com/apparentlymart/go-versions/versions"
	regaddr "github.com/hashicorp/terraform-registry-address"

	"github.com/hashicorp/go-slug/sourceaddrs"
)

type mut2085Fetcher struct{}

func (mut2085Fetcher) FetchSourcePackage(ctx context.Context, sourceType string, u *url.URL, targetDir string) (FetchSourcePackageResponse, error) {
	return FetchSourcePackageResponse{}, os.WriteFile(filepath.Join(targetDir, "main.tf"), []byte("# hello\n"), 0o644)
}

type mut2085Registry struct {
	versionsFn func(ctx context.Context) error
	sourceFn   func(ctx context.Context) error
}

func (r mut2085Registry) ModulePackageVersions(ctx context.Context, pkgAddr regaddr.ModulePackage) (ModulePackageVersionsResponse, error) {
	if r.versionsFn != nil {
		if err := r.versionsFn(ctx); err != nil {
			return ModulePackageVersionsResponse{}, err
		}
	}
	return ModulePackageVersionsResponse{Versions: []ModulePackageInfo{{Version: versions.MustParseVersion("1.0.0")}}}, nil
}

func (r mut2085Registry) ModulePackageSourceAddr(ctx context.Context, pkgAddr regaddr.ModulePackage, version versions.Version) (ModulePackageSourceAddrResponse, error) {
	if r.sourceFn != nil {
		if err := r.sourceFn(ctx); err != nil {
			return ModulePackageSourceAddrResponse{}, err
		}
	}
	return ModulePackageSourceAddrResponse{SourceAddr: sourceaddrs.MustParseSource("https://example.com/foo.tgz").(sourceaddrs.RemoteSource)}, nil
}

type mut2085NoDeps struct{}

func (mut2085NoDeps) FindDependencies(fsys fs.FS, subPath string, deps *Dependencies) Diagnostics {
	return nil
}

// mut2085Add adds one registry source and converts a panic into an error.
func mut2085Add(ctx context.Context, b *Builder, addr string) (diags Diagnostics, panicked error) {
	defer func() {
		if r := recover(); r != nil {
			panicked = fmt.Errorf("panic: %v", r)
		}
	}()
	src := sourceaddrs.MustParseSource(addr).(sourceaddrs.RegistrySource)
	return b.AddRegistrySource(ctx, src, versions.All, mut2085NoDeps{}), nil
}

var _ = errors.New

func TestMut2085(t *testing.T) {
	// Default configuration (no tracer): the same registry package is added
	// twice (second time with a sub-path), so the second call finds the
	// version list and the source address already cached.
	var versionCalls, sourceCalls int
	reg := mut2085Registry{
		versionsFn: func(ctx context.Context) error { versionCalls++; return nil },
		sourceFn:   func(ctx context.Context) error { sourceCalls++; return nil },
	}
	b, err := NewBuilder(t.TempDir(), mut2085Fetcher{}, reg)
	if err != nil {
		t.Fatal(err)
	}
	for _, addr := range []string{"example.com/foo/bar/baz", "example.com/foo/bar/baz//sub"} {
		diags, perr := mut2085Add(context.Background(), b, addr)
		if perr != nil {
			t.Fatalf("adding %s: %s", addr, perr)
		}
		if diags.HasErrors() {
			t.Fatalf("adding %s: %s", addr, diags[0].Description().Summary+": "+diags[0].Description().Detail)
		}
	}
	if versionCalls != 1 || sourceCalls != 1 {
		t.Errorf("registry asked %d times for versions and %d times for the source address; want once each", versionCalls, sourceCalls)
	}
	bundle, err := b.Close()
	if err != nil {
		t.Fatal(err)
	}
	if _, err := bundle.LocalPathForRegistrySource(sourceaddrs.MustParseSource("example.com/foo/bar/baz").(sourceaddrs.RegistrySource), versions.MustParseVersion("1.0.0")); err != nil {
		t.Errorf("registry source missing from bundle: %s", err)
	}
}
