// place in: sourceaddrs
package sourceaddrs_test

import (
	"strings"
	"testing"

	"github.com/hashicorp/go-slug/sourceaddrs"
)

// C07 (converse) / C06: an address that follows the grammar is accepted. A
// hostname whose first label is 60 bytes long is a valid DNS name and must be
// accepted, print, and parse back to the same value.
func TestMut101057_SixtyByteLabelAccepted(t *testing.T) {
	in := strings.Repeat("a", 60) + ".example.com/ns/name/sys//sub"
	s, err := sourceaddrs.ParseRegistrySource(in)
	if err != nil {
		t.Fatalf("valid registry address rejected: %v", err)
	}
	if got := s.String(); got != in {
		t.Fatalf("printed %q, want %q", got, in)
	}
	again, err := sourceaddrs.ParseRegistrySource(s.String())
	if err != nil || again != s {
		t.Fatalf("round trip failed: %v", err)
	}
}
