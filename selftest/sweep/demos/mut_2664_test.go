// place in: sourcebundle
package sourcebundle_test

import (
	"github.com/hashicorp/go-slug/sourcebundle"
	"os"
	"path/filepath"
	"testing"
)

func open2664(t *testing.T, manifest string) *sourcebundle.Bundle {
	t.Helper()
	dir := t.TempDir()
	if err := os.WriteFile(filepath.Join(dir, "terraform-sources.json"), []byte(manifest), 0o644); err != nil {
		t.Fatal(err)
	}
	b, err := sourcebundle.OpenDir(dir)
	if err != nil {
		t.Fatalf("OpenDir: %s", err)
	}
	return b
}

func TestMut2664(t *testing.T) {
	b := open2664(t, `{"terraform_source_bundle":1,
	 "packages":[{"source":"https://example.com/foo.tgz","local":"abc"}],
	 "registry":[
	  {"source":"example.com/ns/a/sys","versions":{"1.0.0":{"source":"https://example.com/foo.tgz"}}},
	  {"source":"example.com/ns/b/sys","versions":{"1.0.0":{"source":"https://example.com/foo.tgz"}}}]}`)
	pkgs := b.RegistryPackages()
	if len(pkgs) != 2 || pkgs[0].String() == "" || pkgs[1].String() == "" || pkgs[0].Name == "" || pkgs[1].Name == "" {
		t.Fatalf("want exactly the 2 registry packages of the manifest, got %d: %#v", len(pkgs), pkgs)
	}
	// a bundle without any package must still answer
	e := open2664(t, `{"terraform_source_bundle":1}`)
	if got := e.RegistryPackages(); len(got) != 0 {
		t.Fatalf("empty bundle reports registry packages %v", got)
	}
}
