// place in: sourcebundle
package sourcebundle_test

import (
	"context"
	"fmt"
	"io/fs"
	"net/url"
	"os"
	"path/filepath"
	"testing"

	"github.com/hashicorp/go-slug/sourceaddrs"
	"github.com/hashicorp/go-slug/sourcebundle"
)

type fetcher101824 func(dir string) error

func (f fetcher101824) FetchSourcePackage(ctx context.Context, sourceType string, u *url.URL, targetDir string) (sourcebundle.FetchSourcePackageResponse, error) {
	return sourcebundle.FetchSourcePackageResponse{}, f(targetDir)
}

type noDeps101824 struct{}

func (noDeps101824) FindDependencies(fsys fs.FS, subPath string, deps *sourcebundle.Dependencies) sourcebundle.Diagnostics {
	return nil
}

// build101824 builds a bundle in targetDir from one remote package whose
// content is produced by populate, and returns the package directory.
func build101824(targetDir string, populate func(dir string) error) (string, error) {
	b, err := sourcebundle.NewBuilder(targetDir, fetcher101824(populate), nil)
	if err != nil {
		return "", err
	}
	src := sourceaddrs.MustParseSource("https://example.com/pkg.tgz").(sourceaddrs.RemoteSource)
	diags := b.AddRemoteSource(context.Background(), src, noDeps101824{})
	if diags.HasErrors() {
		msg := ""
		for _, d := range diags {
			msg += d.Description().Summary + ": " + d.Description().Detail + "; "
		}
		return "", fmt.Errorf("build failed: %s", msg)
	}
	bundle, err := b.Close()
	if err != nil {
		return "", err
	}
	return bundle.LocalPathForRemoteSource(src)
}

var _ = filepath.Join
var _ = os.Lstat

// A relative link from a sub-directory to a file one level up stays inside
// the package and must be accepted and preserved.
func TestMut101824_InPackageParentLinkAccepted(t *testing.T) {
	target := t.TempDir()
	dir, err := build101824(target, func(dir string) error {
		if err := os.WriteFile(filepath.Join(dir, "main.tf"), []byte("main"), 0644); err != nil {
			return err
		}
		if err := os.MkdirAll(filepath.Join(dir, "sub"), 0755); err != nil {
			return err
		}
		return os.Symlink("../main.tf", filepath.Join(dir, "sub", "link.tf"))
	})
	if err != nil {
		t.Fatalf("build failed for a link that stays inside the package: %v", err)
	}
	got, err := os.ReadFile(filepath.Join(dir, "sub", "link.tf"))
	if err != nil || string(got) != "main" {
		t.Fatalf("link does not resolve to main.tf: %q, %v", got, err)
	}
}
