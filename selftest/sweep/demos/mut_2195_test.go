// place in: sourcebundle
package sourcebundle_test

import (
	"context"
	"encoding/base64"
	"github.com/hashicorp/go-slug/sourceaddrs"
	"github.com/hashicorp/go-slug/sourcebundle"
	"golang.org/x/mod/sumdb/dirhash"
	"io/fs"
	"net/url"
	"os"
	"path/filepath"
	"strings"
	"testing"
)

type mutFetcher2195 func(ctx context.Context, sourceType string, u *url.URL, targetDir string) (sourcebundle.FetchSourcePackageResponse, error)

func (f mutFetcher2195) FetchSourcePackage(ctx context.Context, sourceType string, u *url.URL, targetDir string) (sourcebundle.FetchSourcePackageResponse, error) {
	return f(ctx, sourceType, u, targetDir)
}

type mutNoDeps2195 struct{}

func (mutNoDeps2195) FindDependencies(fsys fs.FS, subPath string, deps *sourcebundle.Dependencies) sourcebundle.Diagnostics {
	return nil
}

// If the package directory cannot be moved to its final name the build must
// report it. The failure is provoked here by a regular file occupying the
// final name (standing in for any rename failure such as ENOSPC or EIO).
func TestMut2195_RenameFailureReported(t *testing.T) {
	src := sourceaddrs.MustParseSource("git::https://example.com/foo.git").(sourceaddrs.RemoteSource)
	populate := func(dir string) error {
		return os.WriteFile(filepath.Join(dir, "main.tf"), []byte("x"), 0644)
	}
	ref := t.TempDir()
	if err := populate(ref); err != nil {
		t.Fatal(err)
	}
	hash, err := dirhash.HashDir(ref, "", dirhash.Hash1)
	if err != nil {
		t.Fatal(err)
	}
	raw, err := base64.StdEncoding.DecodeString(strings.TrimPrefix(hash, "h1:"))
	if err != nil {
		t.Fatal(err)
	}
	name := base64.RawURLEncoding.EncodeToString(raw)

	target := t.TempDir()
	fetcher := mutFetcher2195(func(ctx context.Context, sourceType string, u *url.URL, targetDir string) (sourcebundle.FetchSourcePackageResponse, error) {
		return sourcebundle.FetchSourcePackageResponse{}, populate(targetDir)
	})
	b, err := sourcebundle.NewBuilder(target, fetcher, nil)
	if err != nil {
		t.Fatal(err)
	}
	if err := os.WriteFile(filepath.Join(target, name), []byte("in the way"), 0644); err != nil {
		t.Fatal(err)
	}
	diags := b.AddRemoteSource(context.Background(), src, mutNoDeps2195{})
	if !diags.HasErrors() {
		t.Errorf("the package directory could not be placed, yet no error was reported")
	}
}
