// place in: .
package slug

import (
	"archive/tar"
	"bytes"
	"compress/gzip"
	"io"
	"os"
	"path/filepath"
	"testing"
)

// C05: with dereferencing, an out-of-tree directory link is replaced by a copy
// of what it points to.
func TestMut100568_DerefExternalDir(t *testing.T) {
	base := t.TempDir()
	src := filepath.Join(base, "src")
	ext := filepath.Join(base, "ext")
	for _, d := range []string{src, ext} {
		if err := os.Mkdir(d, 0o755); err != nil {
			t.Fatal(err)
		}
	}
	if err := os.WriteFile(filepath.Join(src, "a.txt"), []byte("inside"), 0o644); err != nil {
		t.Fatal(err)
	}
	if err := os.WriteFile(filepath.Join(ext, "e.txt"), []byte("external"), 0o644); err != nil {
		t.Fatal(err)
	}
	if err := os.Symlink(ext, filepath.Join(src, "link")); err != nil {
		t.Fatal(err)
	}

	p, err := NewPacker(DereferenceSymlinks())
	if err != nil {
		t.Fatal(err)
	}
	var buf bytes.Buffer
	if _, err := p.Pack(src, &buf); err != nil {
		t.Fatalf("Pack failed: %v", err)
	}

	gz, err := gzip.NewReader(&buf)
	if err != nil {
		t.Fatal(err)
	}
	tr := tar.NewReader(gz)
	got := map[string]string{}
	for {
		h, err := tr.Next()
		if err == io.EOF {
			break
		}
		if err != nil {
			t.Fatal(err)
		}
		b, _ := io.ReadAll(tr)
		got[h.Name] = string(b)
	}
	if got["link/e.txt"] != "external" {
		t.Fatalf("slug lacks the dereferenced copy link/e.txt; entries: %v", got)
	}
	if _, ok := got["link/a.txt"]; ok {
		t.Fatalf("slug has the source root copied under link/: %v", got)
	}
}
