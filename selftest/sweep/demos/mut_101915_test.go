// place in: sourcebundle
package sourcebundle_test

import (
	"context"
	"fmt"
	"io/fs"
	"net/url"
	"os"
	"path/filepath"
	"syscall"
	"testing"

	"github.com/hashicorp/go-slug/sourceaddrs"
	"github.com/hashicorp/go-slug/sourcebundle"
)

var _ = syscall.Mkfifo
var _ = filepath.Join
var _ = os.Symlink

type fetcher101915 struct {
	populate func(dir string) error
}

func (f fetcher101915) FetchSourcePackage(ctx context.Context, sourceType string, u *url.URL, targetDir string) (sourcebundle.FetchSourcePackageResponse, error) {
	return sourcebundle.FetchSourcePackageResponse{}, f.populate(targetDir)
}

type noDeps101915 struct{}

func (noDeps101915) FindDependencies(fsys fs.FS, subPath string, deps *sourcebundle.Dependencies) sourcebundle.Diagnostics {
	return nil
}

func build101915(t *testing.T, targetDir string, populate func(dir string) error) (*sourcebundle.Bundle, sourceaddrs.RemoteSource, error) {
	t.Helper()
	b, err := sourcebundle.NewBuilder(targetDir, fetcher101915{populate}, nil)
	if err != nil {
		t.Fatal(err)
	}
	src := sourceaddrs.MustParseSource("https://example.com/foo.tgz").(sourceaddrs.RemoteSource)
	diags := b.AddRemoteSource(context.Background(), src, noDeps101915{})
	if diags.HasErrors() {
		d := diags[0].Description()
		return nil, src, fmt.Errorf("%s: %s", d.Summary, d.Detail)
	}
	bundle, err := b.Close()
	return bundle, src, err
}

func TestMut101915_ValidInternalSymlinksAccepted(t *testing.T) {
	targetDir := filepath.Join(t.TempDir(), "bundle")
	if err := os.Mkdir(targetDir, 0755); err != nil {
		t.Fatal(err)
	}
	bundle, src, err := build101915(t, targetDir, func(dir string) error {
		if err := os.WriteFile(filepath.Join(dir, "real.txt"), []byte("hello"), 0644); err != nil {
			return err
		}
		if err := os.Mkdir(filepath.Join(dir, "d"), 0755); err != nil {
			return err
		}
		if err := os.Symlink("real.txt", filepath.Join(dir, "link.txt")); err != nil {
			return err
		}
		return os.Symlink("../real.txt", filepath.Join(dir, "d", "up.txt"))
	})
	if err != nil {
		t.Fatalf("package whose symlinks all resolve to files/dirs inside the package was rejected: %s", err)
	}
	pkgDir, err := bundle.LocalPathForRemoteSource(src)
	if err != nil {
		t.Fatal(err)
	}
	for _, name := range []string{"link.txt", "d/up.txt"} {
		got, err := os.ReadFile(filepath.Join(pkgDir, name))
		if err != nil || string(got) != "hello" {
			t.Errorf("%s: got %q, %v", name, got, err)
		}
	}
}

