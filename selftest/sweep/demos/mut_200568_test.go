// place in: sourcebundle
package sourcebundle_test

import (
	"context"
	"errors"
	"io/fs"
	"net/url"
	"os"
	"path/filepath"
	"testing"

	"github.com/apparentlymart/go-versions/versions"
	"github.com/hashicorp/go-slug/sourceaddrs"
	"github.com/hashicorp/go-slug/sourcebundle"
	regaddr "github.com/hashicorp/terraform-registry-address"
)

var (
	_ = errors.New
	_ = versions.All
	_ regaddr.ModulePackage
	_ = filepath.Join
	_ = os.WriteFile
)

type fetcher200568 struct {
	fail bool
	meta *sourcebundle.PackageMeta
}

func (f fetcher200568) FetchSourcePackage(ctx context.Context, sourceType string, u *url.URL, targetDir string) (sourcebundle.FetchSourcePackageResponse, error) {
	var ret sourcebundle.FetchSourcePackageResponse
	if f.fail {
		return ret, errors.New("fetch failed")
	}
	for _, d := range []string{"a", "b"} {
		if err := os.MkdirAll(filepath.Join(targetDir, d), 0755); err != nil {
			return ret, err
		}
		if err := os.WriteFile(filepath.Join(targetDir, d, "main.tf"), []byte(u.String()+d), 0644); err != nil {
			return ret, err
		}
	}
	ret.PackageMeta = f.meta
	return ret, nil
}

type registry200568 struct{}

func (registry200568) ModulePackageVersions(ctx context.Context, pkgAddr regaddr.ModulePackage) (sourcebundle.ModulePackageVersionsResponse, error) {
	return sourcebundle.ModulePackageVersionsResponse{}, errors.New("registry down")
}

func (registry200568) ModulePackageSourceAddr(ctx context.Context, pkgAddr regaddr.ModulePackage, version versions.Version) (sourcebundle.ModulePackageSourceAddrResponse, error) {
	return sourcebundle.ModulePackageSourceAddrResponse{}, errors.New("registry down")
}

type finder200568 struct {
	seen []string
	fn   func(subPath string, deps *sourcebundle.Dependencies) sourcebundle.Diagnostics
}

func (f *finder200568) FindDependencies(fsys fs.FS, subPath string, deps *sourcebundle.Dependencies) sourcebundle.Diagnostics {
	f.seen = append(f.seen, subPath)
	if f.fn != nil {
		return f.fn(subPath, deps)
	}
	return nil
}

type diag200568 struct{}

func (diag200568) Severity() sourcebundle.DiagSeverity { return sourcebundle.DiagError }
func (diag200568) Description() sourcebundle.DiagDescription {
	return sourcebundle.DiagDescription{Summary: "finder problem", Detail: "finder detail"}
}
func (diag200568) Source() sourcebundle.DiagSource { return sourcebundle.DiagSource{} }
func (diag200568) ExtraInfo() interface{}          { return nil }

func TestMut200568(t *testing.T) {
	b, err := sourcebundle.NewBuilder(t.TempDir(), fetcher200568{}, registry200568{})
	if err != nil {
		t.Fatal(err)
	}
	dep := sourceaddrs.MustParseSource("git::https://example.com/dep.git//a").(sourceaddrs.RemoteSource)
	f := &finder200568{}
	f.fn = func(subPath string, deps *sourcebundle.Dependencies) sourcebundle.Diagnostics {
		if subPath == "b" {
			deps.AddRemoteSource(dep, f)
		}
		return nil
	}
	srcA := sourceaddrs.MustParseSource("git::https://example.com/foo.git//a").(sourceaddrs.RemoteSource)
	srcB := sourceaddrs.MustParseSource("git::https://example.com/foo.git//b").(sourceaddrs.RemoteSource)
	for _, src := range []sourceaddrs.RemoteSource{srcA, srcB} {
		if diags := b.AddRemoteSource(context.Background(), src, f); diags.HasErrors() {
			t.Fatalf("unexpected errors: %v", diags[0].Description())
		}
	}
	bundle, err := b.Close()
	if err != nil {
		t.Fatal(err)
	}
	if _, err := bundle.LocalPathForRemoteSource(dep); err != nil {
		t.Fatalf("dependency declared by %s is missing from the bundle (analysed: %v): %s", srcB, f.seen, err)
	}
}
