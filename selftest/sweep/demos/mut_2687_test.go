// place in: sourcebundle
package sourcebundle_test

import (
	"fmt"
	"github.com/hashicorp/go-slug/sourcebundle"
	"os"
	"path/filepath"
	"testing"
)

func open2687(t *testing.T, manifest string) *sourcebundle.Bundle {
	t.Helper()
	dir := t.TempDir()
	if err := os.WriteFile(filepath.Join(dir, "terraform-sources.json"), []byte(manifest), 0o644); err != nil {
		t.Fatal(err)
	}
	b, err := sourcebundle.OpenDir(dir)
	if err != nil {
		t.Fatalf("OpenDir: %s", err)
	}
	return b
}

func TestMut2687(t *testing.T) {
	m := `{"terraform_source_bundle":1,"registry":[{"source":"example.com/ns/a/sys","versions":{`
	for i, n := range []string{"a", "b", "c", "d", "e", "f", "g", "h"} {
		if i > 0 {
			m += ","
		}
		m += `"1.0.0+` + n + `":{"source":"https://example.com/foo.tgz"}`
	}
	m += `}}]}`
	b := open2687(t, m)
	pkg := b.RegistryPackages()[0]
	first := fmt.Sprint(b.RegistryPackageVersions(pkg))
	for i := 0; i < 300; i++ {
		if got := fmt.Sprint(b.RegistryPackageVersions(pkg)); got != first {
			t.Fatalf("RegistryPackageVersions order changes between calls on the same bundle:\n%s\n%s", first, got)
		}
	}
}
