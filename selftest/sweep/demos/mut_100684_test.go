// place in: .
package slug

import (
	"archive/tar"
	"bytes"
	"compress/gzip"
	"os"
	"path/filepath"
	"testing"
)

// Unpack into a destination given as a relative path must still accept a
// harmless in-tree relative symlink (C15/C02).
func TestMut100684RelativeDstSymlink(t *testing.T) {
	var buf bytes.Buffer
	gz := gzip.NewWriter(&buf)
	tw := tar.NewWriter(gz)
	if err := tw.WriteHeader(&tar.Header{Name: "f", Typeflag: tar.TypeReg, Mode: 0644, Size: 2}); err != nil {
		t.Fatal(err)
	}
	tw.Write([]byte("hi"))
	if err := tw.WriteHeader(&tar.Header{Name: "l", Typeflag: tar.TypeSymlink, Linkname: "f", Mode: 0777}); err != nil {
		t.Fatal(err)
	}
	tw.Close()
	gz.Close()

	base := t.TempDir()
	old, err := os.Getwd()
	if err != nil {
		t.Fatal(err)
	}
	if err := os.Chdir(base); err != nil {
		t.Fatal(err)
	}
	defer os.Chdir(old)
	if err := os.Mkdir("out", 0755); err != nil {
		t.Fatal(err)
	}
	if err := Unpack(&buf, "out"); err != nil {
		t.Fatalf("Unpack into relative dst failed: %v", err)
	}
	got, err := os.Readlink(filepath.Join(base, "out", "l"))
	if err != nil || got != "f" {
		t.Fatalf("link not materialised: %q %v", got, err)
	}
}
