// place in: sourcebundle
package sourcebundle

import (
	"os"
	"path/filepath"
	"testing"

	"github.com/hashicorp/go-slug/sourceaddrs"
)

// A manifest whose registry package address is invalid must be refused;
// otherwise RegistryPackages() hands out a zero-value package address whose
// printed form is not an address at all.
func TestMut2502(t *testing.T) {
	dir := t.TempDir()
	manifest := `{"terraform_source_bundle":1,"registry":[{"source":"not a registry address","versions":{"1.0.0":{"source":"https://example.com/foo.tgz"}}}]}`
	if err := os.WriteFile(filepath.Join(dir, "terraform-sources.json"), []byte(manifest), 0644); err != nil {
		t.Fatal(err)
	}
	b, err := OpenDir(dir)
	if err != nil {
		return // refused: fine
	}
	for _, pkg := range b.RegistryPackages() {
		s := pkg.String()
		if _, err := sourceaddrs.ParseRegistryPackage(s); err != nil {
			t.Fatalf("bundle handed out registry package address %q which does not parse back: %s", s, err)
		}
	}
	t.Fatalf("manifest with invalid registry package address was accepted")
}
