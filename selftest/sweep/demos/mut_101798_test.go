// place in: sourcebundle
package sourcebundle_test

import (
	"context"
	"fmt"
	"io/fs"
	"net/url"
	"os"
	"path/filepath"
	"testing"

	"github.com/hashicorp/go-slug/sourceaddrs"
	"github.com/hashicorp/go-slug/sourcebundle"
)

type fetcher101798 func(dir string) error

func (f fetcher101798) FetchSourcePackage(ctx context.Context, sourceType string, u *url.URL, targetDir string) (sourcebundle.FetchSourcePackageResponse, error) {
	return sourcebundle.FetchSourcePackageResponse{}, f(targetDir)
}

type noDeps101798 struct{}

func (noDeps101798) FindDependencies(fsys fs.FS, subPath string, deps *sourcebundle.Dependencies) sourcebundle.Diagnostics {
	return nil
}

// build101798 builds a bundle in targetDir from one remote package whose
// content is produced by populate, and returns the package directory.
func build101798(targetDir string, populate func(dir string) error) (string, error) {
	b, err := sourcebundle.NewBuilder(targetDir, fetcher101798(populate), nil)
	if err != nil {
		return "", err
	}
	src := sourceaddrs.MustParseSource("https://example.com/pkg.tgz").(sourceaddrs.RemoteSource)
	diags := b.AddRemoteSource(context.Background(), src, noDeps101798{})
	if diags.HasErrors() {
		msg := ""
		for _, d := range diags {
			msg += d.Description().Summary + ": " + d.Description().Detail + "; "
		}
		return "", fmt.Errorf("build failed: %s", msg)
	}
	bundle, err := b.Close()
	if err != nil {
		return "", err
	}
	return bundle.LocalPathForRemoteSource(src)
}

var _ = filepath.Join
var _ = os.Lstat

// An empty .terraform directory is excluded by the default rule
// ".terraform/" (the later "!.terraform/modules/" re-includes nothing here),
// so it must not remain in the package directory.
func TestMut101798_EmptyExcludedDirRemoved(t *testing.T) {
	target := t.TempDir()
	dir, err := build101798(target, func(dir string) error {
		if err := os.MkdirAll(filepath.Join(dir, ".terraform"), 0755); err != nil {
			return err
		}
		return os.WriteFile(filepath.Join(dir, "main.tf"), []byte("main"), 0644)
	})
	if err != nil {
		t.Fatalf("build failed: %v", err)
	}
	if _, err := os.Lstat(filepath.Join(dir, ".terraform")); err == nil {
		t.Errorf(".terraform is excluded (rule \".terraform/\") and empty, but is still present")
	}
}
