// place in: .
package slug

import (
	"archive/tar"
	"bytes"
	"compress/gzip"
	"os"
	"path/filepath"
	"syscall"
	"testing"
)

// C15: the last entry for a path wins even if an earlier one was read-only.
// Root ignores permission bits, so when run as root the effective uid is
// dropped for the duration of the Unpack call.
func TestMut843_DuplicateReadOnly(t *testing.T) {
	var buf bytes.Buffer
	gz := gzip.NewWriter(&buf)
	tw := tar.NewWriter(gz)
	must := func(err error) {
		t.Helper()
		if err != nil {
			t.Fatal(err)
		}
	}
	must(tw.WriteHeader(&tar.Header{Name: "a", Typeflag: tar.TypeReg, Mode: 0400, Size: 5}))
	_, err := tw.Write([]byte("first"))
	must(err)
	must(tw.WriteHeader(&tar.Header{Name: "a", Typeflag: tar.TypeReg, Mode: 0400, Size: 6}))
	_, err = tw.Write([]byte("second"))
	must(err)
	must(tw.Close())
	must(gz.Close())

	base, err := os.MkdirTemp("", "mut843")
	must(err)
	defer os.RemoveAll(base)
	must(os.Chmod(base, 0755))
	dst := filepath.Join(base, "dst")
	must(os.Mkdir(dst, 0777))
	must(os.Chmod(dst, 0777))

	if os.Geteuid() == 0 {
		must(os.Chown(dst, 65534, 65534))
		must(syscall.Seteuid(65534))
		defer syscall.Seteuid(0)
	}
	err = Unpack(&buf, dst)
	if os.Getuid() == 0 {
		must(syscall.Seteuid(0))
	}
	if err != nil {
		t.Fatalf("Unpack: %v", err)
	}
	got, err := os.ReadFile(filepath.Join(dst, "a"))
	must(err)
	if string(got) != "second" {
		t.Fatalf("a = %q, want the last entry's content", got)
	}
	fi, err := os.Stat(filepath.Join(dst, "a"))
	must(err)
	if fi.Mode().Perm() != 0400 {
		t.Fatalf("a mode %v", fi.Mode())
	}
}
