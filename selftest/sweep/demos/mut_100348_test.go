// place in: .
package slug

import (
	"archive/tar"
	"bytes"
	"compress/gzip"
	"io"
	"os"
	"path/filepath"
	"runtime"
	"strings"
	"syscall"
	"testing"
)

var _ = runtime.LockOSThread
var _ = syscall.Setfsuid
var _ = strings.HasPrefix
var _ = filepath.Join

type mutEntry100348 struct {
	hdr  *tar.Header
	body string
}

func mutRead100348(t *testing.T, data []byte) []mutEntry100348 {
	t.Helper()
	gz, err := gzip.NewReader(bytes.NewReader(data))
	if err != nil {
		t.Fatal(err)
	}
	tr := tar.NewReader(gz)
	var out []mutEntry100348
	for {
		h, err := tr.Next()
		if err == io.EOF {
			break
		}
		if err != nil {
			t.Fatal(err)
		}
		b, err := io.ReadAll(tr)
		if err != nil {
			t.Fatal(err)
		}
		out = append(out, mutEntry100348{h, string(b)})
	}
	return out
}

func mutNames100348(es []mutEntry100348) []string {
	var n []string
	for _, e := range es {
		n = append(n, e.hdr.Name)
	}
	return n
}

func mutWrite100348(t *testing.T, path, content string) {
	t.Helper()
	if err := os.MkdirAll(filepath.Dir(path), 0755); err != nil {
		t.Fatal(err)
	}
	if err := os.WriteFile(path, []byte(content), 0644); err != nil {
		t.Fatal(err)
	}
}

// A relative link inside a dereferenced directory that, at its position in
// the slug, points inside the slug is kept as a link; the content of the
// out-of-tree file it happens to reach on disk is not copied in.
func TestMut100348(t *testing.T) {
	base := t.TempDir()
	src := filepath.Join(base, "src")
	ext := filepath.Join(base, "ext")
	mutWrite100348(t, filepath.Join(src, "f"), "inside")
	mutWrite100348(t, filepath.Join(base, "f"), "SECRET")
	mutWrite100348(t, filepath.Join(ext, "file.txt"), "data")
	if err := os.Symlink("../f", filepath.Join(ext, "inner")); err != nil {
		t.Fatal(err)
	}
	if err := os.Symlink("../ext", filepath.Join(src, "link")); err != nil {
		t.Fatal(err)
	}
	var buf bytes.Buffer
	if _, err := Pack(src, &buf, true); err != nil {
		t.Fatal(err)
	}
	es := mutRead100348(t, buf.Bytes())
	ok := false
	for _, e := range es {
		if e.body == "SECRET" {
			t.Errorf("entry %q carries the content of a file outside the source", e.hdr.Name)
		}
		if e.hdr.Name == "link/inner" && e.hdr.Typeflag == tar.TypeSymlink && e.hdr.Linkname == "../f" {
			ok = true
		}
	}
	if !ok {
		t.Errorf("link/inner not stored as link to ../f; entries %q", mutNames100348(es))
	}
}
