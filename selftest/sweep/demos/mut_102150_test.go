// place in: sourcebundle
package sourcebundle

import (
	"os"
	"path/filepath"
	"strings"
	"testing"
)

// Two bundle directories with the same manifest and content are equivalent,
// so their checksums must agree and must not mention where they live (C09).
func TestMut102150ChecksumIndependentOfLocation(t *testing.T) {
	manifest := `{"terraform_source_bundle":1,"packages":[{"source":"git::https://example.com/foo.git","local":"pkgdir"}]}`
	var sums []string
	for i := 0; i < 2; i++ {
		dir := t.TempDir()
		if err := os.WriteFile(filepath.Join(dir, manifestFilename), []byte(manifest), 0o644); err != nil {
			t.Fatal(err)
		}
		if err := os.MkdirAll(filepath.Join(dir, "pkgdir"), 0o755); err != nil {
			t.Fatal(err)
		}
		b, err := OpenDir(dir)
		if err != nil {
			t.Fatal(err)
		}
		sum, err := b.ChecksumV1()
		if err != nil {
			t.Fatal(err)
		}
		if strings.Contains(sum, dir) {
			t.Fatalf("checksum %q contains the bundle directory", sum)
		}
		sums = append(sums, sum)
	}
	if sums[0] != sums[1] {
		t.Fatalf("identical bundles in different directories have checksums %q and %q", sums[0], sums[1])
	}
}
