// place in: sourceaddrs
package sourceaddrs

import "testing"

// C19: a public entry point must not panic on a valid address.
func TestMut200312(t *testing.T) {
	addr, err := ParseFinalSource("./a/b.tf")
	if err != nil {
		t.Fatal(err)
	}
	defer func() {
		if r := recover(); r != nil {
			t.Fatalf("FinalSourceFilename panicked for %T %s: %v", addr, addr, r)
		}
	}()
	if got := FinalSourceFilename(addr); got != "b.tf" {
		t.Fatalf("FinalSourceFilename(%s) = %q, want b.tf", addr, got)
	}
}
