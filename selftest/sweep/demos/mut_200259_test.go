// place in: sourceaddrs
package sourceaddrs

import "testing"

// C06: combining a package with a sub-path must give an address that prints
// to a string which parses back to an equal value (and keeps the package).
func TestMut200259SourceAddrKeepsPackage(t *testing.T) {
	pkg, err := ParseRemotePackage("git::https://example.com/repo.git")
	if err != nil {
		t.Fatal(err)
	}
	addr := pkg.SourceAddr("modules/foo")
	if addr.Package() != pkg {
		t.Fatalf("SourceAddr lost the package: got %q, want %q", addr.Package().String(), pkg.String())
	}
	again, err := ParseRemoteSource(addr.String())
	if err != nil {
		t.Fatalf("%q does not parse back: %v", addr.String(), err)
	}
	if again != addr {
		t.Fatalf("round trip changed the address: %q -> %q", addr.String(), again.String())
	}
}
