// place in: sourcebundle
package sourcebundle_test

import (
	"context"
	"errors"
	"github.com/hashicorp/go-slug/sourceaddrs"
	"github.com/hashicorp/go-slug/sourcebundle"
	"io/fs"
	"net/url"
	"os"
	"path/filepath"
	"testing"
)

func open2735(t *testing.T, manifest string) *sourcebundle.Bundle {
	t.Helper()
	dir := t.TempDir()
	if err := os.WriteFile(filepath.Join(dir, "terraform-sources.json"), []byte(manifest), 0o644); err != nil {
		t.Fatal(err)
	}
	b, err := sourcebundle.OpenDir(dir)
	if err != nil {
		t.Fatalf("OpenDir: %s", err)
	}
	return b
}

type fetch2735 struct{}

func (fetch2735) FetchSourcePackage(ctx context.Context, sourceType string, u *url.URL, targetDir string) (sourcebundle.FetchSourcePackageResponse, error) {
	return sourcebundle.FetchSourcePackageResponse{}, errors.New("fetch failed")
}

type finder2735 struct{}

func (finder2735) FindDependencies(fsys fs.FS, subPath string, deps *sourcebundle.Dependencies) sourcebundle.Diagnostics {
	return nil
}

func TestMut2735(t *testing.T) {
	_ = open2735
	b, err := sourcebundle.NewBuilder(t.TempDir(), fetch2735{}, nil)
	if err != nil {
		t.Fatal(err)
	}
	diags := b.AddRemoteSource(context.Background(), sourceaddrs.MustParseSource("https://example.com/foo.tgz").(sourceaddrs.RemoteSource), finder2735{})
	if len(diags) != 1 || diags[0].Severity() != sourcebundle.DiagError {
		t.Fatalf("expected exactly one error diagnostic, got %v", diags)
	}
	// the failed build must leave the builder unusable: Close must not hand out a bundle
	var bundle *sourcebundle.Bundle
	var cerr error
	panicked := func() (p bool) {
		defer func() {
			if recover() != nil {
				p = true
			}
		}()
		bundle, cerr = b.Close()
		return false
	}()
	if !panicked && cerr == nil {
		t.Fatalf("a bundle (%v) came out of a failed build", bundle)
	}
	if !diags.HasErrors() {
		t.Fatalf("HasErrors is false for diagnostics holding an error")
	}
}
