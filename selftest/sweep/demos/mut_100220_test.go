// place in: .
package slug

import (
	"bytes"
	"os"
	"path/filepath"
	"testing"
)

// Packing a source path that is a dangling symlink must return an error, not panic.
func TestMut100220_DanglingRootLink(t *testing.T) {
	dir := t.TempDir()
	link := filepath.Join(dir, "link")
	if err := os.Symlink(filepath.Join(dir, "missing"), link); err != nil {
		t.Fatal(err)
	}
	defer func() {
		if r := recover(); r != nil {
			t.Fatalf("Pack panicked: %v", r)
		}
	}()
	if _, err := Pack(link, &bytes.Buffer{}, false); err == nil {
		t.Fatal("expected an error for a dangling source link")
	}
}
