// place in: sourcebundle
package sourcebundle_test

import (
	"bytes"
	"github.com/hashicorp/go-slug/sourcebundle"
	"os"
	"path/filepath"
	"testing"
)

func open2698(t *testing.T, manifest string) *sourcebundle.Bundle {
	t.Helper()
	dir := t.TempDir()
	if err := os.WriteFile(filepath.Join(dir, "terraform-sources.json"), []byte(manifest), 0o644); err != nil {
		t.Fatal(err)
	}
	b, err := sourcebundle.OpenDir(dir)
	if err != nil {
		t.Fatalf("OpenDir: %s", err)
	}
	return b
}

func TestMut2698(t *testing.T) {
	b := open2698(t, `{"terraform_source_bundle":1}`)
	var buf bytes.Buffer
	if err := b.WriteArchive(&buf); err != nil {
		t.Fatalf("WriteArchive of a valid bundle failed: %v", err)
	}
	b2, err := sourcebundle.ExtractArchive(&buf, t.TempDir())
	if err != nil {
		t.Fatalf("ExtractArchive: %v", err)
	}
	c1, _ := b.ChecksumV1()
	c2, _ := b2.ChecksumV1()
	if c1 != c2 {
		t.Fatalf("checksum differs after archive round trip")
	}
}
