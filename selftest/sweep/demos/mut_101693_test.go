// place in: sourcebundle
package sourcebundle_test

// Two different package addresses deliver identical content, so the second one
// is coalesced onto the directory of the first. The dependency finder must
// still be shown the package's own directory when the second address is
// analysed (with a different sub-path), otherwise the dependency declared
// below that sub-path is never discovered and is missing from the bundle.

import (
	"context"
	"io/fs"
	"net/url"
	"os"
	"path"
	"path/filepath"
	"strings"
	"testing"

	"github.com/hashicorp/go-slug/sourceaddrs"
	"github.com/hashicorp/go-slug/sourcebundle"
)

type coalesceFetcher101693 struct{}

func (coalesceFetcher101693) FetchSourcePackage(ctx context.Context, sourceType string, u *url.URL, targetDir string) (sourcebundle.FetchSourcePackageResponse, error) {
	var ret sourcebundle.FetchSourcePackageResponse
	write := func(rel, content string) error {
		p := filepath.Join(targetDir, rel)
		if err := os.MkdirAll(filepath.Dir(p), 0755); err != nil {
			return err
		}
		return os.WriteFile(p, []byte(content), 0644)
	}
	switch {
	case strings.Contains(u.Path, "dep"):
		return ret, write("main.tf", "# "+u.Path+"\n")
	default:
		// same content for every other package
		if err := write("x/deps", "https://example.com/depx.tgz\n"); err != nil {
			return ret, err
		}
		return ret, write("y/deps", "https://example.com/depy.tgz\n")
	}
}

type fileDepFinder101693 struct{ t *testing.T }

func (f fileDepFinder101693) FindDependencies(fsys fs.FS, subPath string, deps *sourcebundle.Dependencies) sourcebundle.Diagnostics {
	raw, err := fs.ReadFile(fsys, path.Join(subPath, "deps"))
	if err != nil {
		return nil // nothing declared here
	}
	for _, line := range strings.Split(strings.TrimSpace(string(raw)), "\n") {
		src, err := sourceaddrs.ParseRemoteSource(line)
		if err != nil {
			f.t.Fatalf("bad dep %q: %s", line, err)
		}
		deps.AddRemoteSource(src, f)
	}
	return nil
}

func TestMut101693CoalescedPackageStillAnalysedInItsOwnDir(t *testing.T) {
	target := t.TempDir()
	b, err := sourcebundle.NewBuilder(target, coalesceFetcher101693{}, nil)
	if err != nil {
		t.Fatal(err)
	}
	ctx := context.Background()
	finder := fileDepFinder101693{t}

	for _, s := range []string{"https://example.com/a.tgz//x", "https://example.com/b.tgz//y"} {
		diags := b.AddRemoteSource(ctx, sourceaddrs.MustParseSource(s).(sourceaddrs.RemoteSource), finder)
		if diags.HasErrors() {
			t.Fatalf("add %s: %v", s, diags)
		}
	}
	bundle, err := b.Close()
	if err != nil {
		t.Fatal(err)
	}

	for _, s := range []string{
		"https://example.com/a.tgz//x",
		"https://example.com/b.tgz//y",
		"https://example.com/depx.tgz",
		"https://example.com/depy.tgz",
	} {
		p, err := bundle.LocalPathForSource(sourceaddrs.MustParseSource(s).(sourceaddrs.FinalSource))
		if err != nil {
			t.Errorf("%s is not in the bundle: %s", s, err)
			continue
		}
		if _, err := os.Stat(p); err != nil {
			t.Errorf("%s: %s", s, err)
		}
	}
}
