// place in: sourceaddrs
package sourceaddrs_test

import (
	"testing"

	"github.com/hashicorp/go-slug/sourceaddrs"
)

// C19: a string whose URL part has invalid syntax must give an error, not a panic.
func TestMut101149(t *testing.T) {
	for _, in := range []string{"git::https://example.com/%zz", "https://exa mple.com/foo.tgz"} {
		func() {
			defer func() {
				if r := recover(); r != nil {
					t.Errorf("ParseRemoteSource(%q) panicked: %v", in, r)
				}
			}()
			if _, err := sourceaddrs.ParseRemoteSource(in); err == nil {
				t.Errorf("ParseRemoteSource(%q) succeeded; want error", in)
			}
		}()
	}
}
