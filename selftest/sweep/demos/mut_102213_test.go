// place in: sourcebundle
package sourcebundle_test

import (
	"context"
	"io/fs"
	"net/url"
	"os"
	"path/filepath"
	"testing"

	"github.com/apparentlymart/go-versions/versions"
	regaddr "github.com/hashicorp/terraform-registry-address"

	"github.com/hashicorp/go-slug/sourceaddrs"
	"github.com/hashicorp/go-slug/sourcebundle"
)

type mut102213Fetcher struct{}

func (mut102213Fetcher) FetchSourcePackage(ctx context.Context, sourceType string, u *url.URL, targetDir string) (sourcebundle.FetchSourcePackageResponse, error) {
	var ret sourcebundle.FetchSourcePackageResponse
	if err := os.MkdirAll(filepath.Join(targetDir, "sub"), 0755); err != nil {
		return ret, err
	}
	return ret, os.WriteFile(filepath.Join(targetDir, "sub", "main.tf"), []byte("x\n"), 0644)
}

type mut102213Registry struct{}

func (mut102213Registry) ModulePackageVersions(ctx context.Context, pkgAddr regaddr.ModulePackage) (sourcebundle.ModulePackageVersionsResponse, error) {
	return sourcebundle.ModulePackageVersionsResponse{}, nil
}

func (mut102213Registry) ModulePackageSourceAddr(ctx context.Context, pkgAddr regaddr.ModulePackage, version versions.Version) (sourcebundle.ModulePackageSourceAddrResponse, error) {
	return sourcebundle.ModulePackageSourceAddrResponse{}, nil
}

type mut102213Diag struct{}

func (mut102213Diag) Severity() sourcebundle.DiagSeverity { return sourcebundle.DiagWarning }
func (mut102213Diag) Description() sourcebundle.DiagDescription {
	return sourcebundle.DiagDescription{Summary: "warn", Detail: "something"}
}
func (mut102213Diag) Source() sourcebundle.DiagSource {
	return sourcebundle.DiagSource{
		Subject: &sourcebundle.SourceRange{Filename: "sub/main.tf"},
		Context: &sourcebundle.SourceRange{Filename: "sub/main.tf"},
	}
}
func (mut102213Diag) ExtraInfo() interface{} { return nil }

type mut102213Finder struct{}

func (mut102213Finder) FindDependencies(fsys fs.FS, subPath string, deps *sourcebundle.Dependencies) sourcebundle.Diagnostics {
	return sourcebundle.Diagnostics{mut102213Diag{}}
}

// File names in finder diagnostics must be rewritten as source addresses
// inside the analysed package (C12), for both Subject and Context.
func TestMut102213DiagFilenamesBecomeSourceAddrs(t *testing.T) {
	b, err := sourcebundle.NewBuilder(t.TempDir(), mut102213Fetcher{}, mut102213Registry{})
	if err != nil {
		t.Fatal(err)
	}
	src := sourceaddrs.MustParseSource("git::https://example.com/foo.git//sub").(sourceaddrs.RemoteSource)
	diags := b.AddRemoteSource(context.Background(), src, mut102213Finder{})
	if len(diags) != 1 {
		t.Fatalf("got %d diagnostics, want 1", len(diags))
	}
	const want = "git::https://example.com/foo.git//sub/main.tf"
	got := diags[0].Source()
	if got.Subject == nil || got.Subject.Filename != want {
		t.Errorf("Subject = %+v, want filename %q", got.Subject, want)
	}
	if got.Context == nil || got.Context.Filename != want {
		t.Errorf("Context = %+v, want filename %q", got.Context, want)
	}
}
