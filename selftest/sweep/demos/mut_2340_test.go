// place in: sourcebundle
package sourcebundle_test

import (
	"context"
	"io/fs"
	"net/url"
	"os"
	"path/filepath"
	"testing"

	"github.com/hashicorp/go-slug/sourceaddrs"
	"github.com/hashicorp/go-slug/sourcebundle"
)

type mut2340Fetcher struct{}

// A perfectly valid package: sub/link -> ../file.txt stays inside it.
func (mut2340Fetcher) FetchSourcePackage(ctx context.Context, sourceType string, u *url.URL, targetDir string) (sourcebundle.FetchSourcePackageResponse, error) {
	var ret sourcebundle.FetchSourcePackageResponse
	if err := os.WriteFile(filepath.Join(targetDir, "file.txt"), []byte("hello"), 0o644); err != nil {
		return ret, err
	}
	if err := os.Mkdir(filepath.Join(targetDir, "sub"), 0o755); err != nil {
		return ret, err
	}
	return ret, os.Symlink(filepath.Join("..", "file.txt"), filepath.Join(targetDir, "sub", "link"))
}

type mut2340Finder struct{}

func (mut2340Finder) FindDependencies(fsys fs.FS, subPath string, deps *sourcebundle.Dependencies) sourcebundle.Diagnostics {
	return nil
}

func TestMut2340(t *testing.T) {
	target := t.TempDir()
	b, err := sourcebundle.NewBuilder(target, mut2340Fetcher{}, nil)
	if err != nil {
		t.Fatal(err)
	}
	addr := sourceaddrs.MustParseSource("git::https://example.com/foo.git").(sourceaddrs.RemoteSource)
	diags := b.AddRemoteSource(context.Background(), addr, mut2340Finder{})
	for _, d := range diags {
		t.Errorf("unexpected diagnostic: %s: %s", d.Description().Summary, d.Description().Detail)
	}
	if diags.HasErrors() {
		t.FailNow()
	}
	bundle, err := b.Close()
	if err != nil {
		t.Fatal(err)
	}
	dir, err := bundle.LocalPathForRemoteSource(addr)
	if err != nil {
		t.Fatal(err)
	}
	got, err := os.ReadFile(filepath.Join(dir, "sub", "link"))
	if err != nil || string(got) != "hello" {
		t.Fatalf("link in bundle does not resolve to the file: %q, %v", got, err)
	}
}
