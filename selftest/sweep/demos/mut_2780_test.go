// place in: .
package slug_test

import (
	"bytes"
	"os"
	"path/filepath"
	"testing"

	slug "github.com/hashicorp/go-slug"
)

// C03: the user's patterns decide what is shipped; a .terraformignore that is
// a symlink to a regular rules file inside the tree is still the user's file.
func TestMut2780SymlinkedIgnoreFile(t *testing.T) {
	src := t.TempDir()
	must := func(err error) {
		t.Helper()
		if err != nil {
			t.Fatal(err)
		}
	}
	must(os.MkdirAll(filepath.Join(src, "conf"), 0o755))
	must(os.WriteFile(filepath.Join(src, "conf", "ignore-rules"), []byte("secret.txt\n"), 0o644))
	must(os.Symlink("conf/ignore-rules", filepath.Join(src, ".terraformignore")))
	must(os.WriteFile(filepath.Join(src, "secret.txt"), []byte("s"), 0o644))
	must(os.WriteFile(filepath.Join(src, "keep.txt"), []byte("k"), 0o644))

	p, err := slug.NewPacker(slug.ApplyTerraformIgnore())
	must(err)
	var buf bytes.Buffer
	meta, err := p.Pack(src, &buf)
	must(err)
	seenKeep := false
	for _, f := range meta.Files {
		if f == "secret.txt" {
			t.Errorf("secret.txt is excluded by the ignore rules but was packed: %v", meta.Files)
		}
		if f == "keep.txt" {
			seenKeep = true
		}
	}
	if !seenKeep {
		t.Errorf("keep.txt missing: %v", meta.Files)
	}
}
