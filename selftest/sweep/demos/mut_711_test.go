// place in: .
package slug

import (
	"bytes"
	"os"
	"path/filepath"
	"testing"
)

// C05: with dereferencing an out-of-tree link is replaced by a copy of what it
// points to, also when it gets there through a second link.
func TestMut711_DerefDirThroughChain(t *testing.T) {
	base := t.TempDir()
	src := filepath.Join(base, "src")
	ext := filepath.Join(base, "ext")
	if err := os.MkdirAll(src, 0755); err != nil {
		t.Fatal(err)
	}
	if err := os.MkdirAll(filepath.Join(ext, "real"), 0755); err != nil {
		t.Fatal(err)
	}
	if err := os.WriteFile(filepath.Join(ext, "real", "f.txt"), []byte("hello"), 0644); err != nil {
		t.Fatal(err)
	}
	if err := os.Symlink("real", filepath.Join(ext, "hop")); err != nil {
		t.Fatal(err)
	}
	if err := os.Symlink(filepath.Join(ext, "hop"), filepath.Join(src, "link")); err != nil {
		t.Fatal(err)
	}
	p, err := NewPacker(DereferenceSymlinks())
	if err != nil {
		t.Fatal(err)
	}
	var buf bytes.Buffer
	meta, err := p.Pack(src, &buf)
	if err != nil {
		t.Fatalf("Pack: %v", err)
	}
	found := false
	for _, f := range meta.Files {
		if f == "link/f.txt" {
			found = true
		}
	}
	if !found {
		t.Fatalf("link/f.txt missing from the slug, got %v", meta.Files)
	}
}
