// place in: .
package slug

import (
	"archive/tar"
	"bytes"
	"compress/gzip"
	"io"
	"os"
	"path/filepath"
	"testing"
)

type mutEntry100392 struct {
	hdr  *tar.Header
	body string
}

func mutPack100392(t *testing.T, root string) (map[string]mutEntry100392, *Meta) {
	t.Helper()
	p, err := NewPacker(DereferenceSymlinks())
	if err != nil {
		t.Fatal(err)
	}
	var buf bytes.Buffer
	meta, err := p.Pack(root, &buf)
	if err != nil {
		t.Fatalf("Pack failed: %v", err)
	}
	gz, err := gzip.NewReader(&buf)
	if err != nil {
		t.Fatal(err)
	}
	tr := tar.NewReader(gz)
	out := map[string]mutEntry100392{}
	for {
		h, err := tr.Next()
		if err == io.EOF {
			break
		}
		if err != nil {
			t.Fatal(err)
		}
		b, err := io.ReadAll(tr)
		if err != nil {
			t.Fatal(err)
		}
		out[h.Name] = mutEntry100392{h, string(b)}
	}
	return out, meta
}

func mutWrite100392(t *testing.T, path, content string, mode os.FileMode) {
	t.Helper()
	if err := os.MkdirAll(filepath.Dir(path), 0o755); err != nil {
		t.Fatal(err)
	}
	if err := os.WriteFile(path, []byte(content), mode); err != nil {
		t.Fatal(err)
	}
	if err := os.Chmod(path, mode); err != nil {
		t.Fatal(err)
	}
}

// An out-of-tree directory link is replaced by a copy of the directory.
func TestMut100392(t *testing.T) {
	T := t.TempDir()
	root := filepath.Join(T, "root")
	mutWrite100392(t, filepath.Join(root, "main.tf"), "x", 0o644)
	mutWrite100392(t, filepath.Join(T, "outside", "f.txt"), "data", 0o644)
	if err := os.Symlink("../outside", filepath.Join(root, "ext")); err != nil {
		t.Fatal(err)
	}
	ents, meta := mutPack100392(t, root)
	if e, ok := ents["ext/f.txt"]; !ok || e.body != "data" {
		t.Fatalf("ext/f.txt missing or wrong; files %v", meta.Files)
	}
}
