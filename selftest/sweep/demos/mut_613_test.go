// place in: .
package slug

import (
	"archive/tar"
	"bytes"
	"compress/gzip"
	"errors"
	"io"
	"math/rand"
	"os"
	"path/filepath"
	"strings"
	"testing"
)

var _ = tar.TypeReg
var _ = gzip.BestSpeed
var _ = io.EOF
var _ = rand.Int
var _ = strings.Contains
var _ = errors.New
var _ bytes.Buffer

func mk613(t *testing.T, p string) {
	t.Helper()
	if err := os.MkdirAll(p, 0755); err != nil {
		t.Fatal(err)
	}
}

func wr613(t *testing.T, p, c string) {
	t.Helper()
	mk613(t, filepath.Dir(p))
	if err := os.WriteFile(p, []byte(c), 0644); err != nil {
		t.Fatal(err)
	}
}

func ln613(t *testing.T, target, p string) {
	t.Helper()
	mk613(t, filepath.Dir(p))
	if err := os.Symlink(target, p); err != nil {
		t.Fatal(err)
	}
}

func tmp613(t *testing.T) string {
	d, err := filepath.EvalSymlinks(t.TempDir())
	if err != nil {
		t.Fatal(err)
	}
	return d
}

// An out-of-tree directory holding a link to one of its own sub-directories:
// no cycle (the sub-directory does not lead back), so it is copied in twice.
func TestMut613_LinkToSubdirOfWalkedDir(t *testing.T) {
	base := tmp613(t)
	src := filepath.Join(base, "src")
	wr613(t, filepath.Join(src, "file.txt"), "in")
	wr613(t, filepath.Join(base, "o", "d", "sub", "f.txt"), "two")
	ln613(t, filepath.Join(base, "o", "d", "sub"), filepath.Join(base, "o", "d", "l2"))
	ln613(t, filepath.Join(base, "o", "d"), filepath.Join(src, "link"))
	p, _ := NewPacker(DereferenceSymlinks())
	var buf bytes.Buffer
	meta, err := p.Pack(src, &buf)
	if err != nil {
		t.Fatalf("pack of an acyclic tree: %v", err)
	}
	if !strings.Contains(strings.Join(meta.Files, "|"), "link/l2/f.txt") {
		t.Errorf("missing link/l2/f.txt: %q", meta.Files)
	}
}
