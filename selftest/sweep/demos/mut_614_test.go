// place in: .
package slug

import (
	"archive/tar"
	"bytes"
	"compress/gzip"
	"errors"
	"io"
	"math/rand"
	"os"
	"path/filepath"
	"strings"
	"testing"
)

var _ = tar.TypeReg
var _ = gzip.BestSpeed
var _ = io.EOF
var _ = rand.Int
var _ = strings.Contains
var _ = errors.New
var _ bytes.Buffer

func mk614(t *testing.T, p string) {
	t.Helper()
	if err := os.MkdirAll(p, 0755); err != nil {
		t.Fatal(err)
	}
}

func wr614(t *testing.T, p, c string) {
	t.Helper()
	mk614(t, filepath.Dir(p))
	if err := os.WriteFile(p, []byte(c), 0644); err != nil {
		t.Fatal(err)
	}
}

func ln614(t *testing.T, target, p string) {
	t.Helper()
	mk614(t, filepath.Dir(p))
	if err := os.Symlink(target, p); err != nil {
		t.Fatal(err)
	}
}

func tmp614(t *testing.T) string {
	d, err := filepath.EvalSymlinks(t.TempDir())
	if err != nil {
		t.Fatal(err)
	}
	return d
}

// An out-of-tree directory that itself holds a link to another, unrelated
// out-of-tree directory: no cycle, both are copied in.
func TestMut614_NestedExternalDirs(t *testing.T) {
	base := tmp614(t)
	src := filepath.Join(base, "src")
	wr614(t, filepath.Join(src, "file.txt"), "in")
	wr614(t, filepath.Join(base, "o", "d2", "f.txt"), "two")
	wr614(t, filepath.Join(base, "o", "d1", "g.txt"), "one")
	ln614(t, filepath.Join(base, "o", "d2"), filepath.Join(base, "o", "d1", "l2"))
	ln614(t, filepath.Join(base, "o", "d1"), filepath.Join(src, "link"))
	p, _ := NewPacker(DereferenceSymlinks())
	var buf bytes.Buffer
	meta, err := p.Pack(src, &buf)
	if err != nil {
		t.Fatalf("pack of an acyclic tree: %v", err)
	}
	if !strings.Contains(strings.Join(meta.Files, "|"), "link/l2/f.txt") {
		t.Errorf("missing link/l2/f.txt: %q", meta.Files)
	}
}
