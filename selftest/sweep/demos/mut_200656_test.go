// place in: sourcebundle
package sourcebundle_test

import (
	"os"
	"path/filepath"
	"testing"

	"github.com/hashicorp/go-slug/sourceaddrs"
	"github.com/hashicorp/go-slug/sourcebundle"
)

// Opening a manifest that records git metadata must not panic (C19) and must
// give the metadata back (C09).
func TestMut200656(t *testing.T) {
	dir := t.TempDir()
	if err := os.Mkdir(filepath.Join(dir, "pkgdir"), 0o755); err != nil {
		t.Fatal(err)
	}
	manifest := `{
  "terraform_source_bundle": 1,
  "packages": [
    {
      "source": "git::https://example.com/foo.git",
      "local": "pkgdir",
      "meta": {"git_commit_id": "abc123", "git_commit_message": "msg"}
    }
  ]
}`
	if err := os.WriteFile(filepath.Join(dir, "terraform-sources.json"), []byte(manifest), 0o644); err != nil {
		t.Fatal(err)
	}
	var bundle *sourcebundle.Bundle
	var err error
	func() {
		defer func() {
			if r := recover(); r != nil {
				t.Fatalf("OpenDir panicked: %v", r)
			}
		}()
		bundle, err = sourcebundle.OpenDir(dir)
	}()
	if err != nil {
		t.Fatal(err)
	}
	pkg, err := sourceaddrs.ParseRemotePackage("git::https://example.com/foo.git")
	if err != nil {
		t.Fatal(err)
	}
	meta := bundle.RemotePackageMeta(pkg)
	if meta == nil || meta.GitCommitID() != "abc123" || meta.GitCommitMessage() != "msg" {
		t.Fatalf("wrong metadata %#v", meta)
	}
}
