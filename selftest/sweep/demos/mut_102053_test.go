// place in: sourcebundle
package sourcebundle

import (
	"os"
	"path/filepath"
	"testing"
)

// The local path the bundle hands out for a source address must translate
// back to that address and to the same path again (C18).
func TestMut102053AbsolutePathRoundTrip(t *testing.T) {
	dir := t.TempDir()
	manifest := `{"terraform_source_bundle":1,"packages":[{"source":"git::https://example.com/foo.git","local":"pkgdir"}]}`
	if err := os.WriteFile(filepath.Join(dir, manifestFilename), []byte(manifest), 0o644); err != nil {
		t.Fatal(err)
	}
	if err := os.MkdirAll(filepath.Join(dir, "pkgdir", "sub"), 0o755); err != nil {
		t.Fatal(err)
	}
	b, err := OpenDir(dir)
	if err != nil {
		t.Fatal(err)
	}
	abs, err := filepath.Abs(filepath.Join(dir, "pkgdir", "sub"))
	if err != nil {
		t.Fatal(err)
	}
	src, err := b.SourceForLocalPath(abs)
	if err != nil {
		t.Fatalf("path %q inside a package not translated: %s", abs, err)
	}
	if got, want := src.String(), "git::https://example.com/foo.git//sub"; got != want {
		t.Fatalf("got %s, want %s", got, want)
	}
	back, err := b.LocalPathForSource(src)
	if err != nil {
		t.Fatal(err)
	}
	if back != abs {
		t.Fatalf("round trip gave %q, want %q", back, abs)
	}
}
