// place in: sourceaddrs
package sourceaddrs_test

import (
	"net/url"
	"testing"

	"github.com/hashicorp/go-slug/sourceaddrs"
)

// Property C06: an address the library hands out prints to a string that
// parses back to an equal address.
func TestMut1728(t *testing.T) {
	u, err := url.Parse("https://example.com/a:")
	if err != nil {
		t.Fatal(err)
	}
	addr, err := sourceaddrs.MakeRemoteSource("git", u, "b")
	if err != nil {
		t.Fatalf("MakeRemoteSource: %s", err)
	}
	str := addr.String()
	back, err := sourceaddrs.ParseRemoteSource(str)
	if err != nil {
		t.Fatalf("%q, printed by RemoteSource.String, does not parse back: %s", str, err)
	}
	if back != addr {
		t.Fatalf("%q parses back to a different address: package %q sub-path %q, want package %q sub-path %q",
			str, back.Package(), back.SubPath(), addr.Package(), addr.SubPath())
	}
	if back.String() != str {
		t.Fatalf("printing is not idempotent: %q then %q", str, back.String())
	}
}
