// place in: sourcebundle
package sourcebundle_test

import (
	"context"
	"io/fs"
	"net/url"
	"os"
	"path/filepath"
	"strings"
	"testing"

	"github.com/hashicorp/go-slug/sourceaddrs"
	"github.com/hashicorp/go-slug/sourcebundle"
)

// C08/C09: metadata supplied by the fetcher is retrievable unchanged from the
// bundle returned by Close and from the same directory opened again: the
// commit ID and message come back as given, and a package for which the
// fetcher supplied no metadata has none (nil).
type metaFetcher2494 struct{}

func (metaFetcher2494) FetchSourcePackage(ctx context.Context, sourceType string, u *url.URL, targetDir string) (sourcebundle.FetchSourcePackageResponse, error) {
	var ret sourcebundle.FetchSourcePackageResponse
	if err := os.WriteFile(filepath.Join(targetDir, "main.tf"), []byte(u.String()), 0644); err != nil {
		return ret, err
	}
	if strings.Contains(u.Path, "withmeta") {
		ret.PackageMeta = sourcebundle.PackageMetaWithGitMetadata("0123456789abcdef0123456789abcdef01234567", "the commit message")
	}
	return ret, nil
}

type noDeps2494 struct{}

func (noDeps2494) FindDependencies(fsys fs.FS, subPath string, deps *sourcebundle.Dependencies) sourcebundle.Diagnostics {
	return nil
}

func TestMut2494(t *testing.T) {
	dir := t.TempDir()
	b, err := sourcebundle.NewBuilder(dir, metaFetcher2494{}, nil)
	if err != nil {
		t.Fatal(err)
	}
	with := sourceaddrs.MustParseSource("git::https://example.com/withmeta.git").(sourceaddrs.RemoteSource)
	without := sourceaddrs.MustParseSource("git::https://example.com/plain.git").(sourceaddrs.RemoteSource)
	for _, src := range []sourceaddrs.RemoteSource{with, without} {
		if diags := b.AddRemoteSource(context.Background(), src, noDeps2494{}); diags.HasErrors() {
			t.Fatalf("unexpected errors adding %s", src)
		}
	}
	closed, err := b.Close()
	if err != nil {
		t.Fatal(err)
	}
	reopened, err := sourcebundle.OpenDir(dir)
	if err != nil {
		t.Fatal(err)
	}
	for name, bundle := range map[string]*sourcebundle.Bundle{"closed": closed, "reopened": reopened} {
		meta := bundle.RemotePackageMeta(with.Package())
		if meta == nil {
			t.Fatalf("%s: metadata supplied by the fetcher for %s is lost", name, with.Package())
		}
		if got, want := meta.GitCommitID(), "0123456789abcdef0123456789abcdef01234567"; got != want {
			t.Errorf("%s: commit ID %q, want %q", name, got, want)
		}
		if got, want := meta.GitCommitMessage(), "the commit message"; got != want {
			t.Errorf("%s: commit message %q, want %q", name, got, want)
		}
		if meta := bundle.RemotePackageMeta(without.Package()); meta != nil {
			t.Errorf("%s: package fetched without metadata reports metadata %#v, want nil", name, meta)
		}
	}
}
