// place in: sourcebundle
package sourcebundle_test

import (
	"context"
	"github.com/hashicorp/go-slug/sourceaddrs"
	"github.com/hashicorp/go-slug/sourcebundle"
	"io/fs"
	"net/url"
	"os"
	"path/filepath"
	"strings"
	"testing"
)

type mutFetcher2126 func(ctx context.Context, sourceType string, u *url.URL, targetDir string) (sourcebundle.FetchSourcePackageResponse, error)

func (f mutFetcher2126) FetchSourcePackage(ctx context.Context, sourceType string, u *url.URL, targetDir string) (sourcebundle.FetchSourcePackageResponse, error) {
	return f(ctx, sourceType, u, targetDir)
}

type mutNoDeps2126 struct{}

func (mutNoDeps2126) FindDependencies(fsys fs.FS, subPath string, deps *sourcebundle.Dependencies) sourcebundle.Diagnostics {
	return nil
}

// If the working directory cannot be created the fetcher must not be pointed
// at some other place (an empty path means the process working directory).
func TestMut2126_NoFetchOutsideTarget(t *testing.T) {
	src := sourceaddrs.MustParseSource("git::https://example.com/foo.git").(sourceaddrs.RemoteSource)
	target := filepath.Join(t.TempDir(), "bundle")
	if err := os.Mkdir(target, 0755); err != nil {
		t.Fatal(err)
	}
	target, _ = filepath.EvalSymlinks(target)
	var dirs []string
	fetcher := mutFetcher2126(func(ctx context.Context, sourceType string, u *url.URL, targetDir string) (sourcebundle.FetchSourcePackageResponse, error) {
		dirs = append(dirs, targetDir)
		return sourcebundle.FetchSourcePackageResponse{}, nil
	})
	b, err := sourcebundle.NewBuilder(target, fetcher, nil)
	if err != nil {
		t.Fatal(err)
	}
	// the target directory vanishes, so the temporary directory cannot be made
	if err := os.Remove(target); err != nil {
		t.Fatal(err)
	}
	diags := b.AddRemoteSource(context.Background(), src, mutNoDeps2126{})
	if !diags.HasErrors() {
		t.Errorf("expected an error")
	}
	for _, d := range dirs {
		if !strings.HasPrefix(d, target+string(filepath.Separator)) {
			t.Errorf("fetcher was asked to write into %q, which is not inside the bundle directory %q", d, target)
		}
	}
}
