// place in: sourcebundle
package sourcebundle_test

import (
	"context"
	"fmt"
	"io/fs"
	"net/url"
	"os"
	"path/filepath"
	"testing"

	"github.com/apparentlymart/go-versions/versions"
	regaddr "github.com/hashicorp/terraform-registry-address"

	"github.com/hashicorp/go-slug/sourceaddrs"
	"github.com/hashicorp/go-slug/sourcebundle"
)

type fetcher101737 struct {
	meta map[string]*sourcebundle.PackageMeta
}

func (f fetcher101737) FetchSourcePackage(ctx context.Context, sourceType string, u *url.URL, targetDir string) (sourcebundle.FetchSourcePackageResponse, error) {
	err := os.WriteFile(filepath.Join(targetDir, "content.txt"), []byte(sourceType+" "+u.String()), 0644)
	return sourcebundle.FetchSourcePackageResponse{PackageMeta: f.meta[u.String()]}, err
}

type registry101737 struct{}

func (registry101737) ModulePackageVersions(ctx context.Context, pkgAddr regaddr.ModulePackage) (sourcebundle.ModulePackageVersionsResponse, error) {
	return sourcebundle.ModulePackageVersionsResponse{Versions: []sourcebundle.ModulePackageInfo{
		{Version: versions.MustParseVersion("1.0.0")},
		{Version: versions.MustParseVersion("2.0.0")},
	}}, nil
}

func (registry101737) ModulePackageSourceAddr(ctx context.Context, pkgAddr regaddr.ModulePackage, version versions.Version) (sourcebundle.ModulePackageSourceAddrResponse, error) {
	src := fmt.Sprintf("https://example.com/%s/%s/%s/%s.tgz", pkgAddr.Namespace, pkgAddr.Name, pkgAddr.TargetSystem, version)
	return sourcebundle.ModulePackageSourceAddrResponse{SourceAddr: sourceaddrs.MustParseSource(src).(sourceaddrs.RemoteSource)}, nil
}

type noDeps101737 struct{}

func (noDeps101737) FindDependencies(fsys fs.FS, subPath string, deps *sourcebundle.Dependencies) sourcebundle.Diagnostics {
	return nil
}

func TestMut101737_TwoVersionsOfOneRegistryPackage(t *testing.T) {
	b, err := sourcebundle.NewBuilder(t.TempDir(), fetcher101737{}, registry101737{})
	if err != nil {
		t.Fatal(err)
	}
	src := sourceaddrs.MustParseSource("example.com/ns/mod/aws").(sourceaddrs.RegistrySource)
	for _, v := range []string{"1.0.0", "2.0.0"} {
		allowed := versions.Only(versions.MustParseVersion(v))
		if diags := b.AddRegistrySource(context.Background(), src, allowed, noDeps101737{}); diags.HasErrors() {
			t.Fatalf("unexpected diagnostics for %s %s", src, v)
		}
	}
	var bundle *sourcebundle.Bundle
	func() {
		defer func() {
			if r := recover(); r != nil {
				t.Fatalf("Close panicked: %v", r)
			}
		}()
		bundle, err = b.Close()
	}()
	if err != nil {
		t.Fatal(err)
	}
	for _, v := range []string{"1.0.0", "2.0.0"} {
		p, err := bundle.LocalPathForRegistrySource(src, versions.MustParseVersion(v))
		if err != nil {
			t.Errorf("version %s not in bundle: %s", v, err)
			continue
		}
		if _, err := os.Stat(filepath.Join(p, "content.txt")); err != nil {
			t.Errorf("version %s: %s", v, err)
		}
	}
}
