// place in: sourcebundle
package sourcebundle_test

import (
	"context"
	"io/fs"
	"net/url"
	"os"
	"path/filepath"
	"testing"

	"github.com/hashicorp/go-slug/sourceaddrs"
	"github.com/hashicorp/go-slug/sourcebundle"
)

type m1977Fetcher struct{}

func (m1977Fetcher) FetchSourcePackage(ctx context.Context, sourceType string, u *url.URL, targetDir string) (sourcebundle.FetchSourcePackageResponse, error) {
	err := os.WriteFile(filepath.Join(targetDir, "main.tf"), []byte("# hello\n"), 0o644)
	return sourcebundle.FetchSourcePackageResponse{}, err
}

type m1977Diag struct{}

func (m1977Diag) Severity() sourcebundle.DiagSeverity { return sourcebundle.DiagWarning }
func (m1977Diag) Description() sourcebundle.DiagDescription {
	return sourcebundle.DiagDescription{Summary: "careful", Detail: "something odd"}
}
func (m1977Diag) Source() sourcebundle.DiagSource { return sourcebundle.DiagSource{} }
func (m1977Diag) ExtraInfo() interface{}          { return nil }

type m1977Finder struct{}

func (m1977Finder) FindDependencies(fsys fs.FS, subPath string, deps *sourcebundle.Dependencies) sourcebundle.Diagnostics {
	return sourcebundle.Diagnostics{m1977Diag{}}
}

func TestMut1977FinderWarningReachesCallerAndTracer(t *testing.T) {
	addr := sourceaddrs.MustParseSource("git::https://example.com/foo.git").(sourceaddrs.RemoteSource)

	// Without a tracer: the warning comes back, nothing panics.
	{
		b, err := sourcebundle.NewBuilder(t.TempDir(), m1977Fetcher{}, nil)
		if err != nil {
			t.Fatal(err)
		}
		var diags sourcebundle.Diagnostics
		func() {
			defer func() {
				if r := recover(); r != nil {
					t.Errorf("panic without tracer: %v", r)
				}
			}()
			diags = b.AddRemoteSource(context.Background(), addr, m1977Finder{})
			if len(diags) != 1 || diags[0].Description().Summary != "careful" {
				t.Errorf("caller got %d diagnostics, want the one warning", len(diags))
			}
		}()
	}

	// With a tracer: the tracer sees the warning too.
	{
		b, err := sourcebundle.NewBuilder(t.TempDir(), m1977Fetcher{}, nil)
		if err != nil {
			t.Fatal(err)
		}
		var seen sourcebundle.Diagnostics
		tracer := &sourcebundle.BuildTracer{
			Diagnostics: func(ctx context.Context, diags sourcebundle.Diagnostics) {
				seen = append(seen, diags...)
			},
		}
		b.AddRemoteSource(tracer.OnContext(context.Background()), addr, m1977Finder{})
		if len(seen) != 1 || seen[0].Severity() != sourcebundle.DiagWarning || seen[0].Description().Summary != "careful" {
			t.Errorf("tracer saw %d diagnostics, want the one warning", len(seen))
		}
	}
}
