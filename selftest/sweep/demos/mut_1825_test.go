// place in: sourcebundle
package sourcebundle_test

import (
	"context"
	"errors"
	"io/fs"
	"net/url"
	"os"
	"path/filepath"
	"testing"
	"time"

	"github.com/apparentlymart/go-versions/versions"
	"github.com/hashicorp/go-slug/sourceaddrs"
	"github.com/hashicorp/go-slug/sourcebundle"
)

var (
	_ = errors.New
	_ = os.Getwd
	_ = filepath.Join
	_ = time.Second
	_ = versions.All
)

// fetcher1825 writes one file into the package directory, or fails when told to.
type fetcher1825 struct{ fail bool }

func (f fetcher1825) FetchSourcePackage(ctx context.Context, sourceType string, u *url.URL, targetDir string) (sourcebundle.FetchSourcePackageResponse, error) {
	if f.fail {
		return sourcebundle.FetchSourcePackageResponse{}, errors.New("fetch failed")
	}
	err := os.WriteFile(filepath.Join(targetDir, "main.tf"), []byte("# "+u.String()+"\n"), 0644)
	return sourcebundle.FetchSourcePackageResponse{}, err
}

type finder1825 struct{}

func (finder1825) FindDependencies(fsys fs.FS, subPath string, deps *sourcebundle.Dependencies) sourcebundle.Diagnostics {
	return nil
}

// within1825 runs f on its own goroutine and reports whether it panicked; the
// test fails if f has not come back after a generous while (a deadlock).
func within1825(t *testing.T, what string, f func()) (panicked bool) {
	t.Helper()
	done := make(chan bool, 1)
	go func() {
		defer func() { done <- recover() != nil }()
		f()
	}()
	select {
	case p := <-done:
		return p
	case <-time.After(20 * time.Second):
		t.Fatalf("%s did not return: the builder's lock was never released", what)
		return false
	}
}

// Property C14: however many Add calls mention a source, the build terminates.
func TestMut1825(t *testing.T) {
	ctx := context.Background()
	b, err := sourcebundle.NewBuilder(t.TempDir(), fetcher1825{}, nil)
	if err != nil {
		t.Fatal(err)
	}
	addr, err := sourceaddrs.ParseRemoteSource("https://example.com/a.tgz")
	if err != nil {
		t.Fatal(err)
	}
	for i := 0; i < 3; i++ {
		within1825(t, "AddRemoteSource of a source that was added before", func() {
			if diags := b.AddRemoteSource(ctx, addr, finder1825{}); diags.HasErrors() {
				t.Errorf("unexpected error: %s", diags[0].Description().Detail)
			}
		})
	}
	within1825(t, "Close", func() {
		bundle, err := b.Close()
		if err != nil {
			t.Errorf("Close: %s", err)
			return
		}
		if _, err := bundle.LocalPathForSource(addr); err != nil {
			t.Errorf("lookup: %s", err)
		}
	})
}
