// place in: .
package slug_test

import (
	"archive/tar"
	"bytes"
	"compress/gzip"
	"io"
	"os"
	"path/filepath"
	"strings"
	"testing"

	slug "github.com/hashicorp/go-slug"
)

func packNames269(t *testing.T, ignore string, files []string) map[string]bool {
	t.Helper()
	dir := t.TempDir()
	if err := os.WriteFile(filepath.Join(dir, ".terraformignore"), []byte(ignore), 0o644); err != nil {
		t.Fatal(err)
	}
	for _, f := range files {
		p := filepath.Join(dir, filepath.FromSlash(f))
		if err := os.MkdirAll(filepath.Dir(p), 0o755); err != nil {
			t.Fatal(err)
		}
		if err := os.WriteFile(p, []byte("x"), 0o644); err != nil {
			t.Fatal(err)
		}
	}
	var buf bytes.Buffer
	if _, err := slug.Pack(dir, &buf, false); err != nil {
		t.Fatalf("Pack: %v", err)
	}
	gz, err := gzip.NewReader(&buf)
	if err != nil {
		t.Fatal(err)
	}
	tr := tar.NewReader(gz)
	got := map[string]bool{}
	for {
		h, err := tr.Next()
		if err == io.EOF {
			break
		}
		if err != nil {
			t.Fatal(err)
		}
		got[strings.TrimSuffix(h.Name, "/")] = true
	}
	return got
}

func TestMut269(t *testing.T) {
	got := packNames269(t, "foo\n", []string{"main.tf", "foo", "foobar.txt"})
	if got["foo"] {
		t.Fatalf("foo should be excluded: %v", got)
	}
	if !got["foobar.txt"] {
		t.Fatalf("foobar.txt is not matched by rule 'foo' but was left out: %v", got)
	}
}
