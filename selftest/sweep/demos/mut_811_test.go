// place in: .
package slug

import (
	"archive/tar"
	"bytes"
	"compress/gzip"
	"os"
	"path/filepath"
	"testing"
)

// C15: the last entry for a path wins; a regular file entry replaces a symlink
// extracted earlier under the same name and is not written through it.
func TestMut811_FileReplacesTopLevelSymlink(t *testing.T) {
	var buf bytes.Buffer
	gz := gzip.NewWriter(&buf)
	tw := tar.NewWriter(gz)
	must := func(err error) {
		t.Helper()
		if err != nil {
			t.Fatal(err)
		}
	}
	must(tw.WriteHeader(&tar.Header{Name: "b", Typeflag: tar.TypeReg, Mode: 0644, Size: 3}))
	_, err := tw.Write([]byte("bbb"))
	must(err)
	must(tw.WriteHeader(&tar.Header{Name: "a", Typeflag: tar.TypeSymlink, Linkname: "b", Mode: 0777}))
	must(tw.WriteHeader(&tar.Header{Name: "a", Typeflag: tar.TypeReg, Mode: 0644, Size: 3}))
	_, err = tw.Write([]byte("aaa"))
	must(err)
	must(tw.Close())
	must(gz.Close())

	dst := t.TempDir()
	must(Unpack(&buf, dst))

	fi, err := os.Lstat(filepath.Join(dst, "a"))
	must(err)
	if !fi.Mode().IsRegular() {
		t.Errorf("a should be a regular file, is %v", fi.Mode())
	}
	got, err := os.ReadFile(filepath.Join(dst, "b"))
	must(err)
	if string(got) != "bbb" {
		t.Errorf("b was overwritten through the link: %q", got)
	}
}
