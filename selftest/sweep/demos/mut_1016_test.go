// place in: sourceaddrs
package sourceaddrs

import "testing"

// Documented contract of ParseRemotePackage (not clearly one of the 20 properties):
// a package address may not carry a sub-path; with the edit the sub-path is silently dropped.
func TestMut1016(t *testing.T) {
	if p, err := ParseRemotePackage("git::https://example.com/x.git//sub"); err == nil {
		t.Errorf("package address with a sub-path accepted as %q", p.String())
	}
}
