// place in: .
package slug

import (
	"archive/tar"
	"bytes"
	"compress/gzip"
	"os"
	"path/filepath"
	"testing"
)

// C01: when dst is a symlink to a directory, that link lives in dst's parent
// (outside the destination) and must not be removed by a "./" entry.
func TestMut813_RootEntryKeepsDstSymlink(t *testing.T) {
	var buf bytes.Buffer
	gz := gzip.NewWriter(&buf)
	tw := tar.NewWriter(gz)
	must := func(err error) {
		t.Helper()
		if err != nil {
			t.Fatal(err)
		}
	}
	must(tw.WriteHeader(&tar.Header{Name: "./", Typeflag: tar.TypeDir, Mode: 0755}))
	must(tw.WriteHeader(&tar.Header{Name: "f", Typeflag: tar.TypeReg, Mode: 0644, Size: 3}))
	_, err := tw.Write([]byte("fff"))
	must(err)
	must(tw.Close())
	must(gz.Close())

	base := t.TempDir()
	real := filepath.Join(base, "real")
	must(os.Mkdir(real, 0755))
	dst := filepath.Join(base, "dst")
	must(os.Symlink("real", dst))

	must(Unpack(&buf, dst))

	fi, err := os.Lstat(dst)
	must(err)
	if fi.Mode()&os.ModeSymlink == 0 {
		t.Errorf("dst symlink in the parent directory was replaced: mode %v", fi.Mode())
	}
	if _, err := os.Stat(filepath.Join(real, "f")); err != nil {
		t.Errorf("file not extracted into the directory dst denotes: %v", err)
	}
}
