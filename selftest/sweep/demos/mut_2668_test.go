// place in: sourcebundle
package sourcebundle_test

import (
	"fmt"
	"github.com/hashicorp/go-slug/sourcebundle"
	"os"
	"path/filepath"
	"testing"
)

func open2668(t *testing.T, manifest string) *sourcebundle.Bundle {
	t.Helper()
	dir := t.TempDir()
	if err := os.WriteFile(filepath.Join(dir, "terraform-sources.json"), []byte(manifest), 0o644); err != nil {
		t.Fatal(err)
	}
	b, err := sourcebundle.OpenDir(dir)
	if err != nil {
		t.Fatalf("OpenDir: %s", err)
	}
	return b
}

func TestMut2668(t *testing.T) {
	m := `{"terraform_source_bundle":1,"registry":[`
	for i, n := range []string{"a", "b", "c", "d", "e", "f", "g", "h", "i", "j"} {
		if i > 0 {
			m += ","
		}
		m += `{"source":"example.com/ns/` + n + `/sys","versions":{"1.0.0":{"source":"https://example.com/foo.tgz"}}}`
	}
	m += `]}`
	b := open2668(t, m)
	first := fmt.Sprint(b.RegistryPackages())
	for i := 0; i < 100; i++ {
		if got := fmt.Sprint(b.RegistryPackages()); got != first {
			t.Fatalf("RegistryPackages order changes between calls on the same bundle:\n%s\n%s", first, got)
		}
	}
}
