// place in: .
package slug

import (
	"bytes"
	"os"
	"path/filepath"
	"testing"
)

// A file that yields fewer bytes than its stat size (sysfs attributes report
// 4096 and hold a few bytes) leaves the last tar entry short. That is only
// noticed when the tar writer is closed: Pack must then report the failure
// instead of returning success for a slug that Unpack cannot read.
func TestMut100238_ShortLastFileIsReported(t *testing.T) {
	const sysFile = "/sys/kernel/fscaps"
	fi, err := os.Stat(sysFile)
	if err != nil {
		t.Skipf("no sysfs: %v", err)
	}
	data, err := os.ReadFile(sysFile)
	if err != nil || int64(len(data)) >= fi.Size() {
		t.Skipf("%s does not over-report its size (%d read, %d stat, err %v)", sysFile, len(data), fi.Size(), err)
	}

	src := t.TempDir()
	if err := os.WriteFile(filepath.Join(src, "a.txt"), []byte("hello"), 0644); err != nil {
		t.Fatal(err)
	}
	if err := os.Symlink(sysFile, filepath.Join(src, "zz")); err != nil {
		t.Fatal(err)
	}

	buf := &bytes.Buffer{}
	meta, err := Pack(src, buf, true) // dereference the out-of-tree link
	if err != nil {
		return // failure reported: fine
	}
	// Pack claims success, so the slug has to be usable.
	if err := Unpack(bytes.NewReader(buf.Bytes()), t.TempDir()); err != nil {
		t.Fatalf("Pack returned success (files %v, size %d) for a slug that Unpack rejects: %v", meta.Files, meta.Size, err)
	}
}
