// place in: sourcebundle
package sourcebundle

// Demonstrates mutation 2007: a failing version-list query calls a nil trace callback

import (
	"context"
	"errors"
	"fmt"
	"io/fs"
	"net/url"
	"os"
	"path/filepath"
	"testing"

	"github.com/apparentlymart/go-versions/versions"
	regaddr "github.com/hashicorp/terraform-registry-address"

	"github.com/hashicorp/go-slug/sourceaddrs"
)

type mut2007Fetcher struct{}

func (mut2007Fetcher) FetchSourcePackage(ctx context.Context, sourceType string, u *url.URL, targetDir string) (FetchSourcePackageResponse, error) {
	return FetchSourcePackageResponse{}, os.WriteFile(filepath.Join(targetDir, "main.tf"), []byte("# hello\n"), 0o644)
}

type mut2007Registry struct {
	versionsFn func(ctx context.Context) error
	sourceFn   func(ctx context.Context) error
}

func (r mut2007Registry) ModulePackageVersions(ctx context.Context, pkgAddr regaddr.ModulePackage) (ModulePackageVersionsResponse, error) {
	if r.versionsFn != nil {
		if err := r.versionsFn(ctx); err != nil {
			return ModulePackageVersionsResponse{}, err
		}
	}
	return ModulePackageVersionsResponse{Versions: []ModulePackageInfo{{Version: versions.MustParseVersion("1.0.0")}}}, nil
}

func (r mut2007Registry) ModulePackageSourceAddr(ctx context.Context, pkgAddr regaddr.ModulePackage, version versions.Version) (ModulePackageSourceAddrResponse, error) {
	if r.sourceFn != nil {
		if err := r.sourceFn(ctx); err != nil {
			return ModulePackageSourceAddrResponse{}, err
		}
	}
	return ModulePackageSourceAddrResponse{SourceAddr: sourceaddrs.MustParseSource("https://example.com/foo.tgz").(sourceaddrs.RemoteSource)}, nil
}

type mut2007NoDeps struct{}

func (mut2007NoDeps) FindDependencies(fsys fs.FS, subPath string, deps *Dependencies) Diagnostics {
	return nil
}

// mut2007Add adds one registry source and converts a panic into an error.
func mut2007Add(ctx context.Context, b *Builder, addr string) (diags Diagnostics, panicked error) {
	defer func() {
		if r := recover(); r != nil {
			panicked = fmt.Errorf("panic: %v", r)
		}
	}()
	src := sourceaddrs.MustParseSource(addr).(sourceaddrs.RegistrySource)
	return b.AddRegistrySource(ctx, src, versions.All, mut2007NoDeps{}), nil
}

var _ = errors.New

func TestMut2007(t *testing.T) {
	// Default configuration (no tracer): a failing registry query must come
	// back as an error diagnostic, not as a crash.
	reg := mut2007Registry{versionsFn: func(ctx context.Context) error { return errors.New("registry is down") }}
	b, err := NewBuilder(t.TempDir(), mut2007Fetcher{}, reg)
	if err != nil {
		t.Fatal(err)
	}
	diags, perr := mut2007Add(context.Background(), b, "example.com/foo/bar/baz")
	if perr != nil {
		t.Fatalf("registry failure was not reported as a diagnostic: %s", perr)
	}
	if !diags.HasErrors() {
		t.Fatalf("registry failure was not reported")
	}
}
