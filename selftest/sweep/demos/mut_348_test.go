// place in: .
package slug

import (
	"archive/tar"
	"bytes"
	"compress/gzip"
	"testing"
)

// A regular file "a" followed by an entry "a/b/c": looking at the parent
// "a/b" fails with ENOTDIR. Unpack must report an error, never panic (C19).
func TestMut348_NotDirParentNoPanic(t *testing.T) {
	var buf bytes.Buffer
	gz := gzip.NewWriter(&buf)
	tw := tar.NewWriter(gz)
	if err := tw.WriteHeader(&tar.Header{Name: "a", Typeflag: tar.TypeReg, Mode: 0644, Size: 1}); err != nil {
		t.Fatal(err)
	}
	tw.Write([]byte("x"))
	if err := tw.WriteHeader(&tar.Header{Name: "a/b/c", Typeflag: tar.TypeReg, Mode: 0644, Size: 1}); err != nil {
		t.Fatal(err)
	}
	tw.Write([]byte("y"))
	tw.Close()
	gz.Close()

	dst := t.TempDir()
	var err error
	func() {
		defer func() {
			if r := recover(); r != nil {
				t.Fatalf("Unpack panicked: %v", r)
			}
		}()
		err = Unpack(&buf, dst)
	}()
	if err == nil {
		t.Fatalf("expected an error for an entry below a regular file")
	}
}
