// place in: sourceaddrs
package sourceaddrs_test

import (
	"testing"

	"github.com/hashicorp/go-slug/sourceaddrs"
)

// C06: every registry source address that ParseRegistrySource accepts prints
// to a string that parses back (with the general parser) to an equal value.
func TestMut1341(t *testing.T) {
	valid, err := sourceaddrs.ParseRegistrySource("hashicorp/foo/aws//sub/dir")
	if err != nil {
		t.Fatalf("valid address rejected: %s", err)
	}
	if got, err := sourceaddrs.ParseSource(valid.String()); err != nil || got != sourceaddrs.Source(valid) {
		t.Fatalf("valid address %q does not round-trip: %v %v", valid.String(), got, err)
	}
	for _, in := range []string{"github.com/a/b/c", "foo", "a/b", "a/b/c/d/e", "a/b/c?x=y", "bitbucket.org/a/b/c//sub", "no.such-thing"} {
		addr, err := sourceaddrs.ParseRegistrySource(in)
		if err != nil {
			continue // rejected, fine
		}
		printed := addr.String()
		back, err := sourceaddrs.ParseSource(printed)
		if err != nil {
			t.Errorf("ParseRegistrySource(%q) was accepted and prints as %q, which does not parse back: %s", in, printed, err)
			continue
		}
		if back != sourceaddrs.Source(addr) {
			t.Errorf("ParseRegistrySource(%q) prints as %q, which parses back to a different value %#v", in, printed, back)
		}
	}
}
