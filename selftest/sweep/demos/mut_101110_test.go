// place in: sourceaddrs
package sourceaddrs_test

import (
	"testing"

	"github.com/hashicorp/go-slug/sourceaddrs"
)

// C11: resolving a relative address against a final registry source gives an
// address of the same package and version whose path is the base path followed
// by the relative path.
func TestMut101110_FinalRegistrySubPath(t *testing.T) {
	base, err := sourceaddrs.ParseFinalRegistrySource("example.com/ns/name/sys@1.2.3//a/b")
	if err != nil {
		t.Fatal(err)
	}
	if got := base.SubPath(); got != "a/b" {
		t.Fatalf("base sub-path %q, want a/b", got)
	}
	rel, err := sourceaddrs.ParseLocalSource("../c")
	if err != nil {
		t.Fatal(err)
	}
	res, err := sourceaddrs.ResolveRelativeFinalSource(base, rel)
	if err != nil {
		t.Fatal(err)
	}
	got := res.(sourceaddrs.RegistrySourceFinal)
	if got.SubPath() != "a/c" {
		t.Fatalf("resolved path %q, want a/c", got.SubPath())
	}
	root, _ := sourceaddrs.ParseFinalRegistrySource("example.com/ns/name/sys@1.2.3")
	if root.SubPath() != "" {
		t.Fatalf("root sub-path %q, want empty", root.SubPath())
	}
	if fn := sourceaddrs.FinalSourceFilename(root); fn != "." {
		t.Fatalf("filename of package root %q, want .", fn)
	}
}
