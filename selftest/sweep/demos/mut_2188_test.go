// place in: sourcebundle
package sourcebundle_test

import (
	"context"
	"io/fs"
	"net/url"
	"os"
	"os/exec"
	"path/filepath"
	"strings"
	"syscall"
	"testing"

	"github.com/hashicorp/go-slug/sourceaddrs"
	"github.com/hashicorp/go-slug/sourcebundle"
)

type mutFetcher2188 func(ctx context.Context, sourceType string, u *url.URL, targetDir string) (sourcebundle.FetchSourcePackageResponse, error)

func (f mutFetcher2188) FetchSourcePackage(ctx context.Context, sourceType string, u *url.URL, targetDir string) (sourcebundle.FetchSourcePackageResponse, error) {
	return f(ctx, sourceType, u, targetDir)
}

type mutNoDeps2188 struct{}

func (mutNoDeps2188) FindDependencies(fsys fs.FS, subPath string, deps *sourcebundle.Dependencies) sourcebundle.Diagnostics {
	return nil
}

// Two package addresses deliver the same content, which contains a read-only
// directory (as Go's module cache does). The second download is a duplicate
// and its temporary directory must be discarded; as an unprivileged user that
// removal fails. The build must then report an error rather than finish with
// a leftover ".tmp-*" directory inside the bundle.
//
// Permission bits do not stop root, so when run as root the test re-executes
// itself as uid/gid 65534.
func TestMut2188_LeftoverTempDirReported(t *testing.T) {
	if os.Geteuid() == 0 {
		exe, err := os.Executable()
		if err != nil {
			t.Fatal(err)
		}
		// the binary may live in a directory the unprivileged user cannot reach
		pub, err := os.MkdirTemp("", "mut2188-")
		if err != nil {
			t.Fatal(err)
		}
		defer os.RemoveAll(pub)
		if err := os.Chmod(pub, 0755); err != nil {
			t.Fatal(err)
		}
		data, err := os.ReadFile(exe)
		if err != nil {
			t.Fatal(err)
		}
		bin := filepath.Join(pub, "test.bin")
		if err := os.WriteFile(bin, data, 0755); err != nil {
			t.Fatal(err)
		}
		cmd := exec.Command(bin, "-test.run=^TestMut2188_LeftoverTempDirReported$", "-test.v")
		cmd.Dir = pub
		cmd.Env = []string{"TMPDIR=" + os.TempDir(), "HOME=" + pub}
		cmd.SysProcAttr = &syscall.SysProcAttr{Credential: &syscall.Credential{Uid: 65534, Gid: 65534}}
		out, err := cmd.CombinedOutput()
		if err != nil {
			t.Fatalf("unprivileged run failed: %v\n%s", err, out)
		}
		if !strings.Contains(string(out), "PASS") {
			t.Fatalf("unexpected output of unprivileged run:\n%s", out)
		}
		return
	}

	fetcher := mutFetcher2188(func(ctx context.Context, sourceType string, u *url.URL, targetDir string) (sourcebundle.FetchSourcePackageResponse, error) {
		ro := filepath.Join(targetDir, "ro")
		if err := os.Mkdir(ro, 0755); err != nil {
			return sourcebundle.FetchSourcePackageResponse{}, err
		}
		if err := os.WriteFile(filepath.Join(ro, "main.tf"), []byte("x"), 0644); err != nil {
			return sourcebundle.FetchSourcePackageResponse{}, err
		}
		return sourcebundle.FetchSourcePackageResponse{}, os.Chmod(ro, 0555)
	})
	target := t.TempDir()
	t.Cleanup(func() {
		// make everything removable again before TempDir's own cleanup runs
		filepath.Walk(target, func(p string, info os.FileInfo, err error) error {
			if err == nil && info.IsDir() {
				os.Chmod(p, 0755)
			}
			return nil
		})
	})
	b, err := sourcebundle.NewBuilder(target, fetcher, nil)
	if err != nil {
		t.Fatal(err)
	}
	src1 := sourceaddrs.MustParseSource("git::https://example.com/foo.git").(sourceaddrs.RemoteSource)
	src2 := sourceaddrs.MustParseSource("git::https://example.com/foo.git?ref=main").(sourceaddrs.RemoteSource)
	if diags := b.AddRemoteSource(context.Background(), src1, mutNoDeps2188{}); diags.HasErrors() {
		t.Fatalf("unexpected error for the first package")
	}
	diags := b.AddRemoteSource(context.Background(), src2, mutNoDeps2188{})
	if diags.HasErrors() {
		return // reported: fine
	}
	if _, err := b.Close(); err != nil {
		return
	}
	if m, _ := filepath.Glob(filepath.Join(target, ".tmp-*")); len(m) != 0 {
		t.Errorf("build succeeded but the bundle still contains temporary directories: %v", m)
	}
}
