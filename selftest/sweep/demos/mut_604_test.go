// place in: .
package slug

import (
	"archive/tar"
	"bytes"
	"compress/gzip"
	"errors"
	"io"
	"math/rand"
	"os"
	"path/filepath"
	"strings"
	"testing"
)

var _ = tar.TypeReg
var _ = gzip.BestSpeed
var _ = io.EOF
var _ = rand.Int
var _ = strings.Contains
var _ = errors.New
var _ bytes.Buffer

func mk604(t *testing.T, p string) {
	t.Helper()
	if err := os.MkdirAll(p, 0755); err != nil {
		t.Fatal(err)
	}
}

func wr604(t *testing.T, p, c string) {
	t.Helper()
	mk604(t, filepath.Dir(p))
	if err := os.WriteFile(p, []byte(c), 0644); err != nil {
		t.Fatal(err)
	}
}

func ln604(t *testing.T, target, p string) {
	t.Helper()
	mk604(t, filepath.Dir(p))
	if err := os.Symlink(target, p); err != nil {
		t.Fatal(err)
	}
}

func tmp604(t *testing.T) string {
	d, err := filepath.EvalSymlinks(t.TempDir())
	if err != nil {
		t.Fatal(err)
	}
	return d
}

// The dereferenced directory is reached through a symlinked parent
// (o/p/s -> ../../else), and contains an absolute link to o/p. o/p does not
// really contain the directory being walked (else/e), only its spelling
// o/p/s/e is lexically below o/p; and o/p/s is a valid in-archive link at the
// position it is packed at. So there is no cycle and Pack must succeed.
func TestMut604_AliasedSpellingIsNoCycle(t *testing.T) {
	base := tmp604(t)
	src := filepath.Join(base, "src")
	wr604(t, filepath.Join(src, "file.txt"), "in")
	wr604(t, filepath.Join(base, "else", "e", "f.txt"), "f")
	wr604(t, filepath.Join(base, "o", "p", "h.txt"), "h")
	ln604(t, "../../else", filepath.Join(base, "o", "p", "s"))
	ln604(t, filepath.Join(base, "o", "p"), filepath.Join(base, "else", "e", "lnk2"))
	ln604(t, filepath.Join(base, "o", "p", "s", "e"), filepath.Join(src, "link"))
	p, _ := NewPacker(DereferenceSymlinks())
	var buf bytes.Buffer
	meta, err := p.Pack(src, &buf)
	if err != nil {
		t.Fatalf("pack of an acyclic tree: %v", err)
	}
	if !strings.Contains(strings.Join(meta.Files, "|"), "link/lnk2/h.txt") {
		t.Errorf("missing link/lnk2/h.txt: %q", meta.Files)
	}
	dst := filepath.Join(base, "dst")
	mk604(t, dst)
	if err := Unpack(bytes.NewReader(buf.Bytes()), dst); err != nil {
		t.Fatalf("unpack: %v", err)
	}
}
