// place in: sourcebundle
package sourcebundle_test

import (
	"context"
	"errors"
	"io/fs"
	"net/url"
	"os"
	"path/filepath"
	"testing"

	"github.com/apparentlymart/go-versions/versions"
	"github.com/hashicorp/go-slug/sourceaddrs"
	"github.com/hashicorp/go-slug/sourcebundle"
	regaddr "github.com/hashicorp/terraform-registry-address"
)

var (
	_ = errors.New
	_ = versions.All
	_ regaddr.ModulePackage
	_ = filepath.Join
	_ = os.WriteFile
)

type fetcher200556 struct {
	fail bool
	meta *sourcebundle.PackageMeta
}

func (f fetcher200556) FetchSourcePackage(ctx context.Context, sourceType string, u *url.URL, targetDir string) (sourcebundle.FetchSourcePackageResponse, error) {
	var ret sourcebundle.FetchSourcePackageResponse
	if f.fail {
		return ret, errors.New("fetch failed")
	}
	for _, d := range []string{"a", "b"} {
		if err := os.MkdirAll(filepath.Join(targetDir, d), 0755); err != nil {
			return ret, err
		}
		if err := os.WriteFile(filepath.Join(targetDir, d, "main.tf"), []byte(u.String()+d), 0644); err != nil {
			return ret, err
		}
	}
	ret.PackageMeta = f.meta
	return ret, nil
}

type registry200556 struct{}

func (registry200556) ModulePackageVersions(ctx context.Context, pkgAddr regaddr.ModulePackage) (sourcebundle.ModulePackageVersionsResponse, error) {
	return sourcebundle.ModulePackageVersionsResponse{}, errors.New("registry down")
}

func (registry200556) ModulePackageSourceAddr(ctx context.Context, pkgAddr regaddr.ModulePackage, version versions.Version) (sourcebundle.ModulePackageSourceAddrResponse, error) {
	return sourcebundle.ModulePackageSourceAddrResponse{}, errors.New("registry down")
}

type finder200556 struct {
	seen []string
	fn   func(subPath string, deps *sourcebundle.Dependencies) sourcebundle.Diagnostics
}

func (f *finder200556) FindDependencies(fsys fs.FS, subPath string, deps *sourcebundle.Dependencies) sourcebundle.Diagnostics {
	f.seen = append(f.seen, subPath)
	if f.fn != nil {
		return f.fn(subPath, deps)
	}
	return nil
}

type diag200556 struct{}

func (diag200556) Severity() sourcebundle.DiagSeverity { return sourcebundle.DiagError }
func (diag200556) Description() sourcebundle.DiagDescription {
	return sourcebundle.DiagDescription{Summary: "finder problem", Detail: "finder detail"}
}
func (diag200556) Source() sourcebundle.DiagSource { return sourcebundle.DiagSource{} }
func (diag200556) ExtraInfo() interface{}          { return nil }

func TestMut200556(t *testing.T) {
	b, err := sourcebundle.NewBuilder(t.TempDir(), fetcher200556{}, registry200556{})
	if err != nil {
		t.Fatal(err)
	}
	src := sourceaddrs.MustParseSource("example.com/foo/bar/baz").(sourceaddrs.RegistrySource)
	diags := b.AddRegistrySource(context.Background(), src, versions.All, &finder200556{})
	if !diags.HasErrors() {
		t.Fatalf("registry failure not reported as an error: %d diags", len(diags))
	}
}
