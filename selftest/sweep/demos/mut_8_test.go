// place in: sourcebundle
package sourcebundle_test

import (
	"context"
	"io/fs"
	"net/url"
	"os"
	"path/filepath"
	"strings"
	"testing"

	"github.com/hashicorp/go-slug/sourceaddrs"
	"github.com/hashicorp/go-slug/sourcebundle"
)

type fetcher8 func(dir string) error

func (f fetcher8) FetchSourcePackage(ctx context.Context, sourceType string, u *url.URL, targetDir string) (sourcebundle.FetchSourcePackageResponse, error) {
	return sourcebundle.FetchSourcePackageResponse{}, f(targetDir)
}

type noDeps8 struct{}

func (noDeps8) FindDependencies(fsys fs.FS, subPath string, deps *sourcebundle.Dependencies) sourcebundle.Diagnostics {
	return nil
}

func TestMut8(t *testing.T) {
	_ = strings.Repeat
	// A package whose .terraformignore is a symlink to a regular file inside
	// the same package is valid; its rules must be applied.
	target := t.TempDir()
	f := fetcher8(func(dir string) error {
		if err := os.WriteFile(filepath.Join(dir, "rules.txt"), []byte("secret.txt\n"), 0o644); err != nil {
			return err
		}
		if err := os.Symlink("rules.txt", filepath.Join(dir, ".terraformignore")); err != nil {
			return err
		}
		if err := os.WriteFile(filepath.Join(dir, "main.tf"), []byte("x"), 0o644); err != nil {
			return err
		}
		return os.WriteFile(filepath.Join(dir, "secret.txt"), []byte("x"), 0o644)
	})
	b, err := sourcebundle.NewBuilder(target, f, nil)
	if err != nil {
		t.Fatal(err)
	}
	src := sourceaddrs.MustParseSource("https://example.com/foo.tgz").(sourceaddrs.RemoteSource)
	diags := b.AddRemoteSource(context.Background(), src, noDeps8{})
	if diags.HasErrors() {
		t.Fatalf("build of a valid package failed: %v", diags[0].Description())
	}
	bundle, err := b.Close()
	if err != nil {
		t.Fatal(err)
	}
	p, err := bundle.LocalPathForRemoteSource(src)
	if err != nil {
		t.Fatal(err)
	}
	if _, err := os.Lstat(filepath.Join(p, "main.tf")); err != nil {
		t.Fatalf("main.tf missing: %v", err)
	}
	if _, err := os.Lstat(filepath.Join(p, "secret.txt")); err == nil {
		t.Fatalf("secret.txt is excluded by the package's ignore rules but was kept")
	}
}
