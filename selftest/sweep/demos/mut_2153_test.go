// place in: sourcebundle
package sourcebundle_test

import (
	"context"
	"github.com/hashicorp/go-slug/sourceaddrs"
	"github.com/hashicorp/go-slug/sourcebundle"
	"io/fs"
	"net/url"
	"os"
	"path/filepath"
	"testing"
)

type mutFetcher2153 func(ctx context.Context, sourceType string, u *url.URL, targetDir string) (sourcebundle.FetchSourcePackageResponse, error)

func (f mutFetcher2153) FetchSourcePackage(ctx context.Context, sourceType string, u *url.URL, targetDir string) (sourcebundle.FetchSourcePackageResponse, error) {
	return f(ctx, sourceType, u, targetDir)
}

type mutNoDeps2153 struct{}

func (mutNoDeps2153) FindDependencies(fsys fs.FS, subPath string, deps *sourcebundle.Dependencies) sourcebundle.Diagnostics {
	return nil
}

// A fetched package with a symlink leaving the package must fail the build.
func TestMut2153_EscapingSymlinkRejected(t *testing.T) {
	src := sourceaddrs.MustParseSource("git::https://example.com/foo.git").(sourceaddrs.RemoteSource)
	outside := filepath.Join(t.TempDir(), "outside.txt")
	if err := os.WriteFile(outside, []byte("outside"), 0644); err != nil {
		t.Fatal(err)
	}
	fetcher := mutFetcher2153(func(ctx context.Context, sourceType string, u *url.URL, targetDir string) (sourcebundle.FetchSourcePackageResponse, error) {
		if err := os.Symlink(outside, filepath.Join(targetDir, "link")); err != nil {
			return sourcebundle.FetchSourcePackageResponse{}, err
		}
		return sourcebundle.FetchSourcePackageResponse{}, os.WriteFile(filepath.Join(targetDir, "main.tf"), []byte("x"), 0644)
	})
	b, err := sourcebundle.NewBuilder(t.TempDir(), fetcher, nil)
	if err != nil {
		t.Fatal(err)
	}
	diags := b.AddRemoteSource(context.Background(), src, mutNoDeps2153{})
	if !diags.HasErrors() {
		t.Errorf("package with a symlink to %s was accepted", outside)
	}
}
