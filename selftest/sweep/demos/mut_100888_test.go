// place in: .
package slug

import (
	"archive/tar"
	"bytes"
	"compress/gzip"
	"strings"
	"testing"
)

// C19: Unpack must return (with an error) rather than panic when a regular
// file entry has a name whose last component is too long for the filesystem
// (Lstat fails with ENAMETOOLONG, which is neither nil nor "not exist").
func TestMut100888_UnpackLongNameNoPanic(t *testing.T) {
	var buf bytes.Buffer
	gz := gzip.NewWriter(&buf)
	tw := tar.NewWriter(gz)
	name := strings.Repeat("a", 300)
	if err := tw.WriteHeader(&tar.Header{
		Typeflag: tar.TypeReg,
		Name:     name,
		Mode:     0644,
		Size:     1,
	}); err != nil {
		t.Fatal(err)
	}
	if _, err := tw.Write([]byte("x")); err != nil {
		t.Fatal(err)
	}
	if err := tw.Close(); err != nil {
		t.Fatal(err)
	}
	if err := gz.Close(); err != nil {
		t.Fatal(err)
	}

	dst := t.TempDir()
	var err error
	func() {
		defer func() {
			if r := recover(); r != nil {
				t.Fatalf("Unpack panicked: %v", r)
			}
		}()
		err = Unpack(bytes.NewReader(buf.Bytes()), dst)
	}()
	if err == nil {
		t.Fatalf("expected an error for a 300-byte file name")
	}
}
