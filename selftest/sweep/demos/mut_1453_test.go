// place in: sourceaddrs
package sourceaddrs

import "testing"

func TestMut1453FinalRegistryRoundTrip(t *testing.T) {
	for _, in := range []string{"example.com/foo/bar/baz@1.2.3", "example.com/foo/bar/baz@1.2.3//sub/dir"} {
		a, err := ParseFinalRegistrySource(in)
		if err != nil {
			t.Fatalf("parse %q: %v", in, err)
		}
		s := a.String()
		b, err := ParseFinalRegistrySource(s)
		if err != nil {
			t.Fatalf("%q printed as %q which does not parse back: %v", in, s, err)
		}
		if b != a {
			t.Fatalf("%q printed as %q which parses back to a different address %q", in, s, b.String())
		}
		if b.SubPath() != a.SubPath() || b.String() != s {
			t.Fatalf("%q: not idempotent: %q then %q", in, s, b.String())
		}
	}
}
