// place in: .
package slug

import (
	"bytes"
	"os"
	"path/filepath"
	"testing"
)

// C02/C05: Unpack accepts every slug Pack produces from a tree whose links are
// relative - also when the destination is given relative to the working
// directory (validSymlink makes root absolute itself for this).
func TestMut882_UnpackIntoDot(t *testing.T) {
	src := t.TempDir()
	if err := os.WriteFile(filepath.Join(src, "f"), []byte("x"), 0644); err != nil {
		t.Fatal(err)
	}
	if err := os.Symlink("f", filepath.Join(src, "l")); err != nil {
		t.Fatal(err)
	}
	var buf bytes.Buffer
	if _, err := Pack(src, &buf, false); err != nil {
		t.Fatal(err)
	}

	dst := t.TempDir()
	wd, err := os.Getwd()
	if err != nil {
		t.Fatal(err)
	}
	if err := os.Chdir(dst); err != nil {
		t.Fatal(err)
	}
	defer os.Chdir(wd)

	if err := Unpack(&buf, "."); err != nil {
		t.Fatalf("Unpack into \".\": %v", err)
	}
	got, err := os.Readlink(filepath.Join(dst, "l"))
	if err != nil || got != "f" {
		t.Fatalf("link l: %q, %v", got, err)
	}
}
