// place in: sourceaddrs
package sourceaddrs

import (
	"net/url"
	"testing"
)

// C06: every address handed out prints to a string that parses back to an
// equal address. The doubled-slash rule must be applied to the URL as it
// will be printed (the canonical re-parse), not to the caller's struct.
func TestMut101279(t *testing.T) {
	u := &url.URL{Scheme: "https://example.com/a//b.tgz#", Host: "example.com", Path: "/x.tgz"}
	src, err := MakeRemoteSource("https", u, "")
	if err != nil {
		return // refused: fine
	}
	back, err := ParseRemoteSource(src.String())
	if err != nil {
		t.Fatalf("accepted address prints as %q which does not parse back: %v", src.String(), err)
	}
	if back != src {
		t.Fatalf("accepted address prints as %q which parses back to a different address %q", src.String(), back.String())
	}
}
