// place in: .
package slug

import (
	"bytes"
	"os"
	"path/filepath"
	"testing"
)

// A '.' in an ignore pattern (user rule "foo.txt", built-in ".git/") must match
// only a literal dot: "fooXtxt" and "xgit/keep" are not excluded and must ship.
func TestMut200109DotIsLiteralInIgnorePattern(t *testing.T) {
	src := t.TempDir()
	must := func(err error) {
		t.Helper()
		if err != nil {
			t.Fatal(err)
		}
	}
	must(os.WriteFile(filepath.Join(src, ".terraformignore"), []byte("foo.txt\n"), 0o644))
	must(os.WriteFile(filepath.Join(src, "foo.txt"), []byte("a"), 0o644))
	must(os.WriteFile(filepath.Join(src, "fooXtxt"), []byte("b"), 0o644))
	must(os.Mkdir(filepath.Join(src, "xgit"), 0o755))
	must(os.WriteFile(filepath.Join(src, "xgit", "keep"), []byte("c"), 0o644))

	p, err := NewPacker(ApplyTerraformIgnore())
	must(err)
	var buf bytes.Buffer
	meta, err := p.Pack(src, &buf)
	must(err)
	got := map[string]bool{}
	for _, f := range meta.Files {
		got[f] = true
	}
	if got["foo.txt"] {
		t.Errorf("foo.txt should be excluded; files: %v", meta.Files)
	}
	for _, want := range []string{"fooXtxt", "xgit/keep"} {
		if !got[want] {
			t.Errorf("%s is not excluded by any rule but is missing; files: %v", want, meta.Files)
		}
	}
}
