// place in: sourceaddrs
package sourceaddrs

import "testing"

// C06: a remote address with both a sub-path and a query string must print to
// a string that parses back to the same address.
func TestMut200271SubPathWithQueryRoundTrip(t *testing.T) {
	for _, in := range []string{
		"git::https://example.com/repo.git//modules/foo?ref=v1.0.0",
		"https://example.com/pkg.zip//sub/dir?archive=tgz",
	} {
		addr, err := ParseRemoteSource(in)
		if err != nil {
			t.Fatalf("%q: %v", in, err)
		}
		s := addr.String()
		if s != in {
			t.Errorf("String() = %q, want %q", s, in)
		}
		again, err := ParseRemoteSource(s)
		if err != nil {
			t.Errorf("%q printed as %q which does not parse back: %v", in, s, err)
			continue
		}
		if again != addr {
			t.Errorf("%q printed as %q which parses to a different address %q", in, s, again.String())
		}
	}
}
