// place in: sourcebundle
package sourcebundle_test

import (
	"os"
	"path/filepath"
	"testing"

	"github.com/apparentlymart/go-versions/versions"
	"github.com/hashicorp/go-slug/sourceaddrs"
	"github.com/hashicorp/go-slug/sourcebundle"
)

// A registry source with a selected version that is in the bundle must be
// found through the general lookup, at the same place as the remote address
// the registry named joined with the caller's sub-path (C08).
func TestMut200669(t *testing.T) {
	dir := t.TempDir()
	if err := os.MkdirAll(filepath.Join(dir, "pkgdir", "modules", "sub"), 0o755); err != nil {
		t.Fatal(err)
	}
	manifest := `{
  "terraform_source_bundle": 1,
  "packages": [
    {"source": "https://example.com/foo.tgz", "local": "pkgdir", "meta": {}}
  ],
  "registry": [
    {
      "source": "example.com/foo/bar/baz",
      "versions": {"1.0.0": {"source": "https://example.com/foo.tgz//modules", "deprecation": null}}
    }
  ]
}`
	if err := os.WriteFile(filepath.Join(dir, "terraform-sources.json"), []byte(manifest), 0o644); err != nil {
		t.Fatal(err)
	}
	bundle, err := sourcebundle.OpenDir(dir)
	if err != nil {
		t.Fatal(err)
	}
	reg := sourceaddrs.MustParseSource("example.com/foo/bar/baz//sub").(sourceaddrs.RegistrySource)
	final := reg.Versioned(versions.MustParseVersion("1.0.0"))
	got, err := bundle.LocalPathForSource(final)
	if err != nil {
		t.Fatalf("lookup failed: %s", err)
	}
	remote := sourceaddrs.MustParseSource("https://example.com/foo.tgz//modules/sub").(sourceaddrs.RemoteSource)
	want, err := bundle.LocalPathForSource(remote)
	if err != nil {
		t.Fatal(err)
	}
	if got != want {
		t.Errorf("got %s, want %s", got, want)
	}
}
