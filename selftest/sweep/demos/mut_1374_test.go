// place in: sourceaddrs
package sourceaddrs_test

import (
	"testing"

	"github.com/hashicorp/go-slug/sourceaddrs"
)

// C06: a registry source address prints to a string that parses back to an
// equal address, with and without a sub-path.
func TestMut1374(t *testing.T) {
	for _, in := range []string{"hashicorp/foo/aws", "hashicorp/foo/aws//sub/dir", "example.com/a/b/c//x"} {
		addr, err := sourceaddrs.ParseRegistrySource(in)
		if err != nil {
			t.Fatalf("ParseRegistrySource(%q): %s", in, err)
		}
		printed := addr.String()
		back, err := sourceaddrs.ParseSource(printed)
		if err != nil {
			t.Errorf("%q prints as %q, which does not parse back: %s", in, printed, err)
			continue
		}
		if back != sourceaddrs.Source(addr) {
			t.Errorf("%q prints as %q, which parses back to a different address %#v (sub-path %q expected)", in, printed, back, addr.SubPath())
		}
	}
}
