// place in: sourcebundle
package sourcebundle

// Demonstrates mutation 2048: without a tracer the source-address request gets a nil context

import (
	"context"
	"errors"
	"fmt"
	"io/fs"
	"net/url"
	"os"
	"path/filepath"
	"testing"

	"github.com/apparentlymart/go-versions/versions"
	regaddr "github.com/hashicorp/terraform-registry-address"

	"github.com/hashicorp/go-slug/sourceaddrs"
)

type mut2048Fetcher struct{}

func (mut2048Fetcher) FetchSourcePackage(ctx context.Context, sourceType string, u *url.URL, targetDir string) (FetchSourcePackageResponse, error) {
	return FetchSourcePackageResponse{}, os.WriteFile(filepath.Join(targetDir, "main.tf"), []byte("# hello\n"), 0o644)
}

type mut2048Registry struct {
	versionsFn func(ctx context.Context) error
	sourceFn   func(ctx context.Context) error
}

func (r mut2048Registry) ModulePackageVersions(ctx context.Context, pkgAddr regaddr.ModulePackage) (ModulePackageVersionsResponse, error) {
	if r.versionsFn != nil {
		if err := r.versionsFn(ctx); err != nil {
			return ModulePackageVersionsResponse{}, err
		}
	}
	return ModulePackageVersionsResponse{Versions: []ModulePackageInfo{{Version: versions.MustParseVersion("1.0.0")}}}, nil
}

func (r mut2048Registry) ModulePackageSourceAddr(ctx context.Context, pkgAddr regaddr.ModulePackage, version versions.Version) (ModulePackageSourceAddrResponse, error) {
	if r.sourceFn != nil {
		if err := r.sourceFn(ctx); err != nil {
			return ModulePackageSourceAddrResponse{}, err
		}
	}
	return ModulePackageSourceAddrResponse{SourceAddr: sourceaddrs.MustParseSource("https://example.com/foo.tgz").(sourceaddrs.RemoteSource)}, nil
}

type mut2048NoDeps struct{}

func (mut2048NoDeps) FindDependencies(fsys fs.FS, subPath string, deps *Dependencies) Diagnostics {
	return nil
}

// mut2048Add adds one registry source and converts a panic into an error.
func mut2048Add(ctx context.Context, b *Builder, addr string) (diags Diagnostics, panicked error) {
	defer func() {
		if r := recover(); r != nil {
			panicked = fmt.Errorf("panic: %v", r)
		}
	}()
	src := sourceaddrs.MustParseSource(addr).(sourceaddrs.RegistrySource)
	return b.AddRegistrySource(ctx, src, versions.All, mut2048NoDeps{}), nil
}

var _ = errors.New

func TestMut2048(t *testing.T) {
	// Default configuration: no tracer on the context. The registry client
	// must still receive a usable (non-nil) context, exactly like net/http
	// based clients require (http.NewRequestWithContext rejects nil).
	sawNil := false
	reg := mut2048Registry{sourceFn: func(ctx context.Context) error {
		if ctx == nil {
			sawNil = true
			return errors.New("net/http: nil Context")
		}
		return ctx.Err()
	}}
	b, err := NewBuilder(t.TempDir(), mut2048Fetcher{}, reg)
	if err != nil {
		t.Fatal(err)
	}
	diags, perr := mut2048Add(context.Background(), b, "example.com/foo/bar/baz")
	if perr != nil {
		t.Fatal(perr)
	}
	if sawNil {
		t.Errorf("ModulePackageSourceAddr was called with a nil context")
	}
	if diags.HasErrors() {
		t.Fatalf("registry source was not resolved: %s", diags[0].Description().Summary+": "+diags[0].Description().Detail)
	}
	bundle, err := b.Close()
	if err != nil {
		t.Fatal(err)
	}
	if _, err := bundle.LocalPathForRegistrySource(sourceaddrs.MustParseSource("example.com/foo/bar/baz").(sourceaddrs.RegistrySource), versions.MustParseVersion("1.0.0")); err != nil {
		t.Errorf("registry source missing from bundle: %s", err)
	}
}
