// place in: .
package slug

import (
	"archive/tar"
	"bytes"
	"compress/gzip"
	"errors"
	"io"
	"math/rand"
	"os"
	"path/filepath"
	"strings"
	"testing"
)

var _ = tar.TypeReg
var _ = gzip.BestSpeed
var _ = io.EOF
var _ = rand.Int
var _ = strings.Contains
var _ = errors.New
var _ bytes.Buffer

func mk621(t *testing.T, p string) {
	t.Helper()
	if err := os.MkdirAll(p, 0755); err != nil {
		t.Fatal(err)
	}
}

func wr621(t *testing.T, p, c string) {
	t.Helper()
	mk621(t, filepath.Dir(p))
	if err := os.WriteFile(p, []byte(c), 0644); err != nil {
		t.Fatal(err)
	}
}

func ln621(t *testing.T, target, p string) {
	t.Helper()
	mk621(t, filepath.Dir(p))
	if err := os.Symlink(target, p); err != nil {
		t.Fatal(err)
	}
}

func tmp621(t *testing.T) string {
	d, err := filepath.EvalSymlinks(t.TempDir())
	if err != nil {
		t.Fatal(err)
	}
	return d
}

type limitW621 struct{ left int }

var errFull621 = errors.New("writer full")

func (w *limitW621) Write(p []byte) (int, error) {
	if len(p) > w.left {
		return 0, errFull621
	}
	w.left -= len(p)
	return len(p), nil
}

// An out-of-tree directory containing a link back to itself must be refused
// with an illegal-slug error. Without the check Pack recurses for ever; the
// size-limited writer (and the incompressible file, which sorts before the
// link) only serves to end the test when that happens.
func TestMut621_SymlinkCycle(t *testing.T) {
	base := tmp621(t)
	src := filepath.Join(base, "src")
	wr621(t, filepath.Join(src, "file.txt"), "in")
	noise := make([]byte, 128<<10)
	rand.New(rand.NewSource(1)).Read(noise)
	wr621(t, filepath.Join(base, "o", "d", "a.bin"), string(noise))
	ln621(t, filepath.Join(base, "o", "d"), filepath.Join(base, "o", "d", "back"))
	ln621(t, filepath.Join(base, "o", "d"), filepath.Join(src, "link"))
	p, _ := NewPacker(DereferenceSymlinks())
	_, err := p.Pack(src, &limitW621{left: 2 << 20})
	var ise *IllegalSlugError
	if !errors.As(err, &ise) {
		t.Fatalf("want IllegalSlugError for a symlink cycle, got: %v (Pack walked the cycle until the writer was full)", err)
	}
}
