// place in: sourcebundle
package sourcebundle

import (
	"os"
	"path/filepath"
	"testing"

	"github.com/hashicorp/go-slug/sourceaddrs"
)

// C06: every address a bundle hands out prints to a string that parses back
// to the same address. A manifest whose package address is not a valid
// remote package address must be refused; otherwise RemotePackages() hands
// out a zero-value address that prints as "" and cannot be parsed.
func TestMut2488(t *testing.T) {
	dir := t.TempDir()
	if err := os.Mkdir(filepath.Join(dir, "pkgdir"), 0755); err != nil {
		t.Fatal(err)
	}
	manifest := `{"terraform_source_bundle":1,"packages":[{"source":"http://user:pw@example.com/insecure.tgz","local":"pkgdir"}]}`
	if err := os.WriteFile(filepath.Join(dir, "terraform-sources.json"), []byte(manifest), 0644); err != nil {
		t.Fatal(err)
	}
	b, err := OpenDir(dir)
	if err != nil {
		return // refused: fine
	}
	for _, pkg := range b.RemotePackages() {
		s := pkg.String()
		back, err := sourceaddrs.ParseRemotePackage(s)
		if err != nil {
			t.Fatalf("bundle opened and handed out package address %q which does not parse back: %s", s, err)
		}
		if back != pkg && back.String() != s {
			t.Fatalf("address %q does not round-trip", s)
		}
	}
	t.Fatalf("manifest with plain-http credentialed package address was accepted")
}
