// place in: .
package slug

import (
	"archive/tar"
	"bytes"
	"compress/gzip"
	"io"
	"os"
	"path/filepath"
	"testing"
)

type mutEntry100452 struct {
	hdr  *tar.Header
	body string
}

func mutPack100452(t *testing.T, root string) (map[string]mutEntry100452, *Meta) {
	t.Helper()
	p, err := NewPacker(DereferenceSymlinks())
	if err != nil {
		t.Fatal(err)
	}
	var buf bytes.Buffer
	meta, err := p.Pack(root, &buf)
	if err != nil {
		t.Fatalf("Pack failed: %v", err)
	}
	gz, err := gzip.NewReader(&buf)
	if err != nil {
		t.Fatal(err)
	}
	tr := tar.NewReader(gz)
	out := map[string]mutEntry100452{}
	for {
		h, err := tr.Next()
		if err == io.EOF {
			break
		}
		if err != nil {
			t.Fatal(err)
		}
		b, err := io.ReadAll(tr)
		if err != nil {
			t.Fatal(err)
		}
		out[h.Name] = mutEntry100452{h, string(b)}
	}
	return out, meta
}

func mutWrite100452(t *testing.T, path, content string, mode os.FileMode) {
	t.Helper()
	if err := os.MkdirAll(filepath.Dir(path), 0o755); err != nil {
		t.Fatal(err)
	}
	if err := os.WriteFile(path, []byte(content), mode); err != nil {
		t.Fatal(err)
	}
	if err := os.Chmod(path, mode); err != nil {
		t.Fatal(err)
	}
}

// Files of a dereferenced out-of-tree directory are stored below the link's
// own name.
func TestMut100452(t *testing.T) {
	T := t.TempDir()
	root := filepath.Join(T, "root")
	mutWrite100452(t, filepath.Join(root, "f.txt"), "inner", 0o644)
	mutWrite100452(t, filepath.Join(T, "outside", "f.txt"), "outer", 0o644)
	if err := os.Symlink("../outside", filepath.Join(root, "ext")); err != nil {
		t.Fatal(err)
	}
	ents, meta := mutPack100452(t, root)
	want := []string{"ext/f.txt", "f.txt"}
	if len(meta.Files) != 2 || meta.Files[0] != want[0] || meta.Files[1] != want[1] {
		t.Fatalf("files %q, want %q", meta.Files, want)
	}
	if ents["ext/f.txt"].body != "outer" || ents["f.txt"].body != "inner" {
		t.Fatalf("wrong contents: %v", ents)
	}
}
