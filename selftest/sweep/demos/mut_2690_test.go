// place in: sourcebundle
package sourcebundle_test

import (
	"fmt"
	"github.com/hashicorp/go-slug/sourcebundle"
	"os"
	"path/filepath"
	"testing"
)

func open2690(t *testing.T, manifest string) *sourcebundle.Bundle {
	t.Helper()
	dir := t.TempDir()
	if err := os.WriteFile(filepath.Join(dir, "terraform-sources.json"), []byte(manifest), 0o644); err != nil {
		t.Fatal(err)
	}
	b, err := sourcebundle.OpenDir(dir)
	if err != nil {
		t.Fatalf("OpenDir: %s", err)
	}
	return b
}

func TestMut2690(t *testing.T) {
	m := `{"terraform_source_bundle":1,"registry":[{"source":"example.com/ns/a/sys","versions":{`
	vers := []string{"0.9.0", "1.0.0", "1.1.0", "1.2.0", "2.0.0", "2.10.0", "3.0.0", "10.0.0"}
	for i, n := range vers {
		if i > 0 {
			m += ","
		}
		m += `"` + n + `":{"source":"https://example.com/foo.tgz"}`
	}
	m += `}}]}`
	b := open2690(t, m)
	pkg := b.RegistryPackages()[0]
	want := fmt.Sprint(vers)
	for i := 0; i < 100; i++ {
		if got := fmt.Sprint(b.RegistryPackageVersions(pkg)); got != want {
			t.Fatalf("RegistryPackageVersions not in ascending precedence order / not stable:\nwant %s\ngot  %s", want, got)
		}
	}
}
