// place in: sourcebundle
package sourcebundle_test

import (
	"fmt"
	"os"
	"path/filepath"
	"reflect"
	"strings"
	"testing"

	"github.com/hashicorp/go-slug/sourcebundle"
)

// Re-opening a bundle directory must give the same list of registry packages
// (C09); the list is documented to be in a consistent sorted order.
func TestMut102155_RegistryPackagesConsistent(t *testing.T) {
	dir := t.TempDir()
	var regs []string
	for _, ns := range []string{"a", "b", "c", "d", "e", "f", "g", "h", "i", "j"} {
		regs = append(regs, fmt.Sprintf(`{"source":"registry.terraform.io/%s/mod/aws","versions":{"1.0.0":{"source":"https://example.com/%s.tgz"}}}`, ns, ns))
	}
	manifest := `{"terraform_source_bundle":1,"registry":[` + strings.Join(regs, ",") + `]}`
	if err := os.WriteFile(filepath.Join(dir, "terraform-sources.json"), []byte(manifest), 0o644); err != nil {
		t.Fatal(err)
	}
	first, err := sourcebundle.OpenDir(dir)
	if err != nil {
		t.Fatal(err)
	}
	want := first.RegistryPackages()
	if len(want) != 10 {
		t.Fatalf("got %d packages", len(want))
	}
	for n := 0; n < 40; n++ {
		again, err := sourcebundle.OpenDir(dir)
		if err != nil {
			t.Fatal(err)
		}
		got := again.RegistryPackages()
		if !reflect.DeepEqual(got, want) {
			t.Fatalf("re-opened bundle lists registry packages differently:\n first %v\n again %v", want, got)
		}
	}
}
