// place in: sourcebundle
package sourcebundle_test

import (
	"context"
	"github.com/hashicorp/go-slug/sourceaddrs"
	"github.com/hashicorp/go-slug/sourcebundle"
	"io/fs"
	"net/url"
	"os"
	"path/filepath"
	"testing"
)

type mutFetcher2160 func(ctx context.Context, sourceType string, u *url.URL, targetDir string) (sourcebundle.FetchSourcePackageResponse, error)

func (f mutFetcher2160) FetchSourcePackage(ctx context.Context, sourceType string, u *url.URL, targetDir string) (sourcebundle.FetchSourcePackageResponse, error) {
	return f(ctx, sourceType, u, targetDir)
}

type mutNoDeps2160 struct{}

func (mutNoDeps2160) FindDependencies(fsys fs.FS, subPath string, deps *sourcebundle.Dependencies) sourcebundle.Diagnostics {
	return nil
}

// If the package checksum cannot be computed (file name with a newline) the
// build must fail; it must not succeed while throwing the fetched content away.
func TestMut2160_ChecksumFailureReported(t *testing.T) {
	src := sourceaddrs.MustParseSource("git::https://example.com/foo.git").(sourceaddrs.RemoteSource)
	fetcher := mutFetcher2160(func(ctx context.Context, sourceType string, u *url.URL, targetDir string) (sourcebundle.FetchSourcePackageResponse, error) {
		if err := os.WriteFile(filepath.Join(targetDir, "a\nb.tf"), []byte("y"), 0644); err != nil {
			return sourcebundle.FetchSourcePackageResponse{}, err
		}
		return sourcebundle.FetchSourcePackageResponse{}, os.WriteFile(filepath.Join(targetDir, "main.tf"), []byte("x"), 0644)
	})
	target := t.TempDir()
	b, err := sourcebundle.NewBuilder(target, fetcher, nil)
	if err != nil {
		t.Fatal(err)
	}
	diags := b.AddRemoteSource(context.Background(), src, mutNoDeps2160{})
	if diags.HasErrors() {
		return // reported: fine
	}
	bundle, err := b.Close()
	if err != nil {
		t.Fatalf("Add reported no error but Close failed: %s", err)
	}
	p, err := bundle.LocalPathForRemoteSource(src)
	if err != nil {
		t.Fatalf("no error reported but lookup fails: %s", err)
	}
	if _, err := os.Stat(filepath.Join(p, "main.tf")); err != nil {
		t.Errorf("no error reported but the fetched content is not in the bundle: %s", err)
	}
}
