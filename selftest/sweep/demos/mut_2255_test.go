// place in: sourcebundle
package sourcebundle_test

import (
	"context"
	"io/fs"
	"net/url"
	"os"
	"path/filepath"
	"runtime"
	"syscall"
	"testing"

	"github.com/apparentlymart/go-versions/versions"
	"github.com/hashicorp/go-slug/sourceaddrs"
	"github.com/hashicorp/go-slug/sourcebundle"
	regaddr "github.com/hashicorp/terraform-registry-address"
)

type mut2255Fetcher struct{}

func (mut2255Fetcher) FetchSourcePackage(ctx context.Context, sourceType string, u *url.URL, targetDir string) (sourcebundle.FetchSourcePackageResponse, error) {
	var ret sourcebundle.FetchSourcePackageResponse
	return ret, os.WriteFile(filepath.Join(targetDir, "hello"), []byte("hello\n"), 0644)
}

type mut2255NoRegistry struct{}

func (mut2255NoRegistry) ModulePackageVersions(ctx context.Context, pkgAddr regaddr.ModulePackage) (sourcebundle.ModulePackageVersionsResponse, error) {
	return sourcebundle.ModulePackageVersionsResponse{}, fs.ErrNotExist
}
func (mut2255NoRegistry) ModulePackageSourceAddr(ctx context.Context, pkgAddr regaddr.ModulePackage, version versions.Version) (sourcebundle.ModulePackageSourceAddrResponse, error) {
	return sourcebundle.ModulePackageSourceAddrResponse{}, fs.ErrNotExist
}

type mut2255NoDeps struct{}

func (mut2255NoDeps) FindDependencies(fsys fs.FS, subPath string, deps *sourcebundle.Dependencies) sourcebundle.Diagnostics {
	return nil
}

// If the manifest cannot be written (here: a stale read-only manifest left in
// the target directory), Close must report the failure instead of returning
// a bundle described by the stale manifest, which lacks the package just added.
func TestMut2255ManifestWriteFailureReported(t *testing.T) {
	dir := t.TempDir()
	// make the directories reachable for an unprivileged filesystem uid
	for _, d := range []string{filepath.Dir(dir), dir} {
		if err := os.Chmod(d, 0777); err != nil {
			t.Fatal(err)
		}
	}
	b, err := sourcebundle.NewBuilder(dir, mut2255Fetcher{}, mut2255NoRegistry{})
	if err != nil {
		t.Fatal(err)
	}
	src := sourceaddrs.MustParseSource("https://example.com/foo.tgz").(sourceaddrs.RemoteSource)
	if diags := b.AddRemoteSource(context.Background(), src, mut2255NoDeps{}); diags.HasErrors() {
		t.Fatalf("unexpected diagnostics: %v", diags)
	}

	manifest := filepath.Join(dir, "terraform-sources.json")
	if err := os.WriteFile(manifest, []byte(`{"terraform_source_bundle":1}`), 0444); err != nil {
		t.Fatal(err)
	}
	if err := os.Chmod(manifest, 0444); err != nil {
		t.Fatal(err)
	}

	if os.Geteuid() == 0 {
		// root ignores permission bits; switch this thread's filesystem uid
		// to an unprivileged one for the duration of Close (which does its
		// file work synchronously on the calling goroutine).
		runtime.LockOSThread()
		defer runtime.UnlockOSThread()
		syscall.RawSyscall(syscall.SYS_SETFSUID, 65534, 0, 0)
		defer syscall.RawSyscall(syscall.SYS_SETFSUID, 0, 0, 0)
	}
	// sanity: the stale manifest really is unwritable but readable
	if f, err := os.OpenFile(manifest, os.O_WRONLY, 0); err == nil {
		f.Close()
		t.Skip("cannot make the manifest unwritable in this environment")
	}
	if _, err := os.ReadFile(manifest); err != nil {
		t.Skipf("cannot read stale manifest: %v", err)
	}

	bundle, err := b.Close()
	if err == nil {
		_, lerr := bundle.LocalPathForRemoteSource(src)
		t.Fatalf("Close succeeded although the manifest could not be written (lookup of the added source: %v)", lerr)
	}
}
