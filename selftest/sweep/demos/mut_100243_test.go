// place in: .
package slug

import (
	"archive/tar"
	"bytes"
	"compress/gzip"
	"io"
	"os"
	"path/filepath"
	"runtime"
	"strings"
	"syscall"
	"testing"
)

var _ = runtime.LockOSThread
var _ = syscall.Setfsuid
var _ = strings.HasPrefix
var _ = filepath.Join

type mutEntry100243 struct {
	hdr  *tar.Header
	body string
}

func mutRead100243(t *testing.T, data []byte) []mutEntry100243 {
	t.Helper()
	gz, err := gzip.NewReader(bytes.NewReader(data))
	if err != nil {
		t.Fatal(err)
	}
	tr := tar.NewReader(gz)
	var out []mutEntry100243
	for {
		h, err := tr.Next()
		if err == io.EOF {
			break
		}
		if err != nil {
			t.Fatal(err)
		}
		b, err := io.ReadAll(tr)
		if err != nil {
			t.Fatal(err)
		}
		out = append(out, mutEntry100243{h, string(b)})
	}
	return out
}

func mutNames100243(es []mutEntry100243) []string {
	var n []string
	for _, e := range es {
		n = append(n, e.hdr.Name)
	}
	return n
}

func mutWrite100243(t *testing.T, path, content string) {
	t.Helper()
	if err := os.MkdirAll(filepath.Dir(path), 0755); err != nil {
		t.Fatal(err)
	}
	if err := os.WriteFile(path, []byte(content), 0644); err != nil {
		t.Fatal(err)
	}
}

// A directory that cannot be read must make Pack fail, not yield a slug that
// silently lacks the directory's contents.
func TestMut100243(t *testing.T) {
	src := t.TempDir()
	sub := filepath.Join(src, "sub")
	mutWrite100243(t, filepath.Join(sub, "file.txt"), "data")
	mutWrite100243(t, filepath.Join(src, "a.txt"), "a")
	if err := os.Chmod(sub, 0); err != nil {
		t.Fatal(err)
	}
	defer os.Chmod(sub, 0755)

	if os.Geteuid() == 0 {
		// root ignores permission bits: give up the file system privileges
		// on this thread for the duration of the call.
		runtime.LockOSThread()
		defer runtime.UnlockOSThread()
		os.Chmod(src, 0755)
		os.Chmod(filepath.Dir(src), 0755)
		syscall.Setfsuid(65534)
		defer syscall.Setfsuid(0)
	}
	if _, err := os.ReadDir(sub); err == nil {
		t.Skip("cannot make a directory unreadable here")
	}

	var buf bytes.Buffer
	_, err := Pack(src, &buf, false)
	if err == nil {
		t.Fatalf("Pack succeeded although %q could not be read", sub)
	}
}
