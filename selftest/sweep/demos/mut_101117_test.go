// place in: sourceaddrs
package sourceaddrs

import (
	"testing"

	"github.com/apparentlymart/go-versions/versions"
)

func TestMut101117FinalRegistryRoundTrip(t *testing.T) {
	for _, in := range []string{
		"hashicorp/consul/aws",
		"hashicorp/consul/aws//modules/x",
		"example.com/hashicorp/consul/aws",
		"example.com/hashicorp/consul/aws//modules/x",
	} {
		src, err := ParseRegistrySource(in)
		if err != nil {
			t.Fatal(err)
		}
		f := src.Versioned(versions.MustParseVersion("1.2.3-beta1+m"))
		s := f.String()
		back, err := ParseFinalRegistrySource(s)
		if err != nil {
			t.Errorf("%q: printed %q does not parse: %v", in, s, err)
			continue
		}
		if back != f {
			t.Errorf("%q: printed %q parses to different value %#v", in, s, back)
		}
		g, err := ParseFinalSource(s)
		if err != nil {
			t.Errorf("%q: printed %q not accepted by ParseFinalSource: %v", in, s, err)
			continue
		}
		if g != FinalSource(f) {
			t.Errorf("%q: printed %q parses to different final source %#v", in, s, g)
		}
		if back.String() != s {
			t.Errorf("not idempotent")
		}
	}
}
