// place in: sourcebundle
package sourcebundle_test

import (
	"context"
	"github.com/hashicorp/go-slug/sourceaddrs"
	"github.com/hashicorp/go-slug/sourcebundle"
	"io/fs"
	"net/url"
	"os"
	"path/filepath"
	"testing"
)

type mutFetcher2105 func(ctx context.Context, sourceType string, u *url.URL, targetDir string) (sourcebundle.FetchSourcePackageResponse, error)

func (f mutFetcher2105) FetchSourcePackage(ctx context.Context, sourceType string, u *url.URL, targetDir string) (sourcebundle.FetchSourcePackageResponse, error) {
	return f(ctx, sourceType, u, targetDir)
}

type mutNoDeps2105 struct{}

func (mutNoDeps2105) FindDependencies(fsys fs.FS, subPath string, deps *sourcebundle.Dependencies) sourcebundle.Diagnostics {
	return nil
}

type mutSpanKey2105 struct{}

// The context returned by RemotePackageDownloadStart must be the one used for
// the fetch and handed to the matching Success event; without a tracer the
// fetcher must still get a usable (non-nil) context.
func TestMut2105_StartContextBracketsDownload(t *testing.T) {
	src := sourceaddrs.MustParseSource("git::https://example.com/foo.git").(sourceaddrs.RemoteSource)

	t.Run("tracer", func(t *testing.T) {
		var fetchSpan, successSpan interface{}
		var fetchNil, successNil, successCalled bool
		fetcher := mutFetcher2105(func(ctx context.Context, sourceType string, u *url.URL, targetDir string) (sourcebundle.FetchSourcePackageResponse, error) {
			if ctx == nil {
				fetchNil = true
			} else {
				fetchSpan = ctx.Value(mutSpanKey2105{})
			}
			return sourcebundle.FetchSourcePackageResponse{}, os.WriteFile(filepath.Join(targetDir, "main.tf"), []byte("x"), 0644)
		})
		b, err := sourcebundle.NewBuilder(t.TempDir(), fetcher, nil)
		if err != nil {
			t.Fatal(err)
		}
		tracer := &sourcebundle.BuildTracer{
			RemotePackageDownloadStart: func(ctx context.Context, pkgAddr sourceaddrs.RemotePackage) context.Context {
				return context.WithValue(ctx, mutSpanKey2105{}, "span-1")
			},
			RemotePackageDownloadSuccess: func(ctx context.Context, pkgAddr sourceaddrs.RemotePackage) {
				successCalled = true
				if ctx == nil {
					successNil = true
					return
				}
				successSpan = ctx.Value(mutSpanKey2105{})
			},
		}
		diags := b.AddRemoteSource(tracer.OnContext(context.Background()), src, mutNoDeps2105{})
		if diags.HasErrors() {
			t.Fatalf("unexpected errors")
		}
		if fetchNil || fetchSpan != "span-1" {
			t.Errorf("fetcher did not get the context returned by the start event (nil=%v, span=%v)", fetchNil, fetchSpan)
		}
		if !successCalled || successNil || successSpan != "span-1" {
			t.Errorf("success event not matched to its start event (called=%v nil=%v span=%v)", successCalled, successNil, successSpan)
		}
	})

	t.Run("no tracer", func(t *testing.T) {
		fetchNil := false
		fetcher := mutFetcher2105(func(ctx context.Context, sourceType string, u *url.URL, targetDir string) (sourcebundle.FetchSourcePackageResponse, error) {
			if ctx == nil {
				fetchNil = true
			}
			return sourcebundle.FetchSourcePackageResponse{}, os.WriteFile(filepath.Join(targetDir, "main.tf"), []byte("x"), 0644)
		})
		b, err := sourcebundle.NewBuilder(t.TempDir(), fetcher, nil)
		if err != nil {
			t.Fatal(err)
		}
		diags := b.AddRemoteSource(context.Background(), src, mutNoDeps2105{})
		if diags.HasErrors() {
			t.Fatalf("unexpected errors")
		}
		if fetchNil {
			t.Errorf("fetcher was handed a nil context")
		}
	})
}
