// place in: sourceaddrs
package sourceaddrs

import "testing"

// C11/C08: joining a registry sub-path onto the address the registry returned
// keeps the package of that address.
func TestMut200393(t *testing.T) {
	reg, err := ParseRegistrySource("example.com/foo/bar/baz//sub/dir")
	if err != nil {
		t.Fatal(err)
	}
	real, err := ParseRemoteSource("https://example.com/pkg.tgz")
	if err != nil {
		t.Fatal(err)
	}
	got := reg.FinalSourceAddr(real)
	want := "https://example.com/pkg.tgz//sub/dir"
	if got.String() != want {
		t.Fatalf("got %q, want %q", got.String(), want)
	}
	if got.Package().String() != real.Package().String() {
		t.Fatalf("package changed: %q", got.Package().String())
	}
	back, err := ParseRemoteSource(got.String())
	if err != nil || back != got {
		t.Fatalf("does not round-trip: %v", err)
	}
}
