// place in: sourceaddrs
package sourceaddrs

import (
	"net/url"
	"testing"
)

func TestMut1559UnprintableURLNoPanic(t *testing.T) {
	u := &url.URL{Scheme: "https", Host: "exa mple.com", Path: "/x.tgz"}
	defer func() {
		if r := recover(); r != nil {
			t.Fatalf("MakeRemoteSource panicked: %v", r)
		}
	}()
	if got, err := MakeRemoteSource("https", u, ""); err == nil {
		t.Fatalf("MakeRemoteSource accepted a URL whose text does not parse: %q", got.String())
	}
}
