// place in: sourcebundle
package sourcebundle_test

import (
	"context"
	"errors"
	"github.com/hashicorp/go-slug/sourceaddrs"
	"github.com/hashicorp/go-slug/sourcebundle"
	"io/fs"
	"net/url"
	"testing"
)

type mutFetcher2119 func(ctx context.Context, sourceType string, u *url.URL, targetDir string) (sourcebundle.FetchSourcePackageResponse, error)

func (f mutFetcher2119) FetchSourcePackage(ctx context.Context, sourceType string, u *url.URL, targetDir string) (sourcebundle.FetchSourcePackageResponse, error) {
	return f(ctx, sourceType, u, targetDir)
}

type mutNoDeps2119 struct{}

func (mutNoDeps2119) FindDependencies(fsys fs.FS, subPath string, deps *sourcebundle.Dependencies) sourcebundle.Diagnostics {
	return nil
}

// A failed download must produce exactly one failure event after its start
// event, and a tracer without a failure callback must not crash the build.
func TestMut2119_FailureEventDelivered(t *testing.T) {
	src := sourceaddrs.MustParseSource("git::https://example.com/foo.git").(sourceaddrs.RemoteSource)
	fetcher := mutFetcher2119(func(ctx context.Context, sourceType string, u *url.URL, targetDir string) (sourcebundle.FetchSourcePackageResponse, error) {
		return sourcebundle.FetchSourcePackageResponse{}, errors.New("boom")
	})

	t.Run("with failure callback", func(t *testing.T) {
		b, err := sourcebundle.NewBuilder(t.TempDir(), fetcher, nil)
		if err != nil {
			t.Fatal(err)
		}
		starts, failures := 0, 0
		tracer := &sourcebundle.BuildTracer{
			RemotePackageDownloadStart: func(ctx context.Context, pkgAddr sourceaddrs.RemotePackage) context.Context {
				starts++
				return ctx
			},
			RemotePackageDownloadFailure: func(ctx context.Context, pkgAddr sourceaddrs.RemotePackage, err error) {
				failures++
			},
		}
		diags := b.AddRemoteSource(tracer.OnContext(context.Background()), src, mutNoDeps2119{})
		if !diags.HasErrors() {
			t.Fatalf("expected errors")
		}
		if starts != 1 || failures != 1 {
			t.Errorf("starts=%d failures=%d, want 1 and 1", starts, failures)
		}
	})

	t.Run("without failure callback", func(t *testing.T) {
		b, err := sourcebundle.NewBuilder(t.TempDir(), fetcher, nil)
		if err != nil {
			t.Fatal(err)
		}
		tracer := &sourcebundle.BuildTracer{}
		var diags sourcebundle.Diagnostics
		func() {
			defer func() {
				if r := recover(); r != nil {
					t.Errorf("build panicked: %v", r)
				}
			}()
			diags = b.AddRemoteSource(tracer.OnContext(context.Background()), src, mutNoDeps2119{})
			if !diags.HasErrors() {
				t.Errorf("expected errors")
			}
		}()
	})
}
