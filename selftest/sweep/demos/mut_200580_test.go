// place in: sourcebundle
package sourcebundle_test

import (
	"context"
	"errors"
	"io/fs"
	"net/url"
	"os"
	"path/filepath"
	"testing"

	"github.com/apparentlymart/go-versions/versions"
	"github.com/hashicorp/go-slug/sourceaddrs"
	"github.com/hashicorp/go-slug/sourcebundle"
	regaddr "github.com/hashicorp/terraform-registry-address"
)

var (
	_ = errors.New
	_ = versions.All
	_ regaddr.ModulePackage
	_ = filepath.Join
	_ = os.WriteFile
)

type fetcher200580 struct {
	fail bool
	meta *sourcebundle.PackageMeta
}

func (f fetcher200580) FetchSourcePackage(ctx context.Context, sourceType string, u *url.URL, targetDir string) (sourcebundle.FetchSourcePackageResponse, error) {
	var ret sourcebundle.FetchSourcePackageResponse
	if f.fail {
		return ret, errors.New("fetch failed")
	}
	for _, d := range []string{"a", "b"} {
		if err := os.MkdirAll(filepath.Join(targetDir, d), 0755); err != nil {
			return ret, err
		}
		if err := os.WriteFile(filepath.Join(targetDir, d, "main.tf"), []byte(u.String()+d), 0644); err != nil {
			return ret, err
		}
	}
	ret.PackageMeta = f.meta
	return ret, nil
}

type registry200580 struct{}

func (registry200580) ModulePackageVersions(ctx context.Context, pkgAddr regaddr.ModulePackage) (sourcebundle.ModulePackageVersionsResponse, error) {
	return sourcebundle.ModulePackageVersionsResponse{}, errors.New("registry down")
}

func (registry200580) ModulePackageSourceAddr(ctx context.Context, pkgAddr regaddr.ModulePackage, version versions.Version) (sourcebundle.ModulePackageSourceAddrResponse, error) {
	return sourcebundle.ModulePackageSourceAddrResponse{}, errors.New("registry down")
}

type finder200580 struct {
	seen []string
	fn   func(subPath string, deps *sourcebundle.Dependencies) sourcebundle.Diagnostics
}

func (f *finder200580) FindDependencies(fsys fs.FS, subPath string, deps *sourcebundle.Dependencies) sourcebundle.Diagnostics {
	f.seen = append(f.seen, subPath)
	if f.fn != nil {
		return f.fn(subPath, deps)
	}
	return nil
}

type diag200580 struct{}

func (diag200580) Severity() sourcebundle.DiagSeverity { return sourcebundle.DiagError }
func (diag200580) Description() sourcebundle.DiagDescription {
	return sourcebundle.DiagDescription{Summary: "finder problem", Detail: "finder detail"}
}
func (diag200580) Source() sourcebundle.DiagSource { return sourcebundle.DiagSource{} }
func (diag200580) ExtraInfo() interface{}          { return nil }

func TestMut200580(t *testing.T) {
	b, err := sourcebundle.NewBuilder(t.TempDir(), fetcher200580{}, registry200580{})
	if err != nil {
		t.Fatal(err)
	}
	f := &finder200580{}
	f.fn = func(subPath string, deps *sourcebundle.Dependencies) sourcebundle.Diagnostics {
		if subPath == "a" {
			deps.AddLocalSource(sourceaddrs.MustParseSource("../../escape").(sourceaddrs.LocalSource), f)
		}
		return nil
	}
	src := sourceaddrs.MustParseSource("git::https://example.com/foo.git//a").(sourceaddrs.RemoteSource)
	diags := b.AddRemoteSource(context.Background(), src, f)
	if !diags.HasErrors() {
		t.Fatalf("relative address escaping the package not reported as an error: %d diags", len(diags))
	}
}
