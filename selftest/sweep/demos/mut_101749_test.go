// place in: sourcebundle
package sourcebundle_test

import (
	"context"
	"fmt"
	"io/fs"
	"net/url"
	"os"
	"path/filepath"
	"testing"
	"strings"
	"syscall"
	"github.com/hashicorp/go-slug/sourceaddrs"
	"github.com/hashicorp/go-slug/sourcebundle"
)

type fetcher101749 func(dir string) error

func (f fetcher101749) FetchSourcePackage(ctx context.Context, sourceType string, u *url.URL, targetDir string) (sourcebundle.FetchSourcePackageResponse, error) {
	return sourcebundle.FetchSourcePackageResponse{}, f(targetDir)
}

type noDeps101749 struct{}

func (noDeps101749) FindDependencies(fsys fs.FS, subPath string, deps *sourcebundle.Dependencies) sourcebundle.Diagnostics {
	return nil
}

// build101749 builds a bundle in targetDir from one remote package whose
// content is produced by populate, and returns the package directory.
func build101749(targetDir string, populate func(dir string) error) (string, error) {
	b, err := sourcebundle.NewBuilder(targetDir, fetcher101749(populate), nil)
	if err != nil {
		return "", err
	}
	src := sourceaddrs.MustParseSource("https://example.com/pkg.tgz").(sourceaddrs.RemoteSource)
	diags := b.AddRemoteSource(context.Background(), src, noDeps101749{})
	if diags.HasErrors() {
		msg := ""
		for _, d := range diags {
			msg += d.Description().Summary + ": " + d.Description().Detail + "; "
		}
		return "", fmt.Errorf("build failed: %s", msg)
	}
	bundle, err := b.Close()
	if err != nil {
		return "", err
	}
	return bundle.LocalPathForRemoteSource(src)
}

var _ = filepath.Join
var _ = os.Lstat

// A package whose tree is deeper than PATH_MAX: the walk over the fetched
// package cannot lstat the deepest directories and reports that to the walk
// function (with a nil FileInfo). The build must fail with an error
// diagnostic; it must not panic.
func TestMut101749_WalkErrorReported(t *testing.T) {
	target := t.TempDir()
	populate := func(dir string) error {
		if err := os.WriteFile(filepath.Join(dir, "main.tf"), []byte("x"), 0644); err != nil {
			return err
		}
		fd, err := syscall.Open(dir, syscall.O_RDONLY|syscall.O_DIRECTORY, 0)
		if err != nil {
			return err
		}
		name := strings.Repeat("d", 250)
		for i := 0; i < 20; i++ {
			if err := syscall.Mkdirat(fd, name, 0755); err != nil {
				syscall.Close(fd)
				return err
			}
			nfd, err := syscall.Openat(fd, name, syscall.O_RDONLY|syscall.O_DIRECTORY, 0)
			syscall.Close(fd)
			if err != nil {
				return err
			}
			fd = nfd
		}
		syscall.Close(fd)
		return nil
	}
	var err error
	func() {
		defer func() {
			if r := recover(); r != nil {
				t.Fatalf("build panicked instead of reporting the walk error: %v", r)
			}
		}()
		_, err = build101749(target, populate)
	}()
	if err == nil {
		t.Fatalf("build succeeded although part of the package could not be read")
	}
	if !strings.Contains(err.Error(), "prepare package directory") {
		t.Logf("note: error was %v", err)
	}
}
