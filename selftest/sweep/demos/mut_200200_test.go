// place in: .
package slug

import (
	"bytes"
	"os"
	"path/filepath"
	"strings"
	"testing"
)

// C03 / C02: a directory excluded by a dominating rule (.git/) is not part of
// what is shipped and must not be descended into: whatever lies below it -
// here a chain of directories deeper than PATH_MAX, which cannot be walked by
// path name - has no influence on the slug. The files that are not excluded
// must be packed.
func TestMut200200ExcludedDirIsNotWalked(t *testing.T) {
	src := t.TempDir()
	if err := os.WriteFile(filepath.Join(src, "main.tf"), []byte("hello"), 0644); err != nil {
		t.Fatal(err)
	}
	gitDir := filepath.Join(src, ".git")
	if err := os.Mkdir(gitDir, 0755); err != nil {
		t.Fatal(err)
	}

	// Build .git/aaaa.../aaaa.../... beyond PATH_MAX by descending with chdir.
	wd, err := os.Getwd()
	if err != nil {
		t.Fatal(err)
	}
	defer os.Chdir(wd)
	if err := os.Chdir(gitDir); err != nil {
		t.Fatal(err)
	}
	seg := strings.Repeat("a", 200)
	for i := 0; i < 25; i++ {
		if err := os.Mkdir(seg, 0755); err != nil {
			t.Fatal(err)
		}
		if err := os.Chdir(seg); err != nil {
			t.Fatal(err)
		}
	}
	if err := os.Chdir(wd); err != nil {
		t.Fatal(err)
	}

	var buf bytes.Buffer
	meta, err := Pack(src, &buf, false)
	if err != nil {
		t.Fatalf("Pack failed because of the content of an excluded directory: %v", err)
	}
	if len(meta.Files) != 1 || meta.Files[0] != "main.tf" {
		t.Fatalf("unexpected file list %q", meta.Files)
	}
}
