// place in: sourcebundle
package sourcebundle

import (
	"os"
	"path/filepath"
	"testing"
)

func TestMut1688LocalPathToSourceAndBack(t *testing.T) {
	dir := t.TempDir()
	manifest := `{"terraform_source_bundle":1,"packages":[{"source":"git::https://example.com/repo.git","local":"pkgdir"}]}`
	if err := os.WriteFile(filepath.Join(dir, "terraform-sources.json"), []byte(manifest), 0644); err != nil {
		t.Fatal(err)
	}
	if err := os.MkdirAll(filepath.Join(dir, "pkgdir", "sub"), 0755); err != nil {
		t.Fatal(err)
	}
	p := filepath.Join(dir, "pkgdir", "sub", "main.tf")
	if err := os.WriteFile(p, []byte("x"), 0644); err != nil {
		t.Fatal(err)
	}
	b, err := OpenDir(dir)
	if err != nil {
		t.Fatal(err)
	}
	addr, err := b.SourceForLocalPath(p)
	if err != nil {
		t.Fatalf("SourceForLocalPath(%q): %v", p, err)
	}
	if got, want := addr.String(), "git::https://example.com/repo.git//sub/main.tf"; got != want {
		t.Fatalf("got %q want %q", got, want)
	}
	back, err := b.LocalPathForSource(addr)
	if err != nil {
		t.Fatal(err)
	}
	want, _ := filepath.EvalSymlinks(p)
	got, _ := filepath.EvalSymlinks(back)
	if got != want {
		t.Fatalf("round trip gave %q, want %q", back, p)
	}
}
