// place in: sourcebundle
package sourcebundle_test

import (
	"context"
	"io/fs"
	"net/url"
	"os"
	"path/filepath"
	"testing"

	"github.com/hashicorp/go-slug/sourceaddrs"
	"github.com/hashicorp/go-slug/sourcebundle"
)

type mut2777Fetcher struct{}

func (mut2777Fetcher) FetchSourcePackage(ctx context.Context, sourceType string, u *url.URL, targetDir string) (sourcebundle.FetchSourcePackageResponse, error) {
	err := os.WriteFile(filepath.Join(targetDir, "main.txt"), []byte("hello\n"), 0o644)
	return sourcebundle.FetchSourcePackageResponse{}, err
}

type mut2777Finder struct{}

func (*mut2777Finder) FindDependencies(fsys fs.FS, subPath string, deps *sourcebundle.Dependencies) sourcebundle.Diagnostics {
	return nil
}

// C08: a build with a context that carries no tracer must work and the added
// source must be found in the finished bundle.
func TestMut2777BuildWithoutTracer(t *testing.T) {
	b, err := sourcebundle.NewBuilder(t.TempDir(), mut2777Fetcher{}, nil)
	if err != nil {
		t.Fatal(err)
	}
	src := sourceaddrs.MustParseSource("https://example.com/foo.tgz//main.txt").(sourceaddrs.RemoteSource)
	var diags sourcebundle.Diagnostics
	func() {
		defer func() {
			if r := recover(); r != nil {
				t.Fatalf("AddRemoteSource panicked without a tracer: %v", r)
			}
		}()
		diags = b.AddRemoteSource(context.Background(), src, &mut2777Finder{})
	}()
	if diags.HasErrors() {
		t.Fatalf("unexpected errors: %v", diags[0].Description())
	}
	bundle, err := b.Close()
	if err != nil {
		t.Fatal(err)
	}
	p, err := bundle.LocalPathForRemoteSource(src)
	if err != nil {
		t.Fatal(err)
	}
	got, err := os.ReadFile(p)
	if err != nil || string(got) != "hello\n" {
		t.Fatalf("content %q err %v", got, err)
	}
}
