// place in: .
package slug

import (
	"archive/tar"
	"bytes"
	"compress/gzip"
	"io"
	"os"
	"path/filepath"
	"runtime"
	"strings"
	"syscall"
	"testing"
)

var _ = runtime.LockOSThread
var _ = syscall.Setfsuid
var _ = strings.HasPrefix
var _ = filepath.Join

type mutEntry100274 struct {
	hdr  *tar.Header
	body string
}

func mutRead100274(t *testing.T, data []byte) []mutEntry100274 {
	t.Helper()
	gz, err := gzip.NewReader(bytes.NewReader(data))
	if err != nil {
		t.Fatal(err)
	}
	tr := tar.NewReader(gz)
	var out []mutEntry100274
	for {
		h, err := tr.Next()
		if err == io.EOF {
			break
		}
		if err != nil {
			t.Fatal(err)
		}
		b, err := io.ReadAll(tr)
		if err != nil {
			t.Fatal(err)
		}
		out = append(out, mutEntry100274{h, string(b)})
	}
	return out
}

func mutNames100274(es []mutEntry100274) []string {
	var n []string
	for _, e := range es {
		n = append(n, e.hdr.Name)
	}
	return n
}

func mutWrite100274(t *testing.T, path, content string) {
	t.Helper()
	if err := os.MkdirAll(filepath.Dir(path), 0755); err != nil {
		t.Fatal(err)
	}
	if err := os.WriteFile(path, []byte(content), 0644); err != nil {
		t.Fatal(err)
	}
}

// A dereferenced out-of-tree directory link is replaced by a copy of the
// directory at the link's own position.
func TestMut100274(t *testing.T) {
	base := t.TempDir()
	src := filepath.Join(base, "src")
	mutWrite100274(t, filepath.Join(src, "main.tf"), "main")
	mutWrite100274(t, filepath.Join(base, "ext", "file.txt"), "data")
	if err := os.Symlink("../ext", filepath.Join(src, "link")); err != nil {
		t.Fatal(err)
	}
	var buf bytes.Buffer
	if _, err := Pack(src, &buf, true); err != nil {
		t.Fatal(err)
	}
	es := mutRead100274(t, buf.Bytes())
	found := false
	for _, e := range es {
		if e.hdr.Name == "link/file.txt" && e.body == "data" {
			found = true
		}
	}
	if !found {
		t.Fatalf("link/file.txt missing from slug; entries: %q", mutNames100274(es))
	}
}
