// place in: sourceaddrs
package sourceaddrs

import (
	"testing"
)

// C06/C11: resolving a relative address must never hand out an address whose
// sub-path contains a question mark, because it would print to a string that
// parses back to a different address (the '?' starts the query string).
func TestMut101471ResolveRelativeQuestionMark(t *testing.T) {
	rel, err := ParseLocalSource("./a?ref=evil")
	if err != nil {
		t.Skipf("local source not accepted: %s", err)
	}
	bases := []string{
		"git::https://example.com/repo.git//modules",
		"example.com/foo/bar/baz//modules",
	}
	for _, baseStr := range bases {
		base, err := ParseSource(baseStr)
		if err != nil {
			t.Fatalf("%q: %s", baseStr, err)
		}
		got, err := ResolveRelativeSource(base, rel)
		if err != nil {
			continue // refusing is fine
		}
		str := got.String()
		back, err := ParseSource(str)
		if err != nil {
			t.Errorf("resolved %q + %q = %q which does not parse back: %s", baseStr, rel, str, err)
			continue
		}
		if back != got {
			t.Errorf("resolved %q + %q = %q which parses back to different address %q", baseStr, rel, str, back)
		}
	}
}
