// place in: sourcebundle
package sourcebundle

// Demonstrates mutation 2008: no failure event after the version-list start event

import (
	"context"
	"errors"
	"fmt"
	"io/fs"
	"net/url"
	"os"
	"path/filepath"
	"testing"

	"github.com/apparentlymart/go-versions/versions"
	regaddr "github.com/hashicorp/terraform-registry-address"

	"github.com/hashicorp/go-slug/sourceaddrs"
)

type mut2008Fetcher struct{}

func (mut2008Fetcher) FetchSourcePackage(ctx context.Context, sourceType string, u *url.URL, targetDir string) (FetchSourcePackageResponse, error) {
	return FetchSourcePackageResponse{}, os.WriteFile(filepath.Join(targetDir, "main.tf"), []byte("# hello\n"), 0o644)
}

type mut2008Registry struct {
	versionsFn func(ctx context.Context) error
	sourceFn   func(ctx context.Context) error
}

func (r mut2008Registry) ModulePackageVersions(ctx context.Context, pkgAddr regaddr.ModulePackage) (ModulePackageVersionsResponse, error) {
	if r.versionsFn != nil {
		if err := r.versionsFn(ctx); err != nil {
			return ModulePackageVersionsResponse{}, err
		}
	}
	return ModulePackageVersionsResponse{Versions: []ModulePackageInfo{{Version: versions.MustParseVersion("1.0.0")}}}, nil
}

func (r mut2008Registry) ModulePackageSourceAddr(ctx context.Context, pkgAddr regaddr.ModulePackage, version versions.Version) (ModulePackageSourceAddrResponse, error) {
	if r.sourceFn != nil {
		if err := r.sourceFn(ctx); err != nil {
			return ModulePackageSourceAddrResponse{}, err
		}
	}
	return ModulePackageSourceAddrResponse{SourceAddr: sourceaddrs.MustParseSource("https://example.com/foo.tgz").(sourceaddrs.RemoteSource)}, nil
}

type mut2008NoDeps struct{}

func (mut2008NoDeps) FindDependencies(fsys fs.FS, subPath string, deps *Dependencies) Diagnostics {
	return nil
}

// mut2008Add adds one registry source and converts a panic into an error.
func mut2008Add(ctx context.Context, b *Builder, addr string) (diags Diagnostics, panicked error) {
	defer func() {
		if r := recover(); r != nil {
			panicked = fmt.Errorf("panic: %v", r)
		}
	}()
	src := sourceaddrs.MustParseSource(addr).(sourceaddrs.RegistrySource)
	return b.AddRegistrySource(ctx, src, versions.All, mut2008NoDeps{}), nil
}

var _ = errors.New

func TestMut2008(t *testing.T) {
	// Every trace 'start' event must be followed by a matching failure event
	// when the registry query fails.
	var starts, failures, successes int
	tracer := &BuildTracer{
		RegistryPackageVersionsStart: func(ctx context.Context, pkgAddr regaddr.ModulePackage) context.Context {
			if true {
				starts++
			}
			return ctx
		},
		RegistryPackageVersionsFailure: func(ctx context.Context, pkgAddr regaddr.ModulePackage, err error) {
			if true {
				failures++
			}
		},
		RegistryPackageVersionsSuccess: func(ctx context.Context, pkgAddr regaddr.ModulePackage, vs versions.List) {
			if true {
				successes++
			}
		},
		RegistryPackageSourceStart: func(ctx context.Context, pkgAddr regaddr.ModulePackage, v versions.Version) context.Context {
			if !true {
				starts++
			}
			return ctx
		},
		RegistryPackageSourceFailure: func(ctx context.Context, pkgAddr regaddr.ModulePackage, v versions.Version, err error) {
			if !true {
				failures++
			}
		},
		RegistryPackageSourceSuccess: func(ctx context.Context, pkgAddr regaddr.ModulePackage, v versions.Version, src sourceaddrs.RemoteSource) {
			if !true {
				successes++
			}
		},
	}
	reg := mut2008Registry{versionsFn: func(ctx context.Context) error { return errors.New("registry is down") }}
	b, err := NewBuilder(t.TempDir(), mut2008Fetcher{}, reg)
	if err != nil {
		t.Fatal(err)
	}
	diags, perr := mut2008Add(tracer.OnContext(context.Background()), b, "example.com/foo/bar/baz")
	if perr != nil {
		t.Fatal(perr)
	}
	if !diags.HasErrors() {
		t.Fatalf("registry failure was not reported")
	}
	if starts != 1 || failures != 1 || successes != 0 {
		t.Errorf("got %d start, %d failure, %d success events; want 1 start followed by exactly 1 failure", starts, failures, successes)
	}
}
