// place in: sourceaddrs
package sourceaddrs

import (
	"strings"
	"testing"
)

// C19/C06: an accepted registry address must print without panicking and
// parse back to the same address.
func TestMut200383(t *testing.T) {
	for _, n := range []int{64, 100, 200, 300, 1000, 5000} {
		given := strings.Repeat("é", n) + ".example.com/foo/bar/baz"
		func() {
			defer func() {
				if r := recover(); r != nil {
					t.Fatalf("panic for label length %d: %v", n, r)
				}
			}()
			addr, err := ParseRegistrySource(given)
			if err != nil {
				return // rejected: fine
			}
			s := addr.String()
			again, err := ParseRegistrySource(s)
			if err != nil {
				t.Fatalf("label length %d: accepted but printed form %q does not parse: %v", n, s, err)
			}
			if again.String() != s {
				t.Fatalf("label length %d: not idempotent", n)
			}
		}()
	}
}
