// place in: sourceaddrs
package sourceaddrs

import "testing"

// C07: an address that breaks the transport policy must not be accepted.
func TestMut1013(t *testing.T) {
	for _, s := range []string{"git::http://example.com/x.git", "http://example.com/x.tgz", "git::https://user:pw@example.com/x.git", "bogus"} {
		if p, err := ParseRemotePackage(s); err == nil {
			t.Errorf("ParseRemotePackage(%q) accepted, gave %q", s, p.String())
		}
	}
}
