// place in: .
package slug

import (
	"bytes"
	"errors"
	"os"
	"path/filepath"
	"testing"
)

// C05: a relative link that climbs above the root and comes back through the
// root's own name does not point inside the archive root; Pack must refuse it.
func TestMut933_LinkThroughRootName(t *testing.T) {
	base := t.TempDir()
	src := filepath.Join(base, "src")
	if err := os.Mkdir(src, 0755); err != nil {
		t.Fatal(err)
	}
	if err := os.WriteFile(filepath.Join(src, "f"), []byte("x"), 0644); err != nil {
		t.Fatal(err)
	}
	if err := os.Symlink("../src/f", filepath.Join(src, "l")); err != nil {
		t.Fatal(err)
	}
	p, err := NewPacker()
	if err != nil {
		t.Fatal(err)
	}
	var buf bytes.Buffer
	_, err = p.Pack(src, &buf)
	var ise *IllegalSlugError
	if !errors.As(err, &ise) {
		t.Fatalf("expected an IllegalSlugError, got %v", err)
	}
}
