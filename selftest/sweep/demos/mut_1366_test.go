// place in: sourceaddrs
package sourceaddrs_test

import (
	"testing"

	"github.com/hashicorp/go-slug/sourceaddrs"
)

// C06: every registry package address that ParseRegistryPackage accepts prints
// to a string that parses back to a registry address of that same package.
func TestMut1366(t *testing.T) {
	if _, err := sourceaddrs.ParseRegistryPackage("hashicorp/foo/aws"); err != nil {
		t.Fatalf("valid address rejected: %s", err)
	}
	for _, in := range []string{"github.com/a/b/c", "foo", "a/b", "a/b/c/d/e", "a/b/c?x=y", "a/b/c//x/../y"} {
		pkg, err := sourceaddrs.ParseRegistryPackage(in)
		if err != nil {
			continue // rejected, fine
		}
		printed := pkg.String()
		back, err := sourceaddrs.ParseSource(printed)
		if err != nil {
			t.Errorf("ParseRegistryPackage(%q) was accepted and prints as %q, which does not parse back: %s", in, printed, err)
			continue
		}
		reg, ok := back.(sourceaddrs.RegistrySource)
		if !ok || reg.Package() != pkg || reg.SubPath() != "" {
			t.Errorf("ParseRegistryPackage(%q) prints as %q, which parses back to a different value %#v", in, printed, back)
		}
	}
}
