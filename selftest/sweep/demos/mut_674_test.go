// place in: .
package slug

import (
	"bytes"
	"fmt"
	"os"
	"path/filepath"
	"runtime"
	"runtime/debug"
	"syscall"
	"testing"
)

// Pack must close every file it opens: with the garbage collector switched
// off (GOGC=off, so no finalizer rescues leaked descriptors) a tree with more
// files than the descriptor limit must still pack.
func TestMut674PackClosesFiles(t *testing.T) {
	src := t.TempDir()
	const n = 400
	for i := 0; i < n; i++ {
		if err := os.WriteFile(filepath.Join(src, fmt.Sprintf("f%04d.txt", i)), []byte("x"), 0o644); err != nil {
			t.Fatal(err)
		}
	}

	runtime.GC()
	old := debug.SetGCPercent(-1)
	defer debug.SetGCPercent(old)

	var lim syscall.Rlimit
	if err := syscall.Getrlimit(syscall.RLIMIT_NOFILE, &lim); err != nil {
		t.Fatal(err)
	}
	low := lim
	low.Cur = 128
	if err := syscall.Setrlimit(syscall.RLIMIT_NOFILE, &low); err != nil {
		t.Fatal(err)
	}
	defer syscall.Setrlimit(syscall.RLIMIT_NOFILE, &lim)

	before := countFDs(t)
	var buf bytes.Buffer
	meta, err := Pack(src, &buf, false)
	if err != nil {
		t.Fatalf("Pack of %d files failed: %v", n, err)
	}
	after := countFDs(t)
	if len(meta.Files) != n {
		t.Fatalf("packed %d files, want %d", len(meta.Files), n)
	}
	if after > before {
		t.Fatalf("Pack leaked %d file descriptors", after-before)
	}
}

func countFDs(t *testing.T) int {
	t.Helper()
	d, err := os.Open("/proc/self/fd")
	if err != nil {
		t.Skip("no /proc/self/fd")
	}
	defer d.Close()
	names, err := d.Readdirnames(-1)
	if err != nil {
		t.Fatal(err)
	}
	return len(names)
}
