// place in: .
package slug

import (
	"archive/tar"
	"bytes"
	"compress/gzip"
	"io"
	"os"
	"path/filepath"
	"testing"
)

// A dereferenced out-of-tree link must be stored as a copy of the file it
// points to, with that file's permission bits (not the link's 0777).
func TestMut651DereferencedCopyKeepsTargetMode(t *testing.T) {
	base := t.TempDir()
	src := filepath.Join(base, "src")
	outside := filepath.Join(base, "outside")
	if err := os.MkdirAll(src, 0o755); err != nil {
		t.Fatal(err)
	}
	if err := os.MkdirAll(outside, 0o755); err != nil {
		t.Fatal(err)
	}
	target := filepath.Join(outside, "secret.txt")
	if err := os.WriteFile(target, []byte("hello"), 0o600); err != nil {
		t.Fatal(err)
	}
	if err := os.Chmod(target, 0o600); err != nil {
		t.Fatal(err)
	}
	if err := os.Symlink(target, filepath.Join(src, "link")); err != nil {
		t.Fatal(err)
	}

	p, err := NewPacker(DereferenceSymlinks())
	if err != nil {
		t.Fatal(err)
	}
	var buf bytes.Buffer
	if _, err := p.Pack(src, &buf); err != nil {
		t.Fatalf("Pack: %v", err)
	}

	// Check the header.
	gz, err := gzip.NewReader(bytes.NewReader(buf.Bytes()))
	if err != nil {
		t.Fatal(err)
	}
	tr := tar.NewReader(gz)
	found := false
	for {
		h, err := tr.Next()
		if err == io.EOF {
			break
		}
		if err != nil {
			t.Fatal(err)
		}
		if h.Name == "link" {
			found = true
			if h.Mode&0o777 != 0o600 {
				t.Fatalf("dereferenced copy has mode %o, want the target's 600", h.Mode&0o777)
			}
		}
	}
	if !found {
		t.Fatal("entry 'link' not found in slug")
	}

	// And what Unpack makes of it.
	dst := filepath.Join(base, "dst")
	if err := os.MkdirAll(dst, 0o755); err != nil {
		t.Fatal(err)
	}
	if err := Unpack(bytes.NewReader(buf.Bytes()), dst); err != nil {
		t.Fatalf("Unpack: %v", err)
	}
	fi, err := os.Lstat(filepath.Join(dst, "link"))
	if err != nil {
		t.Fatal(err)
	}
	if fi.Mode().Perm() != 0o600 {
		t.Fatalf("unpacked copy has mode %o, want 600", fi.Mode().Perm())
	}
}
