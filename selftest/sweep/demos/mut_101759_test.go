// place in: sourcebundle
package sourcebundle_test

import (
	"context"
	"fmt"
	"io/fs"
	"net/url"
	"os"
	"path/filepath"
	"testing"

	"github.com/hashicorp/go-slug/sourceaddrs"
	"github.com/hashicorp/go-slug/sourcebundle"
)

type fetcher101759 func(dir string) error

func (f fetcher101759) FetchSourcePackage(ctx context.Context, sourceType string, u *url.URL, targetDir string) (sourcebundle.FetchSourcePackageResponse, error) {
	return sourcebundle.FetchSourcePackageResponse{}, f(targetDir)
}

type noDeps101759 struct{}

func (noDeps101759) FindDependencies(fsys fs.FS, subPath string, deps *sourcebundle.Dependencies) sourcebundle.Diagnostics {
	return nil
}

// build101759 builds a bundle in targetDir from one remote package whose
// content is produced by populate, and returns the package directory.
func build101759(targetDir string, populate func(dir string) error) (string, error) {
	b, err := sourcebundle.NewBuilder(targetDir, fetcher101759(populate), nil)
	if err != nil {
		return "", err
	}
	src := sourceaddrs.MustParseSource("https://example.com/pkg.tgz").(sourceaddrs.RemoteSource)
	diags := b.AddRemoteSource(context.Background(), src, noDeps101759{})
	if diags.HasErrors() {
		msg := ""
		for _, d := range diags {
			msg += d.Description().Summary + ": " + d.Description().Detail + "; "
		}
		return "", fmt.Errorf("build failed: %s", msg)
	}
	bundle, err := b.Close()
	if err != nil {
		return "", err
	}
	return bundle.LocalPathForRemoteSource(src)
}

var _ = filepath.Join
var _ = os.Lstat

// The rule "*/" excludes every directory with its content, but not the files
// at the top of the package. The package root itself is never subject to the
// rules.
func TestMut101759_RootNotSubjectToRules(t *testing.T) {
	target := t.TempDir()
	dir, err := build101759(target, func(dir string) error {
		if err := os.WriteFile(filepath.Join(dir, ".terraformignore"), []byte("*/\n"), 0644); err != nil {
			return err
		}
		if err := os.MkdirAll(filepath.Join(dir, "sub"), 0755); err != nil {
			return err
		}
		if err := os.WriteFile(filepath.Join(dir, "sub", "x.tf"), []byte("x"), 0644); err != nil {
			return err
		}
		return os.WriteFile(filepath.Join(dir, "main.tf"), []byte("main"), 0644)
	})
	if err != nil {
		t.Fatalf("build failed: %v", err)
	}
	if _, err := os.Lstat(filepath.Join(dir, "main.tf")); err != nil {
		t.Errorf("main.tf is not excluded but is missing: %v", err)
	}
	if _, err := os.Lstat(filepath.Join(dir, "sub", "x.tf")); err == nil {
		t.Errorf("sub/x.tf is excluded but present")
	}
}
