// place in: sourceaddrs
package sourceaddrs

import "testing"

func TestMut1470ShorthandErrorReported(t *testing.T) {
	for _, in := range []string{"github.com/foo", "gitlab.com/foo"} {
		got, err := ParseRemoteSource(in)
		if err == nil {
			t.Fatalf("ParseRemoteSource(%q) accepted an incomplete shorthand address; source type %q, prints as %q", in, got.Package().SourceType(), got.String())
		}
	}
}
