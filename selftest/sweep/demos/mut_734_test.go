// place in: .
package slug

import (
	"strings"
	"testing"
)

// C12/C19: a stream that is not gzip makes Unpack return an error, not panic.
func TestMut734_NotGzip(t *testing.T) {
	dst := t.TempDir()
	var err error
	func() {
		defer func() {
			if r := recover(); r != nil {
				t.Fatalf("Unpack panicked: %v", r)
			}
		}()
		err = Unpack(strings.NewReader("this is certainly not a gzip stream"), dst)
	}()
	if err == nil {
		t.Fatal("expected an error for a non-gzip stream")
	}
}
