// place in: .
package slug

import (
	"archive/tar"
	"bytes"
	"compress/gzip"
	"io"
	"os"
	"path/filepath"
	"testing"
)

type mutEntry100389 struct {
	hdr  *tar.Header
	body string
}

func mutPack100389(t *testing.T, root string) (map[string]mutEntry100389, *Meta) {
	t.Helper()
	p, err := NewPacker(DereferenceSymlinks())
	if err != nil {
		t.Fatal(err)
	}
	var buf bytes.Buffer
	meta, err := p.Pack(root, &buf)
	if err != nil {
		t.Fatalf("Pack failed: %v", err)
	}
	gz, err := gzip.NewReader(&buf)
	if err != nil {
		t.Fatal(err)
	}
	tr := tar.NewReader(gz)
	out := map[string]mutEntry100389{}
	for {
		h, err := tr.Next()
		if err == io.EOF {
			break
		}
		if err != nil {
			t.Fatal(err)
		}
		b, err := io.ReadAll(tr)
		if err != nil {
			t.Fatal(err)
		}
		out[h.Name] = mutEntry100389{h, string(b)}
	}
	return out, meta
}

func mutWrite100389(t *testing.T, path, content string, mode os.FileMode) {
	t.Helper()
	if err := os.MkdirAll(filepath.Dir(path), 0o755); err != nil {
		t.Fatal(err)
	}
	if err := os.WriteFile(path, []byte(content), mode); err != nil {
		t.Fatal(err)
	}
	if err := os.Chmod(path, mode); err != nil {
		t.Fatal(err)
	}
}

// A link inside a dereferenced out-of-tree directory that itself leaves the
// slug must be replaced by a copy of what it points to on disk.
func TestMut100389(t *testing.T) {
	T := t.TempDir()
	root := filepath.Join(T, "a", "root")
	mutWrite100389(t, filepath.Join(root, "main.tf"), "x", 0o644)
	mutWrite100389(t, filepath.Join(T, "b", "x", "file"), "REAL", 0o640)
	mutWrite100389(t, filepath.Join(T, "a", "x", "file"), "FAKE", 0o600)
	if err := os.MkdirAll(filepath.Join(T, "b", "c", "dir"), 0o755); err != nil {
		t.Fatal(err)
	}
	if err := os.Symlink("../../x/file", filepath.Join(T, "b", "c", "dir", "link")); err != nil {
		t.Fatal(err)
	}
	if err := os.Symlink(filepath.Join(T, "b", "c", "dir"), filepath.Join(root, "ext")); err != nil {
		t.Fatal(err)
	}
	ents, _ := mutPack100389(t, root)
	e, ok := ents["ext/link"]
	if !ok {
		t.Fatalf("ext/link missing; have %v", ents)
	}
	if e.hdr.Typeflag != tar.TypeReg || e.body != "REAL" || e.hdr.Mode != 0o640 {
		t.Fatalf("ext/link: type %c body %q mode %o; want regular REAL 640", e.hdr.Typeflag, e.body, e.hdr.Mode)
	}
}
