// place in: sourcebundle
package sourcebundle_test

import (
	"context"
	"fmt"
	"io/fs"
	"net/url"
	"os"
	"path/filepath"
	"testing"

	"github.com/hashicorp/go-slug/sourceaddrs"
	"github.com/hashicorp/go-slug/sourcebundle"
)

type fetcher101765 func(dir string) error

func (f fetcher101765) FetchSourcePackage(ctx context.Context, sourceType string, u *url.URL, targetDir string) (sourcebundle.FetchSourcePackageResponse, error) {
	return sourcebundle.FetchSourcePackageResponse{}, f(targetDir)
}

type noDeps101765 struct{}

func (noDeps101765) FindDependencies(fsys fs.FS, subPath string, deps *sourcebundle.Dependencies) sourcebundle.Diagnostics {
	return nil
}

// build101765 builds a bundle in targetDir from one remote package whose
// content is produced by populate, and returns the package directory.
func build101765(targetDir string, populate func(dir string) error) (string, error) {
	b, err := sourcebundle.NewBuilder(targetDir, fetcher101765(populate), nil)
	if err != nil {
		return "", err
	}
	src := sourceaddrs.MustParseSource("https://example.com/pkg.tgz").(sourceaddrs.RemoteSource)
	diags := b.AddRemoteSource(context.Background(), src, noDeps101765{})
	if diags.HasErrors() {
		msg := ""
		for _, d := range diags {
			msg += d.Description().Summary + ": " + d.Description().Detail + "; "
		}
		return "", fmt.Errorf("build failed: %s", msg)
	}
	bundle, err := b.Close()
	if err != nil {
		return "", err
	}
	return bundle.LocalPathForRemoteSource(src)
}

var _ = filepath.Join
var _ = os.Lstat

// An invalid rule in .terraformignore makes the build fail, also when every
// file of the package happens to be excluded by the valid rules.
func TestMut101765_InvalidRuleReported(t *testing.T) {
	target := t.TempDir()
	_, err := build101765(target, func(dir string) error {
		if err := os.WriteFile(filepath.Join(dir, ".terraformignore"), []byte("*\n[a\n"), 0644); err != nil {
			return err
		}
		return os.WriteFile(filepath.Join(dir, "main.tf"), []byte("main"), 0644)
	})
	if err == nil {
		t.Fatalf("build succeeded although .terraformignore contains the invalid rule \"[a\"")
	}
}
