// place in: sourcebundle
package sourcebundle

import (
	"os"
	"path/filepath"
	"testing"

	"github.com/apparentlymart/go-versions/versions"
)

// C09: opening the same bundle directory again gives the same bundle. Two
// keys spelling one version ("1.0.0" and "1.0") must be refused, otherwise
// which source address wins depends on map iteration order and repeated
// opens of the same directory disagree.
func TestMut2539(t *testing.T) {
	dir := t.TempDir()
	manifest := `{"terraform_source_bundle":1,"registry":[{"source":"example.com/foo/bar/baz","versions":{"1.0.0":{"source":"https://example.com/a.tgz"},"1.0":{"source":"https://example.com/b.tgz"}}}]}`
	if err := os.WriteFile(filepath.Join(dir, "terraform-sources.json"), []byte(manifest), 0644); err != nil {
		t.Fatal(err)
	}
	seen := map[string]bool{}
	for i := 0; i < 200; i++ {
		b, err := OpenDir(dir)
		if err != nil {
			return // refused: fine
		}
		pkg := b.RegistryPackages()[0]
		addr, _ := b.RegistryPackageSourceAddr(pkg, versions.MustParseVersion("1.0.0"))
		seen[addr.String()] = true
	}
	t.Fatalf("manifest with two spellings of version 1.0.0 accepted; repeated opens returned source addresses %v", seen)
}
