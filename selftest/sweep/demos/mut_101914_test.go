// place in: sourcebundle
package sourcebundle_test

import (
	"context"
	"fmt"
	"io/fs"
	"net/url"
	"os"
	"path/filepath"
	"syscall"
	"testing"

	"github.com/hashicorp/go-slug/sourceaddrs"
	"github.com/hashicorp/go-slug/sourcebundle"
)

var _ = syscall.Mkfifo
var _ = filepath.Join
var _ = os.Symlink

type fetcher101914 struct {
	populate func(dir string) error
}

func (f fetcher101914) FetchSourcePackage(ctx context.Context, sourceType string, u *url.URL, targetDir string) (sourcebundle.FetchSourcePackageResponse, error) {
	return sourcebundle.FetchSourcePackageResponse{}, f.populate(targetDir)
}

type noDeps101914 struct{}

func (noDeps101914) FindDependencies(fsys fs.FS, subPath string, deps *sourcebundle.Dependencies) sourcebundle.Diagnostics {
	return nil
}

func build101914(t *testing.T, targetDir string, populate func(dir string) error) (*sourcebundle.Bundle, sourceaddrs.RemoteSource, error) {
	t.Helper()
	b, err := sourcebundle.NewBuilder(targetDir, fetcher101914{populate}, nil)
	if err != nil {
		t.Fatal(err)
	}
	src := sourceaddrs.MustParseSource("https://example.com/foo.tgz").(sourceaddrs.RemoteSource)
	diags := b.AddRemoteSource(context.Background(), src, noDeps101914{})
	if diags.HasErrors() {
		d := diags[0].Description()
		return nil, src, fmt.Errorf("%s: %s", d.Summary, d.Detail)
	}
	bundle, err := b.Close()
	return bundle, src, err
}

func TestMut101914_SpecialFileRejected(t *testing.T) {
	targetDir := filepath.Join(t.TempDir(), "bundle")
	if err := os.Mkdir(targetDir, 0755); err != nil {
		t.Fatal(err)
	}
	var pipePath string
	writerDone := make(chan struct{})
	_, _, err := build101914(t, targetDir, func(dir string) error {
		if err := os.WriteFile(filepath.Join(dir, "real.txt"), []byte("hello"), 0644); err != nil {
			return err
		}
		pipePath = filepath.Join(dir, "pipe")
		if err := syscall.Mkfifo(pipePath, 0644); err != nil {
			return err
		}
		// If the builder wrongly accepts the fifo it goes on to open it for
		// reading while checksumming the package, which would block forever.
		// This writer rendezvouses with such a reader and closes at once, so
		// the reader sees an empty file instead of hanging the test.
		go func() {
			defer close(writerDone)
			if w, err := os.OpenFile(pipePath, os.O_WRONLY, 0); err == nil {
				w.Close()
			}
		}()
		return nil
	})
	// Release the writer if nobody opened the fifo (the expected case).
	if r, oerr := os.OpenFile(pipePath, os.O_RDONLY|syscall.O_NONBLOCK, 0); oerr == nil {
		<-writerDone
		r.Close()
	}
	if err == nil {
		t.Fatalf("build succeeded although the package contains a fifo")
	}
	t.Logf("rejected as expected: %s", err)
}
