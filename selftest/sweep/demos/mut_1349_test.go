// place in: sourceaddrs
package sourceaddrs_test

import (
	"strings"
	"testing"

	"github.com/hashicorp/go-slug/sourceaddrs"
)

// C19: parsing any string as a registry address and printing the result must
// not panic. A host label of thousands of non-ASCII characters must be
// rejected, because the hostname type panics when asked to print it.
func TestMut1349(t *testing.T) {
	in := strings.Repeat("ü", 2000) + ".com/a/b/c"
	defer func() {
		if r := recover(); r != nil {
			t.Fatalf("panic while parsing and printing a registry address: %v", r)
		}
	}()
	for _, parse := range []func(string) (sourceaddrs.Source, error){
		sourceaddrs.ParseSource,
		func(s string) (sourceaddrs.Source, error) { return sourceaddrs.ParseRegistrySource(s) },
	} {
		addr, err := parse(in)
		if err != nil {
			continue
		}
		_ = addr.String()
	}
}
