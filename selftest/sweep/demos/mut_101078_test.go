// place in: sourceaddrs
package sourceaddrs_test

import (
	"testing"

	"github.com/hashicorp/go-slug/sourceaddrs"
)

// C06: a registry source with a sub-path on a non-default host prints to a
// string that parses back to an equal value.
func TestMut101078_RegistrySubPathRoundTrip(t *testing.T) {
	in := "example.com/ns/name/sys//sub/dir"
	s, err := sourceaddrs.ParseRegistrySource(in)
	if err != nil {
		t.Fatal(err)
	}
	again, err := sourceaddrs.ParseSource(s.String())
	if err != nil {
		t.Fatalf("printed form %q does not parse: %v", s.String(), err)
	}
	if again != sourceaddrs.Source(s) {
		t.Fatalf("%q printed as %q which parses to a different address %q", in, s.String(), again.String())
	}
	other, _ := sourceaddrs.ParseRegistrySource("registry.terraform.io/ns/name/sys//sub/dir")
	if other != s && other.String() == s.String() {
		t.Fatalf("two different addresses print the same: %q", s.String())
	}
}
