// place in: .
package slug

import (
	"bytes"
	"compress/gzip"
	"testing"
)

// A gzip stream whose content is not a valid tar archive must make Unpack
// return an error, not panic (C19 / C12).
func TestMut100581CorruptTarDoesNotPanic(t *testing.T) {
	var buf bytes.Buffer
	zw := gzip.NewWriter(&buf)
	garbage := bytes.Repeat([]byte{0x41}, 1024) // non-zero block with a bad header checksum
	if _, err := zw.Write(garbage); err != nil {
		t.Fatal(err)
	}
	if err := zw.Close(); err != nil {
		t.Fatal(err)
	}

	var err error
	func() {
		defer func() {
			if r := recover(); r != nil {
				t.Fatalf("Unpack panicked on a corrupt tar stream: %v", r)
			}
		}()
		err = Unpack(&buf, t.TempDir())
	}()
	if err == nil {
		t.Fatal("Unpack accepted a corrupt tar stream")
	}
}
