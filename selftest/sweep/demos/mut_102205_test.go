// place in: sourcebundle
package sourcebundle_test

import (
	"context"
	"io/fs"
	"net/url"
	"os"
	"path/filepath"
	"testing"

	"github.com/apparentlymart/go-versions/versions"
	regaddr "github.com/hashicorp/terraform-registry-address"

	"github.com/hashicorp/go-slug/sourceaddrs"
	"github.com/hashicorp/go-slug/sourcebundle"
)

type mut102205Fetcher struct{}

func (mut102205Fetcher) FetchSourcePackage(ctx context.Context, sourceType string, u *url.URL, targetDir string) (sourcebundle.FetchSourcePackageResponse, error) {
	var ret sourcebundle.FetchSourcePackageResponse
	if err := os.MkdirAll(filepath.Join(targetDir, "sub"), 0755); err != nil {
		return ret, err
	}
	return ret, os.WriteFile(filepath.Join(targetDir, "sub", "main.tf"), []byte("x\n"), 0644)
}

type mut102205Registry struct{}

func (mut102205Registry) ModulePackageVersions(ctx context.Context, pkgAddr regaddr.ModulePackage) (sourcebundle.ModulePackageVersionsResponse, error) {
	return sourcebundle.ModulePackageVersionsResponse{}, nil
}

func (mut102205Registry) ModulePackageSourceAddr(ctx context.Context, pkgAddr regaddr.ModulePackage, version versions.Version) (sourcebundle.ModulePackageSourceAddrResponse, error) {
	return sourcebundle.ModulePackageSourceAddrResponse{}, nil
}

type mut102205Diag struct{}

func (mut102205Diag) Severity() sourcebundle.DiagSeverity { return sourcebundle.DiagWarning }
func (mut102205Diag) Description() sourcebundle.DiagDescription {
	return sourcebundle.DiagDescription{Summary: "warn", Detail: "something"}
}
func (mut102205Diag) Source() sourcebundle.DiagSource {
	return sourcebundle.DiagSource{
		Subject: &sourcebundle.SourceRange{Filename: "sub/main.tf"},
		Context: &sourcebundle.SourceRange{Filename: "sub/main.tf"},
	}
}
func (mut102205Diag) ExtraInfo() interface{} { return nil }

type mut102205Finder struct{}

func (mut102205Finder) FindDependencies(fsys fs.FS, subPath string, deps *sourcebundle.Dependencies) sourcebundle.Diagnostics {
	return sourcebundle.Diagnostics{mut102205Diag{}}
}

// File names in finder diagnostics must be rewritten as source addresses
// inside the analysed package (C12), for both Subject and Context.
func TestMut102205DiagFilenamesBecomeSourceAddrs(t *testing.T) {
	b, err := sourcebundle.NewBuilder(t.TempDir(), mut102205Fetcher{}, mut102205Registry{})
	if err != nil {
		t.Fatal(err)
	}
	src := sourceaddrs.MustParseSource("git::https://example.com/foo.git//sub").(sourceaddrs.RemoteSource)
	diags := b.AddRemoteSource(context.Background(), src, mut102205Finder{})
	if len(diags) != 1 {
		t.Fatalf("got %d diagnostics, want 1", len(diags))
	}
	const want = "git::https://example.com/foo.git//sub/main.tf"
	got := diags[0].Source()
	if got.Subject == nil || got.Subject.Filename != want {
		t.Errorf("Subject = %+v, want filename %q", got.Subject, want)
	}
	if got.Context == nil || got.Context.Filename != want {
		t.Errorf("Context = %+v, want filename %q", got.Context, want)
	}
}
