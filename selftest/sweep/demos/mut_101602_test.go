// place in: sourcebundle
package sourcebundle

// Edit 101602: the RegistryPackageSourceSuccess trace callback must receive the context returned by the
// matching Start callback (that is how a tracer pairs a start with its end).

import (
	"context"
	"errors"
	"io/fs"
	"net/url"
	"os"
	"path/filepath"
	"testing"

	"github.com/apparentlymart/go-versions/versions"
	"github.com/hashicorp/go-slug/sourceaddrs"
	regaddr "github.com/hashicorp/terraform-registry-address"
)

type spanKey101602 struct{}

type fetcher101602 struct{}

func (fetcher101602) FetchSourcePackage(ctx context.Context, sourceType string, u *url.URL, targetDir string) (FetchSourcePackageResponse, error) {
	return FetchSourcePackageResponse{}, os.WriteFile(filepath.Join(targetDir, "main.tf"), []byte("# hi\n"), 0o644)
}

type registry101602 struct {
	failVersions, failSource bool
}

func (r registry101602) ModulePackageVersions(ctx context.Context, pkgAddr regaddr.ModulePackage) (ModulePackageVersionsResponse, error) {
	if r.failVersions {
		return ModulePackageVersionsResponse{}, errors.New("versions unavailable")
	}
	return ModulePackageVersionsResponse{Versions: []ModulePackageInfo{{Version: versions.MustParseVersion("1.0.0")}}}, nil
}

func (r registry101602) ModulePackageSourceAddr(ctx context.Context, pkgAddr regaddr.ModulePackage, version versions.Version) (ModulePackageSourceAddrResponse, error) {
	if r.failSource {
		return ModulePackageSourceAddrResponse{}, errors.New("source unavailable")
	}
	return ModulePackageSourceAddrResponse{SourceAddr: sourceaddrs.MustParseSource("https://example.com/foo.tgz").(sourceaddrs.RemoteSource)}, nil
}

type noDeps101602 struct{}

func (noDeps101602) FindDependencies(fsys fs.FS, subPath string, deps *Dependencies) Diagnostics {
	return nil
}

func TestMut101602(t *testing.T) {
	b, err := NewBuilder(t.TempDir(), fetcher101602{}, registry101602{failVersions: false, failSource: false})
	if err != nil {
		t.Fatal(err)
	}
	calls := 0
	paired := 0
	check := func(ctx context.Context) {
		calls++
		if ctx.Value(spanKey101602{}) == "source" {
			paired++
		}
	}
	tracer := &BuildTracer{
		RegistryPackageVersionsStart: func(ctx context.Context, pkgAddr regaddr.ModulePackage) context.Context {
			return context.WithValue(ctx, spanKey101602{}, "versions")
		},
		RegistryPackageSourceStart: func(ctx context.Context, pkgAddr regaddr.ModulePackage, v versions.Version) context.Context {
			return context.WithValue(ctx, spanKey101602{}, "source")
		},
		RegistryPackageSourceSuccess: func(ctx context.Context, pkgAddr regaddr.ModulePackage, v versions.Version, a sourceaddrs.RemoteSource) { check(ctx) },
	}
	ctx := tracer.OnContext(context.Background())
	addr := sourceaddrs.MustParseSource("example.com/foo/bar/baz").(sourceaddrs.RegistrySource)
	diags := b.AddRegistrySource(ctx, addr, versions.All, noDeps101602{})
	if got, want := diags.HasErrors(), false; got != want {
		t.Fatalf("HasErrors = %v, want %v", got, want)
	}
	if calls != 1 {
		t.Fatalf("RegistryPackageSourceSuccess called %d times, want 1", calls)
	}
	if paired != 1 {
		t.Fatalf("RegistryPackageSourceSuccess did not receive the context returned by its Start callback: the start event has no matching end event")
	}
}
