// place in: .
package slug

import (
	"bytes"
	"os"
	"path/filepath"
	"testing"
	"time"
)

// The source is a link that is part of a cycle (a -> b -> a). Pack has to
// give up with an error; it must not spin forever (C19).
func TestMut470_RootSymlinkCycleTerminates(t *testing.T) {
	dir := t.TempDir()
	a := filepath.Join(dir, "a")
	b := filepath.Join(dir, "b")
	if err := os.Symlink(b, a); err != nil {
		t.Fatal(err)
	}
	if err := os.Symlink(a, b); err != nil {
		t.Fatal(err)
	}
	done := make(chan error, 1)
	go func() {
		_, err := Pack(a, &bytes.Buffer{}, false)
		done <- err
	}()
	select {
	case err := <-done:
		if err == nil {
			t.Fatalf("expected an error for a symlink cycle at the root")
		}
	case <-time.After(20 * time.Second):
		t.Fatalf("Pack did not return for a root that is a symlink cycle")
	}
}
