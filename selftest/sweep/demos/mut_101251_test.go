// place in: sourceaddrs
package sourceaddrs

import (
	"net/url"
	"testing"
)

func TestMut101251MakeRemoteSourceUsesSourceType(t *testing.T) {
	u, err := url.Parse("https://example.com/repo.git")
	if err != nil {
		t.Fatal(err)
	}
	for _, sub := range []string{"", "modules/foo"} {
		got, err := MakeRemoteSource("git", u, sub)
		if err != nil {
			t.Fatalf("sub-path %q: address following the grammar was refused: %v", sub, err)
		}
		if got.Package().SourceType() != "git" {
			t.Errorf("sub-path %q: source type = %q, want git", sub, got.Package().SourceType())
		}
		back, err := ParseRemoteSource(got.String())
		if err != nil || back != got {
			t.Errorf("sub-path %q: %q does not parse back (%v)", sub, got.String(), err)
		}
	}
}
