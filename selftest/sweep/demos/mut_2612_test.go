// place in: sourcebundle
package sourcebundle

import (
	"os"
	"path/filepath"
	"testing"

	"github.com/hashicorp/go-slug/sourceaddrs"
)

func TestMut2612_SourceForLocalPathRoundTrip(t *testing.T) {
	root := t.TempDir()
	manifest := `{"terraform_source_bundle":1,"packages":[{"source":"git::https://example.com/repo.git","local":"pkgdir"}]}`
	if err := os.WriteFile(filepath.Join(root, "terraform-sources.json"), []byte(manifest), 0o644); err != nil {
		t.Fatal(err)
	}
	if err := os.MkdirAll(filepath.Join(root, "pkgdir", "sub"), 0o755); err != nil {
		t.Fatal(err)
	}
	b, err := OpenDir(root)
	if err != nil {
		t.Fatal(err)
	}
	pkg, err := sourceaddrs.ParseRemotePackage("git::https://example.com/repo.git")
	if err != nil {
		t.Fatal(err)
	}
	for _, sub := range []string{"", "sub", "sub/file.tf", "a/b/c"} {
		want := pkg.SourceAddr(sub)
		local, err := b.LocalPathForSource(want)
		if err != nil {
			t.Fatal(err)
		}
		got, err := b.SourceForLocalPath(local)
		if err != nil {
			t.Errorf("SourceForLocalPath(%q): unexpected error: %v", local, err)
			continue
		}
		if got.String() != want.String() {
			t.Errorf("SourceForLocalPath(%q) = %q, want %q", local, got.String(), want.String())
			continue
		}
		back, err := b.LocalPathForSource(got)
		if err != nil || back != local {
			t.Errorf("round trip of %q gave %q, %v", local, back, err)
		}
	}
	for _, outside := range []string{root, filepath.Dir(root), filepath.Join(root, "other"), filepath.Join(root, "other", "x"), filepath.Join(root, "terraform-sources.json")} {
		func() {
			defer func() {
				if r := recover(); r != nil {
					t.Errorf("SourceForLocalPath(%q) panicked: %v", outside, r)
				}
			}()
			got, err := b.SourceForLocalPath(outside)
			if err == nil {
				t.Errorf("SourceForLocalPath(%q) = %v, want error (not part of any package)", outside, got)
			}
		}()
	}
}
