// place in: sourceaddrs
package sourceaddrs

import "testing"

// C07: an https archive address needs a path ending in .tar.gz or .tgz
// (or an archive argument).
func TestMut200462(t *testing.T) {
	for _, given := range []string{"https://example.com/footgz", "https://example.com/tgz"} {
		if addr, err := ParseRemoteSource(given); err == nil {
			t.Fatalf("%q accepted as %s", given, addr)
		}
	}
	if _, err := ParseRemoteSource("https://example.com/foo.tgz"); err != nil {
		t.Fatal(err)
	}
}
