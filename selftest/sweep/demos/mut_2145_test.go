// place in: sourcebundle
package sourcebundle_test

import (
	"context"
	"github.com/hashicorp/go-slug/sourceaddrs"
	"github.com/hashicorp/go-slug/sourcebundle"
	"io/fs"
	"net/url"
	"os"
	"path/filepath"
	"testing"
)

type mutFetcher2145 func(ctx context.Context, sourceType string, u *url.URL, targetDir string) (sourcebundle.FetchSourcePackageResponse, error)

func (f mutFetcher2145) FetchSourcePackage(ctx context.Context, sourceType string, u *url.URL, targetDir string) (sourcebundle.FetchSourcePackageResponse, error) {
	return f(ctx, sourceType, u, targetDir)
}

type mutNoDeps2145 struct{}

func (mutNoDeps2145) FindDependencies(fsys fs.FS, subPath string, deps *sourcebundle.Dependencies) sourcebundle.Diagnostics {
	return nil
}

// A package whose .terraformignore cannot be read as a rule file must not be
// accepted with no ignore rules at all (not even the built-in .git exclusion).
func TestMut2145_UnreadableIgnoreFile(t *testing.T) {
	src := sourceaddrs.MustParseSource("git::https://example.com/foo.git").(sourceaddrs.RemoteSource)
	fetcher := mutFetcher2145(func(ctx context.Context, sourceType string, u *url.URL, targetDir string) (sourcebundle.FetchSourcePackageResponse, error) {
		if err := os.MkdirAll(filepath.Join(targetDir, ".terraformignore"), 0755); err != nil {
			return sourcebundle.FetchSourcePackageResponse{}, err
		}
		if err := os.MkdirAll(filepath.Join(targetDir, ".git"), 0755); err != nil {
			return sourcebundle.FetchSourcePackageResponse{}, err
		}
		if err := os.WriteFile(filepath.Join(targetDir, ".git", "config"), []byte("secret"), 0644); err != nil {
			return sourcebundle.FetchSourcePackageResponse{}, err
		}
		return sourcebundle.FetchSourcePackageResponse{}, os.WriteFile(filepath.Join(targetDir, "main.tf"), []byte("x"), 0644)
	})
	b, err := sourcebundle.NewBuilder(t.TempDir(), fetcher, nil)
	if err != nil {
		t.Fatal(err)
	}
	diags := b.AddRemoteSource(context.Background(), src, mutNoDeps2145{})
	if diags.HasErrors() {
		return // reported: fine
	}
	bundle, err := b.Close()
	if err != nil {
		return
	}
	dir, err := bundle.LocalPathForRemoteSource(src)
	if err != nil {
		t.Fatal(err)
	}
	if _, err := os.Lstat(filepath.Join(dir, ".git", "config")); err == nil {
		t.Errorf("build succeeded and the package directory still contains .git/config")
	}
}
