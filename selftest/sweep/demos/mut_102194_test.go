// place in: sourcebundle
package sourcebundle_test

import (
	"context"
	"io/fs"
	"net/url"
	"os"
	"path/filepath"
	"testing"

	"github.com/hashicorp/go-slug/sourceaddrs"
	"github.com/hashicorp/go-slug/sourcebundle"
)

type mut102194Fetcher struct{}

func (mut102194Fetcher) FetchSourcePackage(ctx context.Context, sourceType string, u *url.URL, targetDir string) (sourcebundle.FetchSourcePackageResponse, error) {
	return sourcebundle.FetchSourcePackageResponse{}, os.WriteFile(filepath.Join(targetDir, "main.tf"), []byte("x"), 0o644)
}

type mut102194Diag struct{}

func (mut102194Diag) Severity() sourcebundle.DiagSeverity { return sourcebundle.DiagWarning }
func (mut102194Diag) Description() sourcebundle.DiagDescription {
	return sourcebundle.DiagDescription{Summary: "careful", Detail: "something odd"}
}
func (mut102194Diag) Source() sourcebundle.DiagSource {
	return sourcebundle.DiagSource{Subject: &sourcebundle.SourceRange{Filename: "main.tf"}}
}
func (mut102194Diag) ExtraInfo() interface{} { return nil }

type mut102194Finder struct{}

func (mut102194Finder) FindDependencies(fsys fs.FS, subPath string, deps *sourcebundle.Dependencies) sourcebundle.Diagnostics {
	return sourcebundle.Diagnostics{mut102194Diag{}}
}

// A warning raised by a dependency finder must reach the caller with severity
// and text intact and its file name rewritten as a source address (C12).
func TestMut102194_FinderDiagnosticsReachCaller(t *testing.T) {
	b, err := sourcebundle.NewBuilder(t.TempDir(), mut102194Fetcher{}, nil)
	if err != nil {
		t.Fatal(err)
	}
	diags := b.AddRemoteSource(context.Background(), sourceaddrs.MustParseSource("https://example.com/pkg.tgz").(sourceaddrs.RemoteSource), mut102194Finder{})
	if len(diags) != 1 {
		t.Fatalf("want 1 diagnostic, got %d", len(diags))
	}
	var desc sourcebundle.DiagDescription
	var sev sourcebundle.DiagSeverity
	var file string
	func() {
		defer func() {
			if r := recover(); r != nil {
				t.Fatalf("diagnostic handed to the caller is unusable: %v", r)
			}
		}()
		desc = diags[0].Description()
		sev = diags[0].Severity()
		file = diags[0].Source().Subject.Filename
	}()
	if desc.Summary != "careful" || desc.Detail != "something odd" || sev != sourcebundle.DiagWarning {
		t.Fatalf("diagnostic altered: %v %v", sev, desc)
	}
	if file != "https://example.com/pkg.tgz//main.tf" {
		t.Fatalf("file name not rewritten: %q", file)
	}
}
