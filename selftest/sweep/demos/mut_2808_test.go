// place in: .
package slug_test

import (
	"bytes"
	"os"
	"path/filepath"
	"strings"
	"testing"

	slug "github.com/hashicorp/go-slug"
)

// C03: the built-in exclusion of .git applies whatever the rule file looks
// like; an unreadable rule file (overlong line) falls back to the defaults.
func TestMut2808OverlongIgnoreLineKeepsDefaults(t *testing.T) {
	src := t.TempDir()
	must := func(err error) {
		t.Helper()
		if err != nil {
			t.Fatal(err)
		}
	}
	must(os.MkdirAll(filepath.Join(src, ".git"), 0o755))
	must(os.WriteFile(filepath.Join(src, ".git", "config"), []byte("c"), 0o644))
	must(os.WriteFile(filepath.Join(src, "keep.txt"), []byte("k"), 0o644))
	must(os.WriteFile(filepath.Join(src, ".terraformignore"), []byte(strings.Repeat("a", 200000)+"\n"), 0o644))

	p, err := slug.NewPacker(slug.ApplyTerraformIgnore())
	must(err)
	var buf bytes.Buffer
	meta, err := p.Pack(src, &buf)
	must(err)
	for _, f := range meta.Files {
		if strings.HasPrefix(f, ".git") {
			t.Errorf(".git content was packed: %q", f)
		}
	}
}
