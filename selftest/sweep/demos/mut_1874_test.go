// place in: sourcebundle
package sourcebundle_test

import (
	"context"
	"errors"
	"io/fs"
	"net/url"
	"os"
	"path/filepath"
	"testing"
	"time"

	"github.com/apparentlymart/go-versions/versions"
	"github.com/hashicorp/go-slug/sourceaddrs"
	"github.com/hashicorp/go-slug/sourcebundle"
)

var (
	_ = errors.New
	_ = os.Getwd
	_ = filepath.Join
	_ = time.Second
	_ = versions.All
)

// fetcher1874 writes one file into the package directory, or fails when told to.
type fetcher1874 struct{ fail bool }

func (f fetcher1874) FetchSourcePackage(ctx context.Context, sourceType string, u *url.URL, targetDir string) (sourcebundle.FetchSourcePackageResponse, error) {
	if f.fail {
		return sourcebundle.FetchSourcePackageResponse{}, errors.New("fetch failed")
	}
	err := os.WriteFile(filepath.Join(targetDir, "main.tf"), []byte("# "+u.String()+"\n"), 0644)
	return sourcebundle.FetchSourcePackageResponse{}, err
}

type finder1874 struct{}

func (finder1874) FindDependencies(fsys fs.FS, subPath string, deps *sourcebundle.Dependencies) sourcebundle.Diagnostics {
	return nil
}

// within1874 runs f on its own goroutine and reports whether it panicked; the
// test fails if f has not come back after a generous while (a deadlock).
func within1874(t *testing.T, what string, f func()) (panicked bool) {
	t.Helper()
	done := make(chan bool, 1)
	go func() {
		defer func() { done <- recover() != nil }()
		f()
	}()
	select {
	case p := <-done:
		return p
	case <-time.After(20 * time.Second):
		t.Fatalf("%s did not return: the builder's lock was never released", what)
		return false
	}
}

// Property C12: a bundle object never comes out of a build that did not end
// in a usable bundle; when the finished directory cannot be opened as a
// bundle, Close says so instead of returning no bundle and no error.
func TestMut1874(t *testing.T) {
	ctx := context.Background()
	b, err := sourcebundle.NewBuilder(t.TempDir(), fetcher1874{}, nil)
	if err != nil {
		t.Fatal(err)
	}
	// The zero value is not an address any parser hands out: the manifest
	// entry written for it cannot be read back, so the bundle cannot be opened.
	var addr sourceaddrs.RemoteSource
	if diags := b.AddRemoteSource(ctx, addr, finder1874{}); diags.HasErrors() {
		t.Skipf("the builder refused the address: %s", diags[0].Description().Detail)
	}
	bundle, err := b.Close()
	if err == nil && bundle == nil {
		t.Fatal("Close returned neither a bundle nor an error")
	}
	if err == nil {
		if _, err := bundle.LocalPathForSource(addr); err != nil {
			t.Fatalf("Close succeeded but the added source cannot be looked up: %s", err)
		}
	}
}
