// place in: .
package slug

import (
	"archive/tar"
	"bytes"
	"compress/gzip"
	"io"
	"os"
	"path/filepath"
	"strings"
	"testing"
)

// A relative link that climbs above the root and comes back in through the
// root's own name must not be stored as a link (C05).
func TestMut100786ClimbOutAndBack(t *testing.T) {
	base := t.TempDir()
	root := filepath.Join(base, "tree")
	if err := os.Mkdir(root, 0755); err != nil {
		t.Fatal(err)
	}
	if err := os.WriteFile(filepath.Join(root, "f"), []byte("x"), 0644); err != nil {
		t.Fatal(err)
	}
	if err := os.Symlink("../tree/f", filepath.Join(root, "l")); err != nil {
		t.Fatal(err)
	}
	var buf bytes.Buffer
	_, err := Pack(root, &buf, false)
	if err == nil {
		gz, _ := gzip.NewReader(&buf)
		tr := tar.NewReader(gz)
		for {
			h, e := tr.Next()
			if e == io.EOF {
				break
			}
			if e != nil {
				t.Fatal(e)
			}
			if h.Typeflag == tar.TypeSymlink && strings.HasPrefix(h.Linkname, "../") {
				t.Fatalf("slug stores link %q -> %q that leaves the archive root", h.Name, h.Linkname)
			}
		}
	}
}
