// place in: sourceaddrs
package sourceaddrs

import (
	"net/url"
	"testing"
)

func TestMut101248MakeRemoteSourceKeepsSubPath(t *testing.T) {
	u, err := url.Parse("https://example.com/repo.git")
	if err != nil {
		t.Fatal(err)
	}
	got, err := MakeRemoteSource("git", u, "modules/foo")
	if err != nil {
		t.Fatalf("unexpected error: %v", err)
	}
	if got.SubPath() != "modules/foo" {
		t.Errorf("SubPath = %q, want %q", got.SubPath(), "modules/foo")
	}
	want, err := ParseRemoteSource("git::https://example.com/repo.git//modules/foo")
	if err != nil {
		t.Fatal(err)
	}
	if got != want || got.String() != want.String() {
		t.Errorf("assembled %q differs from parsed %q", got.String(), want.String())
	}
	// a sub-path with '..' climbing out must be refused when assembling from parts
	if s, err := MakeRemoteSource("git", u, "../escape"); err == nil {
		t.Errorf("sub-path ../escape accepted, gave %q", s.String())
	}
}
