// place in: sourcebundle
package sourcebundle

import (
	"os"
	"path/filepath"
	"testing"

	"github.com/apparentlymart/go-versions/versions"
	"github.com/hashicorp/go-slug/sourceaddrs"
)

// C06: the source address recorded for a registry package version is handed
// out by RegistryPackageSourceAddr and must print to something that parses
// back. A manifest with an unparseable address must be refused.
func TestMut2544(t *testing.T) {
	dir := t.TempDir()
	manifest := `{"terraform_source_bundle":1,"registry":[{"source":"example.com/foo/bar/baz","versions":{"1.0.0":{"source":"http://example.com/insecure.tgz?checksum=x"}}}]}`
	if err := os.WriteFile(filepath.Join(dir, "terraform-sources.json"), []byte(manifest), 0644); err != nil {
		t.Fatal(err)
	}
	b, err := OpenDir(dir)
	if err != nil {
		return // refused: fine
	}
	for _, pkg := range b.RegistryPackages() {
		for _, v := range b.RegistryPackageVersions(pkg) {
			addr, ok := b.RegistryPackageSourceAddr(pkg, v)
			if !ok {
				continue
			}
			s := addr.String()
			if _, err := sourceaddrs.ParseRemoteSource(s); err != nil {
				t.Fatalf("bundle handed out source address %q for %s %s which does not parse back: %s", s, pkg, v, err)
			}
		}
	}
	_ = versions.Unspecified
	t.Fatalf("manifest with invalid registry version source address was accepted")
}
