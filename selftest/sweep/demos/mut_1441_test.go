// place in: sourceaddrs
package sourceaddrs_test

import (
	"testing"

	"github.com/hashicorp/go-slug/sourceaddrs"
)

// C06: every final registry source address that is accepted prints to a string
// that parses back to an equal value.
func TestMut1441(t *testing.T) {
	valid, err := sourceaddrs.ParseFinalSource("hashicorp/foo/aws@1.2.3//sub")
	if err != nil {
		t.Fatalf("valid address rejected: %s", err)
	}
	if got, err := sourceaddrs.ParseFinalSource(valid.String()); err != nil || got != valid {
		t.Fatalf("valid address %q does not round-trip: %v %v", valid.String(), got, err)
	}
	for _, in := range []string{"hashicorp/foo/aws@1.0.0//x/./y", "hashicorp/foo/aws@1.0.0//x/../y", "hashicorp/foo/aws@1.0.0//x//y"} {
		addr, err := sourceaddrs.ParseFinalSource(in)
		if err != nil {
			continue // rejected, fine
		}
		printed := addr.String()
		back, err := sourceaddrs.ParseFinalSource(printed)
		if err != nil {
			t.Errorf("ParseFinalSource(%q) was accepted and prints as %q, which does not parse back: %s", in, printed, err)
			continue
		}
		if back != addr {
			t.Errorf("ParseFinalSource(%q) prints as %q, which parses back to a different value %#v", in, printed, back)
		}
	}
	for _, in := range []string{"garbage@1.0.0", "github.com/a/b/c@1.0.0"} {
		addr, err := sourceaddrs.ParseFinalRegistrySource(in)
		if err != nil {
			continue
		}
		printed := addr.String()
		if back, err := sourceaddrs.ParseFinalRegistrySource(printed); err != nil || back != addr {
			t.Errorf("ParseFinalRegistrySource(%q) was accepted and prints as %q, which does not parse back to it (%v)", in, printed, err)
		}
	}
}
