// place in: sourcebundle
package sourcebundle_test

import (
	"context"
	"io/fs"
	"net/url"
	"os"
	"path/filepath"
	"testing"

	"github.com/apparentlymart/go-versions/versions"
	"github.com/hashicorp/go-slug/sourceaddrs"
	"github.com/hashicorp/go-slug/sourcebundle"
	regaddr "github.com/hashicorp/terraform-registry-address"
)

type mut2207MetaFetcher struct{}

func (mut2207MetaFetcher) FetchSourcePackage(ctx context.Context, sourceType string, u *url.URL, targetDir string) (sourcebundle.FetchSourcePackageResponse, error) {
	var ret sourcebundle.FetchSourcePackageResponse
	if err := os.WriteFile(filepath.Join(targetDir, "hello"), []byte("hello\n"), 0644); err != nil {
		return ret, err
	}
	ret.PackageMeta = sourcebundle.PackageMetaWithGitMetadata("0123456789abcdef", "the commit message")
	return ret, nil
}

type mut2207MetaNoRegistry struct{}

func (mut2207MetaNoRegistry) ModulePackageVersions(ctx context.Context, pkgAddr regaddr.ModulePackage) (sourcebundle.ModulePackageVersionsResponse, error) {
	return sourcebundle.ModulePackageVersionsResponse{}, fs.ErrNotExist
}
func (mut2207MetaNoRegistry) ModulePackageSourceAddr(ctx context.Context, pkgAddr regaddr.ModulePackage, version versions.Version) (sourcebundle.ModulePackageSourceAddrResponse, error) {
	return sourcebundle.ModulePackageSourceAddrResponse{}, fs.ErrNotExist
}

type mut2207MetaNoDeps struct{}

func (mut2207MetaNoDeps) FindDependencies(fsys fs.FS, subPath string, deps *sourcebundle.Dependencies) sourcebundle.Diagnostics {
	return nil
}

// The metadata the fetcher supplied must be retrievable unchanged from the
// bundle returned by Close and from the re-opened bundle directory.
func TestMut2207PackageMetaSurvives(t *testing.T) {
	dir := t.TempDir()
	b, err := sourcebundle.NewBuilder(dir, mut2207MetaFetcher{}, mut2207MetaNoRegistry{})
	if err != nil {
		t.Fatal(err)
	}
	src := sourceaddrs.MustParseSource("git::https://example.com/repo.git").(sourceaddrs.RemoteSource)
	if diags := b.AddRemoteSource(context.Background(), src, mut2207MetaNoDeps{}); diags.HasErrors() {
		t.Fatalf("unexpected diagnostics: %v", diags)
	}
	bundle, err := b.Close()
	if err != nil {
		t.Fatal(err)
	}
	reopened, err := sourcebundle.OpenDir(dir)
	if err != nil {
		t.Fatal(err)
	}
	for name, bn := range map[string]*sourcebundle.Bundle{"closed": bundle, "reopened": reopened} {
		meta := bn.RemotePackageMeta(src.Package())
		if meta == nil {
			t.Errorf("%s: package metadata lost", name)
			continue
		}
		if got, want := meta.GitCommitID(), "0123456789abcdef"; got != want {
			t.Errorf("%s: commit ID %q, want %q", name, got, want)
		}
		if got, want := meta.GitCommitMessage(), "the commit message"; got != want {
			t.Errorf("%s: commit message %q, want %q", name, got, want)
		}
	}
}
