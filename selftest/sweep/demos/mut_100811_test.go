// place in: .
package slug

import (
	"archive/tar"
	"bytes"
	"compress/gzip"
	"io"
	"os"
	"path/filepath"
	"strings"
	"testing"
)

// Allow-listing the absolute path /allowed-xyz must not make a relative link
// that climbs out of the root (../tree/allowed-xyz/f) acceptable (C05).
func TestMut100811AllowPrefixJoinedToRoot(t *testing.T) {
	base := t.TempDir()
	root := filepath.Join(base, "tree")
	if err := os.MkdirAll(filepath.Join(root, "allowed-xyz"), 0755); err != nil {
		t.Fatal(err)
	}
	if err := os.WriteFile(filepath.Join(root, "allowed-xyz", "f"), []byte("x"), 0644); err != nil {
		t.Fatal(err)
	}
	if err := os.Symlink("../tree/allowed-xyz/f", filepath.Join(root, "l")); err != nil {
		t.Fatal(err)
	}
	p, err := NewPacker(AllowSymlinkTarget("/allowed-xyz"))
	if err != nil {
		t.Fatal(err)
	}
	var buf bytes.Buffer
	_, err = p.Pack(root, &buf)
	if err == nil {
		gz, _ := gzip.NewReader(&buf)
		tr := tar.NewReader(gz)
		for {
			h, e := tr.Next()
			if e == io.EOF {
				break
			}
			if e != nil {
				t.Fatal(e)
			}
			if h.Typeflag == tar.TypeSymlink && strings.HasPrefix(h.Linkname, "../") {
				t.Fatalf("slug stores link %q -> %q that leaves the archive root and is not allow-listed", h.Name, h.Linkname)
			}
		}
	}
}
