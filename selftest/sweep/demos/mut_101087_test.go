// place in: sourceaddrs
package sourceaddrs_test

import (
	"testing"

	"github.com/hashicorp/go-slug/sourceaddrs"
)

// C07 (converse): an address that follows the documented grammar is accepted.
// This is a gitlab.com shorthand git address whose sub-path is "c@1.0.0" and
// whose ref argument contains slashes. It is not a final registry address
// (as one, its sub-path would be "../x"), so ParseFinalSource must treat it as
// the remote address that ParseSource and ParseRemoteSource see.
func TestMut101087_GitlabShorthandWithAtSign(t *testing.T) {
	in := "gitlab.com/a/b/c@1.0.0?ref=x//../x"
	want, err := sourceaddrs.ParseRemoteSource(in)
	if err != nil {
		t.Fatalf("ParseRemoteSource: %v", err)
	}
	if src, err := sourceaddrs.ParseSource(in); err != nil || src != sourceaddrs.Source(want) {
		t.Fatalf("ParseSource: %v %v", src, err)
	}
	got, err := sourceaddrs.ParseFinalSource(in)
	if err != nil {
		t.Fatalf("ParseFinalSource rejected a valid remote address: %v", err)
	}
	if got != sourceaddrs.FinalSource(want) {
		t.Fatalf("got %s, want %s", got, want)
	}
	again, err := sourceaddrs.ParseFinalSource(got.String())
	if err != nil || again != got {
		t.Fatalf("round trip of %q failed: %v", got.String(), err)
	}
}
