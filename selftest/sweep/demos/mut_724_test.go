// place in: .
package slug

import (
	"bytes"
	"os"
	"path/filepath"
	"testing"
)

// C05: with dereferencing an out-of-tree link is replaced by a copy of what it
// points to, also when it gets there through a second link.
func TestMut724_DerefFileThroughChain(t *testing.T) {
	base := t.TempDir()
	src := filepath.Join(base, "src")
	ext := filepath.Join(base, "ext")
	for _, d := range []string{src, ext} {
		if err := os.MkdirAll(d, 0755); err != nil {
			t.Fatal(err)
		}
	}
	if err := os.WriteFile(filepath.Join(ext, "real.txt"), []byte("hello"), 0644); err != nil {
		t.Fatal(err)
	}
	if err := os.Symlink("real.txt", filepath.Join(ext, "hop")); err != nil {
		t.Fatal(err)
	}
	if err := os.Symlink(filepath.Join(ext, "hop"), filepath.Join(src, "link")); err != nil {
		t.Fatal(err)
	}
	p, err := NewPacker(DereferenceSymlinks())
	if err != nil {
		t.Fatal(err)
	}
	var buf bytes.Buffer
	meta, err := p.Pack(src, &buf)
	if err != nil {
		t.Fatalf("Pack: %v", err)
	}
	if len(meta.Files) != 1 || meta.Files[0] != "link" || meta.Size != 5 {
		t.Fatalf("expected the copied file 'link' with 5 bytes, got files %v size %d", meta.Files, meta.Size)
	}
}
