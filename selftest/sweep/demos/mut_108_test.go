// place in: .
package slug_test

import (
	"archive/tar"
	"bytes"
	"compress/gzip"
	"io"
	"os"
	"path/filepath"
	"strings"
	"testing"

	slug "github.com/hashicorp/go-slug"
)

func packNames108(t *testing.T, ignore string, files []string) map[string]bool {
	t.Helper()
	dir := t.TempDir()
	if err := os.WriteFile(filepath.Join(dir, ".terraformignore"), []byte(ignore), 0o644); err != nil {
		t.Fatal(err)
	}
	for _, f := range files {
		p := filepath.Join(dir, filepath.FromSlash(f))
		if err := os.MkdirAll(filepath.Dir(p), 0o755); err != nil {
			t.Fatal(err)
		}
		if err := os.WriteFile(p, []byte("x"), 0o644); err != nil {
			t.Fatal(err)
		}
	}
	var buf bytes.Buffer
	if _, err := slug.Pack(dir, &buf, false); err != nil {
		t.Fatalf("Pack: %v", err)
	}
	gz, err := gzip.NewReader(&buf)
	if err != nil {
		t.Fatal(err)
	}
	tr := tar.NewReader(gz)
	got := map[string]bool{}
	for {
		h, err := tr.Next()
		if err == io.EOF {
			break
		}
		if err != nil {
			t.Fatal(err)
		}
		got[strings.TrimSuffix(h.Name, "/")] = true
	}
	return got
}

func TestMut108(t *testing.T) {
	got := packNames108(t, "!\nsecret.txt\n", []string{"main.tf", "secret.txt"})
	if !got["main.tf"] {
		t.Fatalf("main.tf missing: %v", got)
	}
	if got["secret.txt"] {
		t.Fatalf("rule after a lone '!' line was dropped; secret.txt shipped: %v", got)
	}
}
