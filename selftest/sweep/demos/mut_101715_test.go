// place in: sourcebundle
package sourcebundle_test

import (
	"context"
	"fmt"
	"io/fs"
	"net/url"
	"os"
	"path/filepath"
	"testing"

	"github.com/apparentlymart/go-versions/versions"
	regaddr "github.com/hashicorp/terraform-registry-address"

	"github.com/hashicorp/go-slug/sourceaddrs"
	"github.com/hashicorp/go-slug/sourcebundle"
)

type fetcher101715 struct {
	meta map[string]*sourcebundle.PackageMeta
}

func (f fetcher101715) FetchSourcePackage(ctx context.Context, sourceType string, u *url.URL, targetDir string) (sourcebundle.FetchSourcePackageResponse, error) {
	err := os.WriteFile(filepath.Join(targetDir, "content.txt"), []byte(sourceType+" "+u.String()), 0644)
	return sourcebundle.FetchSourcePackageResponse{PackageMeta: f.meta[u.String()]}, err
}

type registry101715 struct{}

func (registry101715) ModulePackageVersions(ctx context.Context, pkgAddr regaddr.ModulePackage) (sourcebundle.ModulePackageVersionsResponse, error) {
	return sourcebundle.ModulePackageVersionsResponse{Versions: []sourcebundle.ModulePackageInfo{
		{Version: versions.MustParseVersion("1.0.0")},
		{Version: versions.MustParseVersion("2.0.0")},
	}}, nil
}

func (registry101715) ModulePackageSourceAddr(ctx context.Context, pkgAddr regaddr.ModulePackage, version versions.Version) (sourcebundle.ModulePackageSourceAddrResponse, error) {
	src := fmt.Sprintf("https://example.com/%s/%s/%s/%s.tgz", pkgAddr.Namespace, pkgAddr.Name, pkgAddr.TargetSystem, version)
	return sourcebundle.ModulePackageSourceAddrResponse{SourceAddr: sourceaddrs.MustParseSource(src).(sourceaddrs.RemoteSource)}, nil
}

type noDeps101715 struct{}

func (noDeps101715) FindDependencies(fsys fs.FS, subPath string, deps *sourcebundle.Dependencies) sourcebundle.Diagnostics {
	return nil
}

func TestMut101715_FetcherMetaRetrievable(t *testing.T) {
	metas := map[string]*sourcebundle.PackageMeta{
		"https://example.com/a.git": sourcebundle.PackageMetaWithGitMetadata("1111aaaa", ""),
		"https://example.com/b.git": sourcebundle.PackageMetaWithGitMetadata("2222bbbb", "second commit"),
	}
	b, err := sourcebundle.NewBuilder(t.TempDir(), fetcher101715{meta: metas}, registry101715{})
	if err != nil {
		t.Fatal(err)
	}
	for u := range metas {
		src := sourceaddrs.MustParseSource("git::" + u).(sourceaddrs.RemoteSource)
		if diags := b.AddRemoteSource(context.Background(), src, noDeps101715{}); diags.HasErrors() {
			t.Fatalf("unexpected diagnostics for %s", src)
		}
	}
	bundle, err := b.Close()
	if err != nil {
		t.Fatal(err)
	}
	for u, want := range metas {
		pkg := sourceaddrs.MustParseSource("git::" + u).(sourceaddrs.RemoteSource).Package()
		got := bundle.RemotePackageMeta(pkg)
		if got == nil {
			t.Errorf("%s: metadata lost (want commit %q message %q)", pkg, want.GitCommitID(), want.GitCommitMessage())
			continue
		}
		if got.GitCommitID() != want.GitCommitID() || got.GitCommitMessage() != want.GitCommitMessage() {
			t.Errorf("%s: got commit %q message %q, want commit %q message %q", pkg, got.GitCommitID(), got.GitCommitMessage(), want.GitCommitID(), want.GitCommitMessage())
		}
	}
}
