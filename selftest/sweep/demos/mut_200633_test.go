// place in: sourcebundle
package sourcebundle_test

import (
	"context"
	"io/fs"
	"net/url"
	"os"
	"path/filepath"
	"testing"

	"github.com/hashicorp/go-slug/sourceaddrs"
	"github.com/hashicorp/go-slug/sourcebundle"
)

type mut200633Fetcher struct{}

func (mut200633Fetcher) FetchSourcePackage(ctx context.Context, sourceType string, u *url.URL, targetDir string) (sourcebundle.FetchSourcePackageResponse, error) {
	if err := os.WriteFile(filepath.Join(targetDir, "hello"), []byte("hi\n"), 0o644); err != nil {
		return sourcebundle.FetchSourcePackageResponse{}, err
	}
	return sourcebundle.FetchSourcePackageResponse{
		PackageMeta: sourcebundle.PackageMetaWithGitMetadata("abc123", "  "),
	}, nil
}

type mut200633Finder struct{}

func (mut200633Finder) FindDependencies(fsys fs.FS, subPath string, deps *sourcebundle.Dependencies) sourcebundle.Diagnostics {
	return nil
}

// Metadata supplied by the fetcher must be retrievable unchanged from the
// finished bundle (C08), whatever the strings are.
func TestMut200633(t *testing.T) {
	b, err := sourcebundle.NewBuilder(t.TempDir(), mut200633Fetcher{}, nil)
	if err != nil {
		t.Fatal(err)
	}
	src := sourceaddrs.MustParseSource("git::https://example.com/foo.git").(sourceaddrs.RemoteSource)
	if diags := b.AddRemoteSource(context.Background(), src, mut200633Finder{}); len(diags) > 0 {
		t.Fatalf("unexpected diagnostics: %v", diags[0].Description())
	}
	bundle, err := b.Close()
	if err != nil {
		t.Fatal(err)
	}
	meta := bundle.RemotePackageMeta(src.Package())
	if meta == nil {
		t.Fatalf("no metadata in bundle")
	}
	if got, want := meta.GitCommitID(), "abc123"; got != want {
		t.Errorf("commit id %q, want %q", got, want)
	}
	if got, want := meta.GitCommitMessage(), "  "; got != want {
		t.Errorf("commit message %q, want %q", got, want)
	}
}
