// place in: sourceaddrs
package sourceaddrs

import "testing"

// C06: whatever ParseFinalSource accepts prints to a string that parses back to an equal value.
func TestMut1189(t *testing.T) {
	for _, s := range []string{".", "..", "./a/../b", "./a:b", "./a//b", "./a/"} {
		got, err := ParseFinalSource(s)
		if err != nil {
			continue
		}
		again, err2 := ParseFinalSource(got.String())
		if err2 != nil || again != got {
			t.Errorf("ParseFinalSource(%q) accepted as %q, which does not parse back: %v", s, got.String(), err2)
		}
	}
}
