// place in: sourcebundle
package sourcebundle_test

import (
	"context"
	"fmt"
	"io/fs"
	"net/url"
	"os"
	"path/filepath"
	"testing"

	"github.com/hashicorp/go-slug/sourceaddrs"
	"github.com/hashicorp/go-slug/sourcebundle"
)

type fetcher101823 func(dir string) error

func (f fetcher101823) FetchSourcePackage(ctx context.Context, sourceType string, u *url.URL, targetDir string) (sourcebundle.FetchSourcePackageResponse, error) {
	return sourcebundle.FetchSourcePackageResponse{}, f(targetDir)
}

type noDeps101823 struct{}

func (noDeps101823) FindDependencies(fsys fs.FS, subPath string, deps *sourcebundle.Dependencies) sourcebundle.Diagnostics {
	return nil
}

// build101823 builds a bundle in targetDir from one remote package whose
// content is produced by populate, and returns the package directory.
func build101823(targetDir string, populate func(dir string) error) (string, error) {
	b, err := sourcebundle.NewBuilder(targetDir, fetcher101823(populate), nil)
	if err != nil {
		return "", err
	}
	src := sourceaddrs.MustParseSource("https://example.com/pkg.tgz").(sourceaddrs.RemoteSource)
	diags := b.AddRemoteSource(context.Background(), src, noDeps101823{})
	if diags.HasErrors() {
		msg := ""
		for _, d := range diags {
			msg += d.Description().Summary + ": " + d.Description().Detail + "; "
		}
		return "", fmt.Errorf("build failed: %s", msg)
	}
	bundle, err := b.Close()
	if err != nil {
		return "", err
	}
	return bundle.LocalPathForRemoteSource(src)
}

var _ = filepath.Join
var _ = os.Lstat

// A link that leaves the package directory and comes back in through the
// directory's temporary name resolves inside the package while it is being
// prepared, and nowhere once the directory has its final name. The build must
// refuse it; a finished bundle must not contain a dangling link.
func TestMut101823_LinkThroughTemporaryNameRefused(t *testing.T) {
	target := t.TempDir()
	dir, err := build101823(target, func(dir string) error {
		if err := os.WriteFile(filepath.Join(dir, "main.tf"), []byte("main"), 0644); err != nil {
			return err
		}
		return os.Symlink(filepath.Join("..", filepath.Base(dir), "main.tf"), filepath.Join(dir, "link.tf"))
	})
	if err == nil {
		if _, serr := os.Stat(filepath.Join(dir, "link.tf")); serr != nil {
			t.Fatalf("build succeeded and the bundle contains a dangling link: %v", serr)
		}
		t.Fatalf("build succeeded for a link that leaves the package directory")
	}
}
