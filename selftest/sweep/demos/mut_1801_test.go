// place in: sourcebundle
package sourcebundle_test

import (
	"context"
	"errors"
	"io/fs"
	"net/url"
	"os"
	"path/filepath"
	"testing"
	"time"

	"github.com/apparentlymart/go-versions/versions"
	"github.com/hashicorp/go-slug/sourceaddrs"
	"github.com/hashicorp/go-slug/sourcebundle"
)

var (
	_ = errors.New
	_ = os.Getwd
	_ = filepath.Join
	_ = time.Second
	_ = versions.All
)

// fetcher1801 writes one file into the package directory, or fails when told to.
type fetcher1801 struct{ fail bool }

func (f fetcher1801) FetchSourcePackage(ctx context.Context, sourceType string, u *url.URL, targetDir string) (sourcebundle.FetchSourcePackageResponse, error) {
	if f.fail {
		return sourcebundle.FetchSourcePackageResponse{}, errors.New("fetch failed")
	}
	err := os.WriteFile(filepath.Join(targetDir, "main.tf"), []byte("# "+u.String()+"\n"), 0644)
	return sourcebundle.FetchSourcePackageResponse{}, err
}

type finder1801 struct{}

func (finder1801) FindDependencies(fsys fs.FS, subPath string, deps *sourcebundle.Dependencies) sourcebundle.Diagnostics {
	return nil
}

// within1801 runs f on its own goroutine and reports whether it panicked; the
// test fails if f has not come back after a generous while (a deadlock).
func within1801(t *testing.T, what string, f func()) (panicked bool) {
	t.Helper()
	done := make(chan bool, 1)
	go func() {
		defer func() { done <- recover() != nil }()
		f()
	}()
	select {
	case p := <-done:
		return p
	case <-time.After(20 * time.Second):
		t.Fatalf("%s did not return: the builder's lock was never released", what)
		return false
	}
}

// Properties C08/C10: the bundle is built in the target directory that was
// named when the builder was created, and nothing outside it is touched -
// also when the process working directory changes in between.
func TestMut1801(t *testing.T) {
	ctx := context.Background()
	first, second := t.TempDir(), t.TempDir()
	for _, d := range []string{first, second} {
		if err := os.Mkdir(filepath.Join(d, "target"), 0755); err != nil {
			t.Fatal(err)
		}
	}
	orig, err := os.Getwd()
	if err != nil {
		t.Fatal(err)
	}
	defer os.Chdir(orig)

	if err := os.Chdir(first); err != nil {
		t.Fatal(err)
	}
	b, err := sourcebundle.NewBuilder("target", fetcher1801{}, nil)
	if err != nil {
		t.Fatal(err)
	}
	if err := os.Chdir(second); err != nil {
		t.Fatal(err)
	}
	addr, err := sourceaddrs.ParseRemoteSource("https://example.com/a.tgz")
	if err != nil {
		t.Fatal(err)
	}
	if diags := b.AddRemoteSource(ctx, addr, finder1801{}); diags.HasErrors() {
		t.Fatalf("unexpected error: %s", diags[0].Description().Detail)
	}
	bundle, err := b.Close()
	if err != nil {
		t.Fatal(err)
	}
	if entries, _ := os.ReadDir(filepath.Join(second, "target")); len(entries) != 0 {
		t.Errorf("%d entries were created in a directory that is not the target directory", len(entries))
	}
	if _, err := os.Stat(filepath.Join(first, "target", "terraform-sources.json")); err != nil {
		t.Errorf("the target directory has no manifest: %s", err)
	}
	p, err := bundle.LocalPathForSource(addr)
	if err != nil {
		t.Fatal(err)
	}
	wantRoot, _ := filepath.EvalSymlinks(filepath.Join(first, "target"))
	gotDir, _ := filepath.EvalSymlinks(filepath.Dir(p))
	if gotDir != wantRoot {
		t.Errorf("package directory %s is not in the target directory %s", p, wantRoot)
	}
}
