// place in: sourcebundle
package sourcebundle

import (
	"os"
	"path/filepath"
	"testing"
)

func TestMut2654_RemotePackagesExact(t *testing.T) {
	root := t.TempDir()
	manifest := `{"terraform_source_bundle":1,"packages":[{"source":"git::https://example.com/repo.git","local":"pkgdir"}]}`
	if err := os.WriteFile(filepath.Join(root, "terraform-sources.json"), []byte(manifest), 0o644); err != nil {
		t.Fatal(err)
	}
	b, err := OpenDir(root)
	if err != nil {
		t.Fatal(err)
	}
	pkgs := b.RemotePackages()
	if len(pkgs) != 1 {
		t.Fatalf("RemotePackages returned %d packages (%v), want exactly the 1 in the manifest", len(pkgs), pkgs)
	}
	if got := pkgs[0].String(); got != "git::https://example.com/repo.git" {
		t.Fatalf("RemotePackages()[0] = %q", got)
	}
	for _, p := range pkgs {
		if _, err := b.LocalPathForRemoteSource(p.SourceAddr("")); err != nil {
			t.Errorf("listed package %q cannot be looked up: %v", p, err)
		}
	}

	// an empty bundle must not panic
	empty := t.TempDir()
	if err := os.WriteFile(filepath.Join(empty, "terraform-sources.json"), []byte(`{"terraform_source_bundle":1}`), 0o644); err != nil {
		t.Fatal(err)
	}
	eb, err := OpenDir(empty)
	if err != nil {
		t.Fatal(err)
	}
	func() {
		defer func() {
			if r := recover(); r != nil {
				t.Errorf("RemotePackages on an empty bundle panicked: %v", r)
			}
		}()
		if got := eb.RemotePackages(); len(got) != 0 {
			t.Errorf("empty bundle lists %d packages", len(got))
		}
	}()
}
