// place in: .
package slug

import (
	"archive/tar"
	"bytes"
	"compress/gzip"
	"io"
	"os"
	"path/filepath"
	"runtime"
	"strings"
	"syscall"
	"testing"
)

var _ = runtime.LockOSThread
var _ = syscall.Setfsuid
var _ = strings.HasPrefix
var _ = filepath.Join

type mutEntry100312 struct {
	hdr  *tar.Header
	body string
}

func mutRead100312(t *testing.T, data []byte) []mutEntry100312 {
	t.Helper()
	gz, err := gzip.NewReader(bytes.NewReader(data))
	if err != nil {
		t.Fatal(err)
	}
	tr := tar.NewReader(gz)
	var out []mutEntry100312
	for {
		h, err := tr.Next()
		if err == io.EOF {
			break
		}
		if err != nil {
			t.Fatal(err)
		}
		b, err := io.ReadAll(tr)
		if err != nil {
			t.Fatal(err)
		}
		out = append(out, mutEntry100312{h, string(b)})
	}
	return out
}

func mutNames100312(es []mutEntry100312) []string {
	var n []string
	for _, e := range es {
		n = append(n, e.hdr.Name)
	}
	return n
}

func mutWrite100312(t *testing.T, path, content string) {
	t.Helper()
	if err := os.MkdirAll(filepath.Dir(path), 0755); err != nil {
		t.Fatal(err)
	}
	if err := os.WriteFile(path, []byte(content), 0644); err != nil {
		t.Fatal(err)
	}
}

// A rule '/foo/' excludes the directory foo at the root and everything below.
func TestMut100312(t *testing.T) {
	src := t.TempDir()
	mutWrite100312(t, filepath.Join(src, ".terraformignore"), "/foo/\n")
	mutWrite100312(t, filepath.Join(src, "foo", "a.txt"), "x")
	mutWrite100312(t, filepath.Join(src, "bar.txt"), "y")
	var buf bytes.Buffer
	if _, err := Pack(src, &buf, false); err != nil {
		t.Fatal(err)
	}
	es := mutRead100312(t, buf.Bytes())
	for _, e := range es {
		if e.hdr.Name == "foo/" || e.hdr.Name == "foo" || strings.HasPrefix(e.hdr.Name, "foo/") {
			t.Errorf("excluded entry %q was shipped; entries %q", e.hdr.Name, mutNames100312(es))
		}
	}
}
