// place in: sourceaddrs
package sourceaddrs

import "testing"

// Parsing an address with an unsupported source type / scheme must return an
// error, never panic (C19).
func TestMut101300UnsupportedSourceTypeNoPanic(t *testing.T) {
	for _, in := range []string{
		"ftp://example.com/foo.tgz",
		"hg::https://example.com/repo",
	} {
		func() {
			defer func() {
				if r := recover(); r != nil {
					t.Errorf("ParseRemoteSource(%q) panicked: %v", in, r)
				}
			}()
			_, err := ParseRemoteSource(in)
			if err == nil {
				t.Errorf("ParseRemoteSource(%q) succeeded; want error", in)
			}
		}()
	}
}
