// place in: .
package slug

import (
	"archive/tar"
	"bytes"
	"compress/gzip"
	"io"
	"os"
	"path/filepath"
	"runtime"
	"strings"
	"syscall"
	"testing"
)

var _ = runtime.LockOSThread
var _ = syscall.Setfsuid
var _ = strings.HasPrefix
var _ = filepath.Join

type mutEntry100273 struct {
	hdr  *tar.Header
	body string
}

func mutRead100273(t *testing.T, data []byte) []mutEntry100273 {
	t.Helper()
	gz, err := gzip.NewReader(bytes.NewReader(data))
	if err != nil {
		t.Fatal(err)
	}
	tr := tar.NewReader(gz)
	var out []mutEntry100273
	for {
		h, err := tr.Next()
		if err == io.EOF {
			break
		}
		if err != nil {
			t.Fatal(err)
		}
		b, err := io.ReadAll(tr)
		if err != nil {
			t.Fatal(err)
		}
		out = append(out, mutEntry100273{h, string(b)})
	}
	return out
}

func mutNames100273(es []mutEntry100273) []string {
	var n []string
	for _, e := range es {
		n = append(n, e.hdr.Name)
	}
	return n
}

func mutWrite100273(t *testing.T, path, content string) {
	t.Helper()
	if err := os.MkdirAll(filepath.Dir(path), 0755); err != nil {
		t.Fatal(err)
	}
	if err := os.WriteFile(path, []byte(content), 0644); err != nil {
		t.Fatal(err)
	}
}

// A slug produced with dereferencing must be accepted by Unpack and must not
// contain entry names that climb out of the archive root.
func TestMut100273(t *testing.T) {
	base := t.TempDir()
	src := filepath.Join(base, "src")
	mutWrite100273(t, filepath.Join(src, "main.tf"), "main")
	mutWrite100273(t, filepath.Join(base, "ext", "file.txt"), "data")
	if err := os.Symlink("../ext", filepath.Join(src, "link")); err != nil {
		t.Fatal(err)
	}
	var buf bytes.Buffer
	if _, err := Pack(src, &buf, true); err != nil {
		t.Fatal(err)
	}
	es := mutRead100273(t, buf.Bytes())
	for _, e := range es {
		if e.hdr.Name == ".." || strings.HasPrefix(e.hdr.Name, "../") || strings.Contains(e.hdr.Name, "/../") {
			t.Errorf("entry name %q climbs out of the slug", e.hdr.Name)
		}
	}
	dst := filepath.Join(base, "out", "dst")
	if err := os.MkdirAll(dst, 0755); err != nil {
		t.Fatal(err)
	}
	if err := Unpack(bytes.NewReader(buf.Bytes()), dst); err != nil {
		t.Fatalf("Unpack rejects the slug Pack produced: %v (entries %q)", err, mutNames100273(es))
	}
	if b, err := os.ReadFile(filepath.Join(dst, "link", "file.txt")); err != nil || string(b) != "data" {
		t.Fatalf("link/file.txt not materialised: %v %q", err, b)
	}
}
