// place in: sourcebundle
package sourcebundle_test

import (
	"context"
	"errors"
	"io/fs"
	"net/url"
	"os"
	"path/filepath"
	"testing"
	"time"

	"github.com/apparentlymart/go-versions/versions"
	"github.com/hashicorp/go-slug/sourceaddrs"
	"github.com/hashicorp/go-slug/sourcebundle"
)

var (
	_ = errors.New
	_ = os.Getwd
	_ = filepath.Join
	_ = time.Second
	_ = versions.All
)

// fetcher1820 writes one file into the package directory, or fails when told to.
type fetcher1820 struct{ fail bool }

func (f fetcher1820) FetchSourcePackage(ctx context.Context, sourceType string, u *url.URL, targetDir string) (sourcebundle.FetchSourcePackageResponse, error) {
	if f.fail {
		return sourcebundle.FetchSourcePackageResponse{}, errors.New("fetch failed")
	}
	err := os.WriteFile(filepath.Join(targetDir, "main.tf"), []byte("# "+u.String()+"\n"), 0644)
	return sourcebundle.FetchSourcePackageResponse{}, err
}

type finder1820 struct{}

func (finder1820) FindDependencies(fsys fs.FS, subPath string, deps *sourcebundle.Dependencies) sourcebundle.Diagnostics {
	return nil
}

// within1820 runs f on its own goroutine and reports whether it panicked; the
// test fails if f has not come back after a generous while (a deadlock).
func within1820(t *testing.T, what string, f func()) (panicked bool) {
	t.Helper()
	done := make(chan bool, 1)
	go func() {
		defer func() { done <- recover() != nil }()
		f()
	}()
	select {
	case p := <-done:
		return p
	case <-time.After(20 * time.Second):
		t.Fatalf("%s did not return: the builder's lock was never released", what)
		return false
	}
}

// Property C12: after a failed build the builder refuses all further use
// (every later call panics) - it must not block instead.
func TestMut1820(t *testing.T) {
	ctx := context.Background()
	b, err := sourcebundle.NewBuilder(t.TempDir(), fetcher1820{fail: true}, nil)
	if err != nil {
		t.Fatal(err)
	}
	addr, err := sourceaddrs.ParseRemoteSource("https://example.com/a.tgz")
	if err != nil {
		t.Fatal(err)
	}
	if diags := b.AddRemoteSource(ctx, addr, finder1820{}); !diags.HasErrors() {
		t.Fatal("failed fetch was not reported")
	}
	for i := 0; i < 2; i++ {
		if !within1820(t, "AddRemoteSource on a failed builder", func() { b.AddRemoteSource(ctx, addr, finder1820{}) }) {
			t.Fatal("AddRemoteSource on a failed builder did not panic")
		}
	}
}
