// place in: sourceaddrs
package sourceaddrs

import "testing"

// C07: an address that breaks the transport policy must not be accepted.
func TestMut1204(t *testing.T) {
	for _, s := range []string{"git::http://example.com/x.git", "http://example.com/x.tgz", "git::https://user:pw@example.com/x.git", "https://example.com/x.tgz//a/../b"} {
		if got, err := ParseFinalSource(s); err == nil {
			t.Errorf("ParseFinalSource(%q) accepted, gave %#v", s, got)
		}
	}
}
