// place in: sourceaddrs
package sourceaddrs

import "testing"

func TestMut1496BadURLNoPanic(t *testing.T) {
	for _, in := range []string{"https://exa mple.com/x.tgz", "git::https://[::1/x.git", "https://example.com/%zz.tgz"} {
		func() {
			defer func() {
				if r := recover(); r != nil {
					t.Fatalf("ParseRemoteSource(%q) panicked: %v", in, r)
				}
			}()
			if _, err := ParseRemoteSource(in); err == nil {
				t.Fatalf("ParseRemoteSource(%q) succeeded, want error", in)
			}
		}()
	}
}
