// place in: sourcebundle
package sourcebundle

import (
	"os"
	"path/filepath"
	"testing"

	"github.com/hashicorp/go-slug/sourceaddrs"
)

func TestMut101940RelativeOpenDir(t *testing.T) {
	parent := t.TempDir()
	bundleDir := filepath.Join(parent, "bundle")
	pkgDir := filepath.Join(bundleDir, "pkgdir", "sub")
	if err := os.MkdirAll(pkgDir, 0755); err != nil {
		t.Fatal(err)
	}
	manifest := `{"terraform_source_bundle":1,"packages":[{"source":"git::https://example.com/foo.git","local":"pkgdir"}]}`
	if err := os.WriteFile(filepath.Join(bundleDir, manifestFilename), []byte(manifest), 0644); err != nil {
		t.Fatal(err)
	}

	oldWd, err := os.Getwd()
	if err != nil {
		t.Fatal(err)
	}
	defer os.Chdir(oldWd)
	if err := os.Chdir(parent); err != nil {
		t.Fatal(err)
	}

	b, err := OpenDir("bundle")
	if err != nil {
		t.Fatal(err)
	}

	// the working directory changes while the bundle is alive
	other := t.TempDir()
	if err := os.Chdir(other); err != nil {
		t.Fatal(err)
	}

	src := sourceaddrs.MustParseSource("git::https://example.com/foo.git//sub").(sourceaddrs.RemoteSource)
	p, err := b.LocalPathForRemoteSource(src)
	if err != nil {
		t.Fatal(err)
	}
	if _, err := os.Stat(p); err != nil {
		t.Fatalf("lookup result %q does not exist: %s", p, err)
	}
	realBundle, _ := filepath.EvalSymlinks(bundleDir)
	realP, _ := filepath.EvalSymlinks(p)
	if rel, err := filepath.Rel(realBundle, realP); err != nil || rel != filepath.Join("pkgdir", "sub") {
		t.Fatalf("lookup result %q is not inside the bundle directory %q", p, bundleDir)
	}
	back, err := b.SourceForLocalPath(p)
	if err != nil {
		t.Fatalf("path %q returned by the bundle does not translate back: %s", p, err)
	}
	if back.String() != src.String() {
		t.Fatalf("round trip gave %s, want %s", back, src)
	}
}
