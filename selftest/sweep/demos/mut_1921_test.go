// place in: sourcebundle
package sourcebundle_test

import (
	"context"
	"errors"
	"io/fs"
	"net/url"
	"os"
	"path/filepath"
	"testing"

	"github.com/apparentlymart/go-versions/versions"
	regaddr "github.com/hashicorp/terraform-registry-address"

	"github.com/hashicorp/go-slug/sourceaddrs"
	"github.com/hashicorp/go-slug/sourcebundle"
)

type m1921Fetcher struct{}

func (m1921Fetcher) FetchSourcePackage(ctx context.Context, sourceType string, u *url.URL, targetDir string) (sourcebundle.FetchSourcePackageResponse, error) {
	// A fetcher that can fetch anything it is asked for.
	err := os.WriteFile(filepath.Join(targetDir, "main.tf"), []byte("# hello\n"), 0o644)
	return sourcebundle.FetchSourcePackageResponse{}, err
}

type m1921Registry struct{}

func (m1921Registry) ModulePackageVersions(ctx context.Context, pkgAddr regaddr.ModulePackage) (sourcebundle.ModulePackageVersionsResponse, error) {
	return sourcebundle.ModulePackageVersionsResponse{}, errors.New("registry is down")
}

func (m1921Registry) ModulePackageSourceAddr(ctx context.Context, pkgAddr regaddr.ModulePackage, version versions.Version) (sourcebundle.ModulePackageSourceAddrResponse, error) {
	return sourcebundle.ModulePackageSourceAddrResponse{}, errors.New("registry is down")
}

type m1921Finder struct{}

func (m1921Finder) FindDependencies(fsys fs.FS, subPath string, deps *sourcebundle.Dependencies) sourcebundle.Diagnostics {
	return nil
}

func TestMut1921RegistryFailureIsReported(t *testing.T) {
	b, err := sourcebundle.NewBuilder(t.TempDir(), m1921Fetcher{}, m1921Registry{})
	if err != nil {
		t.Fatal(err)
	}
	addr := sourceaddrs.MustParseSource("example.com/foo/bar/baz").(sourceaddrs.RegistrySource)
	var diags sourcebundle.Diagnostics
	func() {
		defer func() {
			if r := recover(); r != nil {
				t.Fatalf("panic: %v", r)
			}
		}()
		diags = b.AddRegistrySource(context.Background(), addr, versions.All, m1921Finder{})
	}()
	if !diags.HasErrors() {
		t.Fatalf("registry query failed but the build reported no error")
	}
}
