// place in: .
package slug_test

import (
	"bytes"
	"os"
	"path/filepath"
	"testing"

	slug "github.com/hashicorp/go-slug"
)

// A rule line that is not a valid pattern matches nothing; it must not make
// every file of the tree disappear from the slug.
func TestMut100064(t *testing.T) {
	src := t.TempDir()
	if err := os.WriteFile(filepath.Join(src, ".terraformignore"), []byte("[\n"), 0o644); err != nil {
		t.Fatal(err)
	}
	if err := os.WriteFile(filepath.Join(src, "main.tf"), []byte("m"), 0o644); err != nil {
		t.Fatal(err)
	}
	p, err := slug.NewPacker(slug.ApplyTerraformIgnore())
	if err != nil {
		t.Fatal(err)
	}
	var buf bytes.Buffer
	meta, err := p.Pack(src, &buf)
	if err != nil {
		t.Fatal(err)
	}
	found := false
	for _, f := range meta.Files {
		if f == "main.tf" {
			found = true
		}
	}
	if !found {
		t.Errorf("main.tf is excluded by no rule but is missing from the slug: %v", meta.Files)
	}
}
