// place in: .
package slug

import (
	"bytes"
	"os"
	"path/filepath"
	"testing"
)

// A source argument that denotes no directory tree (empty string, a path below
// a missing directory, a regular file spelled with a trailing separator) is an
// error; it is not silently replaced by the working directory or an empty slug.
func TestMut100217_SourceThatDoesNotExist(t *testing.T) {
	dir := t.TempDir()
	if err := os.WriteFile(filepath.Join(dir, "file"), []byte("x"), 0644); err != nil {
		t.Fatal(err)
	}
	for _, src := range []string{
		"",
		dir + "/missing/..",
		dir + "/file/",
	} {
		if _, err := os.Lstat(src); err == nil {
			t.Fatalf("test setup: %q exists", src)
		}
		meta, err := Pack(src, &bytes.Buffer{}, false)
		if err == nil {
			t.Errorf("Pack(%q) succeeded with %d files, want an error", src, len(meta.Files))
		}
	}
}
