// place in: .
package slug

import (
	"archive/tar"
	"bytes"
	"compress/gzip"
	"io"
	"os"
	"path/filepath"
	"testing"
	"time"
)

// A dereferenced out-of-tree link must be stored as a copy of the file it
// points to, including that file's modification time.
func TestMut650DereferencedCopyKeepsTargetModTime(t *testing.T) {
	base := t.TempDir()
	src := filepath.Join(base, "src")
	outside := filepath.Join(base, "outside")
	if err := os.MkdirAll(src, 0o755); err != nil {
		t.Fatal(err)
	}
	if err := os.MkdirAll(outside, 0o755); err != nil {
		t.Fatal(err)
	}
	target := filepath.Join(outside, "data.txt")
	if err := os.WriteFile(target, []byte("hello"), 0o640); err != nil {
		t.Fatal(err)
	}
	want := time.Date(2001, 2, 3, 4, 5, 6, 0, time.UTC)
	if err := os.Chtimes(target, want, want); err != nil {
		t.Fatal(err)
	}
	if err := os.Symlink(target, filepath.Join(src, "link")); err != nil {
		t.Fatal(err)
	}

	p, err := NewPacker(DereferenceSymlinks())
	if err != nil {
		t.Fatal(err)
	}
	var buf bytes.Buffer
	if _, err := p.Pack(src, &buf); err != nil {
		t.Fatalf("Pack: %v", err)
	}
	gz, err := gzip.NewReader(&buf)
	if err != nil {
		t.Fatal(err)
	}
	tr := tar.NewReader(gz)
	found := false
	for {
		h, err := tr.Next()
		if err == io.EOF {
			break
		}
		if err != nil {
			t.Fatal(err)
		}
		if h.Name == "link" {
			found = true
			if h.Typeflag != tar.TypeReg {
				t.Fatalf("link stored with type %q, want regular file", h.Typeflag)
			}
			if !h.ModTime.Equal(want) {
				t.Fatalf("dereferenced copy has mod time %v, want the target's %v", h.ModTime.UTC(), want)
			}
		}
	}
	if !found {
		t.Fatal("entry 'link' not found in slug")
	}
}
