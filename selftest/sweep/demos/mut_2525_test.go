// place in: sourcebundle
package sourcebundle

import (
	"os"
	"path/filepath"
	"testing"
)

// A manifest whose registry version key is not a version must be refused;
// with the error dropped it is silently read as version 0.0.0.
func TestMut2525(t *testing.T) {
	dir := t.TempDir()
	manifest := `{"terraform_source_bundle":1,"registry":[{"source":"example.com/foo/bar/baz","versions":{"garbage":{"source":"https://example.com/foo.tgz"}}}]}`
	if err := os.WriteFile(filepath.Join(dir, "terraform-sources.json"), []byte(manifest), 0644); err != nil {
		t.Fatal(err)
	}
	b, err := OpenDir(dir)
	if err != nil {
		return
	}
	for _, pkg := range b.RegistryPackages() {
		t.Logf("%s has versions %v", pkg, b.RegistryPackageVersions(pkg))
	}
	t.Fatalf("manifest with version %q was accepted", "garbage")
}
