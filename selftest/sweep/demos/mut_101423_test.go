// place in: sourceaddrs
package sourceaddrs

import (
	"net/url"
	"testing"
)

// C06: a remote source whose package URL ends in a slash, combined with a
// sub-path, must print to a string that parses back to the same address.
func TestMut101423TrailingSlashPackageWithSubPathRoundTrips(t *testing.T) {
	u, err := url.Parse("https://example.com/foo/")
	if err != nil {
		t.Fatal(err)
	}
	src, err := MakeRemoteSource("git", u, "sub/dir")
	if err != nil {
		t.Fatalf("MakeRemoteSource: %s", err)
	}
	str := src.String()
	got, err := ParseRemoteSource(str)
	if err != nil {
		t.Fatalf("printed address %q does not parse back: %s", str, err)
	}
	if got != src {
		t.Fatalf("printed address %q parses back to a different address %q", str, got.String())
	}
	if got.SubPath() != "sub/dir" {
		t.Fatalf("wrong sub-path %q after round trip of %q", got.SubPath(), str)
	}
	// Also with a query string after the sub-path.
	const given = "git::https://example.com/foo///sub?ref=main"
	got2, err := ParseRemoteSource(given)
	if err != nil {
		t.Fatalf("%q rejected: %s", given, err)
	}
	if got2.SubPath() != "sub" || got2.String() != given {
		t.Fatalf("%q parsed to sub-path %q, prints as %q", given, got2.SubPath(), got2.String())
	}
}
