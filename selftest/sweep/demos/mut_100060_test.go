// place in: sourcebundle
package sourcebundle_test

import (
	"context"
	"io/fs"
	"net/url"
	"os"
	"path/filepath"
	"strings"
	"testing"

	"github.com/hashicorp/go-slug/sourceaddrs"
	"github.com/hashicorp/go-slug/sourcebundle"
)

type mut100060Fetcher struct{}

func (mut100060Fetcher) FetchSourcePackage(ctx context.Context, sourceType string, u *url.URL, targetDir string) (sourcebundle.FetchSourcePackageResponse, error) {
	// A rule file whose first line is longer than the line scanner accepts,
	// followed by a rule that excludes secret.txt. The scan stops with an
	// error at the long line, so the rule after it is never read.
	rules := strings.Repeat("x", 70*1024) + "\nsecret.txt\n"
	if err := os.WriteFile(filepath.Join(targetDir, ".terraformignore"), []byte(rules), 0o644); err != nil {
		return sourcebundle.FetchSourcePackageResponse{}, err
	}
	if err := os.WriteFile(filepath.Join(targetDir, "secret.txt"), []byte("s"), 0o644); err != nil {
		return sourcebundle.FetchSourcePackageResponse{}, err
	}
	return sourcebundle.FetchSourcePackageResponse{}, os.WriteFile(filepath.Join(targetDir, "main.tf"), []byte("m"), 0o644)
}

type mut100060Finder struct{}

func (mut100060Finder) FindDependencies(fsys fs.FS, subPath string, deps *sourcebundle.Dependencies) sourcebundle.Diagnostics {
	return nil
}

// A rule file that cannot be read to its end must fail the build (the
// rules are only partly known); it must never yield a bundle that ships a
// file which a rule of that file excludes.
func TestMut100060(t *testing.T) {
	target := t.TempDir()
	b, err := sourcebundle.NewBuilder(target, mut100060Fetcher{}, nil)
	if err != nil {
		t.Fatal(err)
	}
	src := sourceaddrs.MustParseSource("https://example.com/pkg.tgz").(sourceaddrs.RemoteSource)
	diags := b.AddRemoteSource(context.Background(), src, mut100060Finder{})
	if diags.HasErrors() {
		return // reported: fine
	}
	bundle, err := b.Close()
	if err != nil {
		return
	}
	dir, err := bundle.LocalPathForRemoteSource(src)
	if err != nil {
		t.Fatal(err)
	}
	if _, err := os.Lstat(filepath.Join(dir, "secret.txt")); err == nil {
		t.Errorf("build succeeded although .terraformignore could not be read completely, and secret.txt (excluded by a rule of that file) was shipped")
	}
}
