// place in: sourceaddrs
package sourceaddrs

import "testing"

func TestMut1644SingleArchiveArgument(t *testing.T) {
	for _, in := range []string{
		"https://example.com/pkg?archive=tgz&archive=zip",
		"https://example.com/pkg?archive=tar.gz&archive=tgz",
		"https://example.com/pkg?archive=tgz&archive=zip&archive=rar",
	} {
		got, err := ParseRemoteSource(in)
		if err == nil {
			t.Fatalf("ParseRemoteSource(%q) accepted more than one 'archive' argument; prints as %q", in, got.String())
		}
	}
}
