// place in: .
package slug

import (
	"bytes"
	"fmt"
	"os"
	"path/filepath"
	"reflect"
	"testing"
)

// A source reached through a chain of 255 links (the documented hop limit) packs
// the same as the directory itself.
func TestMut100222_LinkChainAtLimit(t *testing.T) {
	dir := t.TempDir()
	real := filepath.Join(dir, "real")
	if err := os.Mkdir(real, 0755); err != nil {
		t.Fatal(err)
	}
	if err := os.WriteFile(filepath.Join(real, "f.txt"), []byte("x"), 0644); err != nil {
		t.Fatal(err)
	}
	prev := real
	for i := 0; i < 255; i++ {
		l := filepath.Join(dir, fmt.Sprintf("l%03d", i))
		if err := os.Symlink(prev, l); err != nil {
			t.Fatal(err)
		}
		prev = l
	}
	want, err := Pack(real, &bytes.Buffer{}, false)
	if err != nil {
		t.Fatal(err)
	}
	got, err := Pack(prev, &bytes.Buffer{}, false)
	if err != nil {
		t.Fatalf("Pack through 255 links: %v", err)
	}
	if !reflect.DeepEqual(want.Files, got.Files) {
		t.Fatalf("files differ: %v vs %v", want.Files, got.Files)
	}
}
