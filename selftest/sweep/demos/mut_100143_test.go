// place in: .
package slug

import (
	"archive/tar"
	"bytes"
	"compress/gzip"
	"testing"
)

// An entry "a/b/c" after a regular file "a": Lstat(dst/a/b) fails with ENOTDIR,
// which must be reported as an error, not dereferenced as a nil FileInfo.
func TestMut100143_LstatErrorNoPanic(t *testing.T) {
	var buf bytes.Buffer
	gz := gzip.NewWriter(&buf)
	tw := tar.NewWriter(gz)
	body := []byte("x")
	for _, name := range []string{"a", "a/b/c"} {
		if err := tw.WriteHeader(&tar.Header{Name: name, Typeflag: tar.TypeReg, Mode: 0644, Size: int64(len(body))}); err != nil {
			t.Fatal(err)
		}
		if _, err := tw.Write(body); err != nil {
			t.Fatal(err)
		}
	}
	tw.Close()
	gz.Close()

	dst := t.TempDir()
	var err error
	func() {
		defer func() {
			if r := recover(); r != nil {
				t.Fatalf("Unpack panicked: %v", r)
			}
		}()
		err = Unpack(bytes.NewReader(buf.Bytes()), dst)
	}()
	if err == nil {
		t.Fatalf("expected an error for an entry below a regular file")
	}
}
