// place in: sourceaddrs
package sourceaddrs

import "testing"

// C11/C06: resolving a local address against a local base whose joined path is
// "." or ".." must yield the canonical local address "./" or "../".
func TestMut1231ResolveRelativeFinalLocalDot(t *testing.T) {
	cases := []struct{ base, rel, want string }{
		{"./a", "../", "./"},
		{"./a/b", "../..", "./"},
		{"./", "../", "../"},
		{"../a", "../", "../"},
	}
	for _, c := range cases {
		base, err := ParseFinalSource(c.base)
		if err != nil {
			t.Fatal(err)
		}
		rel, err := ParseFinalSource(c.rel)
		if err != nil {
			t.Fatal(err)
		}
		got, err := ResolveRelativeFinalSource(base, rel)
		if err != nil {
			t.Errorf("resolve %q + %q: unexpected error: %v", c.base, c.rel, err)
			continue
		}
		if got.String() != c.want {
			t.Errorf("resolve %q + %q = %q, want %q", c.base, c.rel, got.String(), c.want)
			continue
		}
		back, err := ParseFinalSource(got.String())
		if err != nil || back != got {
			t.Errorf("result %q does not parse back: %v", got.String(), err)
		}
	}
}
