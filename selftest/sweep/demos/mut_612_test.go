// place in: .
package slug

import (
	"archive/tar"
	"bytes"
	"compress/gzip"
	"errors"
	"io"
	"math/rand"
	"os"
	"path/filepath"
	"strings"
	"testing"
)

var _ = tar.TypeReg
var _ = gzip.BestSpeed
var _ = io.EOF
var _ = rand.Int
var _ = strings.Contains
var _ = errors.New
var _ bytes.Buffer

func mk612(t *testing.T, p string) {
	t.Helper()
	if err := os.MkdirAll(p, 0755); err != nil {
		t.Fatal(err)
	}
}

func wr612(t *testing.T, p, c string) {
	t.Helper()
	mk612(t, filepath.Dir(p))
	if err := os.WriteFile(p, []byte(c), 0644); err != nil {
		t.Fatal(err)
	}
}

func ln612(t *testing.T, target, p string) {
	t.Helper()
	mk612(t, filepath.Dir(p))
	if err := os.Symlink(target, p); err != nil {
		t.Fatal(err)
	}
}

func tmp612(t *testing.T) string {
	d, err := filepath.EvalSymlinks(t.TempDir())
	if err != nil {
		t.Fatal(err)
	}
	return d
}

type limitW612 struct{ left int }

var errFull612 = errors.New("writer full")

func (w *limitW612) Write(p []byte) (int, error) {
	if len(p) > w.left {
		return 0, errFull612
	}
	w.left -= len(p)
	return len(p), nil
}

// An out-of-tree directory containing a link back to itself must be refused
// with an illegal-slug error. Without the check Pack recurses for ever; the
// size-limited writer (and the incompressible file, which sorts before the
// link) only serves to end the test when that happens.
func TestMut612_SymlinkCycle(t *testing.T) {
	base := tmp612(t)
	src := filepath.Join(base, "src")
	wr612(t, filepath.Join(src, "file.txt"), "in")
	noise := make([]byte, 128<<10)
	rand.New(rand.NewSource(1)).Read(noise)
	wr612(t, filepath.Join(base, "o", "d", "a.bin"), string(noise))
	ln612(t, filepath.Join(base, "o", "d"), filepath.Join(base, "o", "d", "back"))
	ln612(t, filepath.Join(base, "o", "d"), filepath.Join(src, "link"))
	p, _ := NewPacker(DereferenceSymlinks())
	_, err := p.Pack(src, &limitW612{left: 2 << 20})
	var ise *IllegalSlugError
	if !errors.As(err, &ise) {
		t.Fatalf("want IllegalSlugError for a symlink cycle, got: %v (Pack walked the cycle until the writer was full)", err)
	}
}

// An out-of-tree directory that itself holds a link to another, unrelated
// out-of-tree directory: no cycle, both are copied in.
func TestMut612_NestedExternalDirs(t *testing.T) {
	base := tmp612(t)
	src := filepath.Join(base, "src")
	wr612(t, filepath.Join(src, "file.txt"), "in")
	wr612(t, filepath.Join(base, "o", "d2", "f.txt"), "two")
	wr612(t, filepath.Join(base, "o", "d1", "g.txt"), "one")
	ln612(t, filepath.Join(base, "o", "d2"), filepath.Join(base, "o", "d1", "l2"))
	ln612(t, filepath.Join(base, "o", "d1"), filepath.Join(src, "link"))
	p, _ := NewPacker(DereferenceSymlinks())
	var buf bytes.Buffer
	meta, err := p.Pack(src, &buf)
	if err != nil {
		t.Fatalf("pack of an acyclic tree: %v", err)
	}
	if !strings.Contains(strings.Join(meta.Files, "|"), "link/l2/f.txt") {
		t.Errorf("missing link/l2/f.txt: %q", meta.Files)
	}
}
