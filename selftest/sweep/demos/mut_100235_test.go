// place in: .
package slug

import (
	"errors"
	"os"
	"path/filepath"
	"testing"
)

type mut100235FailingWriter struct{}

func (mut100235FailingWriter) Write(p []byte) (int, error) {
	return 0, errors.New("disk full")
}

// A tree that is refused by policy (out-of-tree link, no dereferencing) is
// reported as an IllegalSlugError. Nothing has been written when the link is
// met, so the state of the output writer has no say in that.
func TestMut100235_PolicyRejectionStaysDistinguishable(t *testing.T) {
	outside := t.TempDir()
	src := t.TempDir()
	if err := os.Symlink(filepath.Join(outside, "x"), filepath.Join(src, "link")); err != nil {
		t.Fatal(err)
	}
	_, err := Pack(src, mut100235FailingWriter{}, false)
	if err == nil {
		t.Fatal("expected an error")
	}
	var illegal *IllegalSlugError
	if !errors.As(err, &illegal) {
		t.Fatalf("got %v, want an IllegalSlugError", err)
	}
}
