// place in: sourceaddrs
package sourceaddrs

import "testing"

// C11: resolving a relative address against a local base follows path algebra,
// also when the result is the base directory itself or its parent.
func TestMut1120(t *testing.T) {
	for _, c := range []struct{ a, b, want string }{
		{"./a", "../", "./"},
		{"./", "./", "./"},
		{"./", "../", "../"},
		{"./a", "../..", "../"},
		{"./a", "./b", "./a/b"},
	} {
		a, err := ParseSource(c.a)
		if err != nil {
			t.Fatal(err)
		}
		b, err := ParseSource(c.b)
		if err != nil {
			t.Fatal(err)
		}
		got, err := ResolveRelativeSource(a, b)
		if err != nil {
			t.Errorf("resolve(%q,%q): %v", c.a, c.b, err)
			continue
		}
		if got == nil || got.String() != c.want {
			t.Errorf("resolve(%q,%q) = %v, want %q", c.a, c.b, got, c.want)
		}
	}
}
