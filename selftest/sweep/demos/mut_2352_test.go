// place in: sourcebundle
package sourcebundle_test

import (
	"context"
	"io/fs"
	"net/url"
	"os"
	"path/filepath"
	"testing"

	"github.com/hashicorp/go-slug/sourceaddrs"
	"github.com/hashicorp/go-slug/sourcebundle"
)

type mut2352Fetcher struct{}

// The fetched package has a link that climbs out of the package and comes
// back in through the (temporary) name of the package directory.
func (mut2352Fetcher) FetchSourcePackage(ctx context.Context, sourceType string, u *url.URL, targetDir string) (sourcebundle.FetchSourcePackageResponse, error) {
	var ret sourcebundle.FetchSourcePackageResponse
	if err := os.WriteFile(filepath.Join(targetDir, "file.txt"), []byte("hello"), 0o644); err != nil {
		return ret, err
	}
	target := filepath.Join("..", filepath.Base(targetDir), "file.txt")
	return ret, os.Symlink(target, filepath.Join(targetDir, "link"))
}

type mut2352Finder struct{}

func (mut2352Finder) FindDependencies(fsys fs.FS, subPath string, deps *sourcebundle.Dependencies) sourcebundle.Diagnostics {
	return nil
}

func TestMut2352(t *testing.T) {
	target := t.TempDir()
	b, err := sourcebundle.NewBuilder(target, mut2352Fetcher{}, nil)
	if err != nil {
		t.Fatal(err)
	}
	addr := sourceaddrs.MustParseSource("git::https://example.com/foo.git").(sourceaddrs.RemoteSource)
	diags := b.AddRemoteSource(context.Background(), addr, mut2352Finder{})
	if diags.HasErrors() {
		return // expected: the link leaves the package
	}
	bundle, err := b.Close()
	if err != nil {
		return
	}
	dir, err := bundle.LocalPathForRemoteSource(addr)
	if err != nil {
		t.Fatal(err)
	}
	if _, err := os.Stat(filepath.Join(dir, "link")); err != nil {
		t.Fatalf("build succeeded but the bundle contains a dangling link: %v", err)
	}
	t.Fatalf("build succeeded with a link that leaves the package directory")
}
