// place in: sourcebundle
package sourcebundle_test

import (
	"context"
	"io/fs"
	"net/url"
	"os"
	"path/filepath"
	"sort"
	"testing"

	"github.com/hashicorp/go-slug/sourceaddrs"
	"github.com/hashicorp/go-slug/sourcebundle"
)

// C12: diagnostics raised by dependency finders (warnings too) must reach the
// caller and the tracer, each exactly once, with file names rewritten as
// source addresses inside the analysed package.

type fetcher101545 struct{}

func (fetcher101545) FetchSourcePackage(ctx context.Context, sourceType string, u *url.URL, targetDir string) (sourcebundle.FetchSourcePackageResponse, error) {
	err := os.WriteFile(filepath.Join(targetDir, "main.tf"), []byte("# "+u.String()+"\n"), 0644)
	return sourcebundle.FetchSourcePackageResponse{}, err
}

type warn101545 struct{ summary, filename string }

func (w warn101545) Severity() sourcebundle.DiagSeverity { return sourcebundle.DiagWarning }
func (w warn101545) Description() sourcebundle.DiagDescription {
	return sourcebundle.DiagDescription{Summary: w.summary}
}
func (w warn101545) Source() sourcebundle.DiagSource {
	return sourcebundle.DiagSource{Subject: &sourcebundle.SourceRange{Filename: w.filename}}
}
func (w warn101545) ExtraInfo() interface{} { return nil }

type finder101545 struct {
	summary string
	dep     *sourceaddrs.RemoteSource
	next    *finder101545
}

func (f *finder101545) FindDependencies(fsys fs.FS, subPath string, deps *sourcebundle.Dependencies) sourcebundle.Diagnostics {
	if f.dep != nil {
		deps.AddRemoteSource(*f.dep, f.next)
	}
	return sourcebundle.Diagnostics{warn101545{summary: f.summary, filename: "main.tf"}}
}

func describe101545(diags sourcebundle.Diagnostics) []string {
	var ret []string
	for _, d := range diags {
		fn := ""
		if s := d.Source().Subject; s != nil {
			fn = s.Filename
		}
		ret = append(ret, string(rune(d.Severity()))+" "+d.Description().Summary+" @ "+fn)
	}
	sort.Strings(ret)
	return ret
}

func TestMut101545FinderDiagnosticsReachCallerAndTracer(t *testing.T) {
	addrA := sourceaddrs.MustParseSource("git::https://example.com/a.git").(sourceaddrs.RemoteSource)
	addrB := sourceaddrs.MustParseSource("git::https://example.com/b.git").(sourceaddrs.RemoteSource)
	finderB := &finder101545{summary: "warning from B"}
	finderA := &finder101545{summary: "warning from A", dep: &addrB, next: finderB}

	var traced sourcebundle.Diagnostics
	tracedCalls := 0
	tracer := &sourcebundle.BuildTracer{
		Diagnostics: func(ctx context.Context, diags sourcebundle.Diagnostics) {
			tracedCalls++
			traced = append(traced, diags...)
		},
	}
	ctx := tracer.OnContext(context.Background())

	b, err := sourcebundle.NewBuilder(t.TempDir(), fetcher101545{}, nil)
	if err != nil {
		t.Fatal(err)
	}
	got := b.AddRemoteSource(ctx, addrA, finderA)

	want := []string{
		"W warning from A @ " + addrA.Package().SourceAddr("main.tf").String(),
		"W warning from B @ " + addrB.Package().SourceAddr("main.tf").String(),
	}
	if g := describe101545(got); !equal101545(g, want) {
		t.Errorf("returned diagnostics\n got: %q\nwant: %q", g, want)
	}
	if g := describe101545(traced); !equal101545(g, want) {
		t.Errorf("traced diagnostics\n got: %q\nwant: %q", g, want)
	}
	if tracedCalls != 2 {
		t.Errorf("tracer Diagnostics called %d times, want 2", tracedCalls)
	}
	if _, err := b.Close(); err != nil {
		t.Fatalf("Close: %v", err)
	}
}

func equal101545(a, b []string) bool {
	if len(a) != len(b) {
		return false
	}
	for i := range a {
		if a[i] != b[i] {
			return false
		}
	}
	return true
}
