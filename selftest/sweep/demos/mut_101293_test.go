// place in: sourceaddrs
package sourceaddrs

import (
	"net/url"
	"strings"
	"testing"
)

// C07: an accepted git address has only one optional 'ref' query argument and
// an accepted archive address has no 'checksum'. A pair containing a semicolon
// is dropped by url.URL.Query, so such a query string must be refused on the
// assemble-from-parts route too. C06: what is accepted must parse back.
func TestMut101293(t *testing.T) {
	for _, tc := range []struct{ typ, path, query string }{
		{"git", "/repo.git", "ref=main&x;evil=1"},
		{"https", "/a.tgz", "x;checksum=abc"},
	} {
		u := &url.URL{Scheme: "https", Host: "example.com", Path: tc.path, RawQuery: tc.query}
		src, err := MakeRemoteSource(tc.typ, u, "")
		if err != nil {
			continue // refused: fine
		}
		if q := src.Package().URL().RawQuery; strings.Contains(q, "evil") || strings.Contains(q, "checksum") {
			t.Errorf("accepted %s address %q carries a forbidden query argument (%q)", tc.typ, src.String(), q)
		}
		back, err := ParseRemoteSource(src.String())
		if err != nil {
			t.Errorf("accepted address prints as %q which does not parse back: %v", src.String(), err)
		} else if back != src {
			t.Errorf("accepted address prints as %q which parses back to a different address", src.String())
		}
	}
}
