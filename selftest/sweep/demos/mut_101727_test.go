// place in: sourcebundle
package sourcebundle_test

import (
	"context"
	"fmt"
	"io/fs"
	"net/url"
	"os"
	"path/filepath"
	"testing"

	"github.com/apparentlymart/go-versions/versions"
	regaddr "github.com/hashicorp/terraform-registry-address"

	"github.com/hashicorp/go-slug/sourceaddrs"
	"github.com/hashicorp/go-slug/sourcebundle"
)

type fetcher101727 struct {
	meta map[string]*sourcebundle.PackageMeta
}

func (f fetcher101727) FetchSourcePackage(ctx context.Context, sourceType string, u *url.URL, targetDir string) (sourcebundle.FetchSourcePackageResponse, error) {
	err := os.WriteFile(filepath.Join(targetDir, "content.txt"), []byte(sourceType+" "+u.String()), 0644)
	return sourcebundle.FetchSourcePackageResponse{PackageMeta: f.meta[u.String()]}, err
}

type registry101727 struct{}

func (registry101727) ModulePackageVersions(ctx context.Context, pkgAddr regaddr.ModulePackage) (sourcebundle.ModulePackageVersionsResponse, error) {
	return sourcebundle.ModulePackageVersionsResponse{Versions: []sourcebundle.ModulePackageInfo{
		{Version: versions.MustParseVersion("1.0.0")},
		{Version: versions.MustParseVersion("2.0.0")},
	}}, nil
}

func (registry101727) ModulePackageSourceAddr(ctx context.Context, pkgAddr regaddr.ModulePackage, version versions.Version) (sourcebundle.ModulePackageSourceAddrResponse, error) {
	src := fmt.Sprintf("https://example.com/%s/%s/%s/%s.tgz", pkgAddr.Namespace, pkgAddr.Name, pkgAddr.TargetSystem, version)
	return sourcebundle.ModulePackageSourceAddrResponse{SourceAddr: sourceaddrs.MustParseSource(src).(sourceaddrs.RemoteSource)}, nil
}

type noDeps101727 struct{}

func (noDeps101727) FindDependencies(fsys fs.FS, subPath string, deps *sourcebundle.Dependencies) sourcebundle.Diagnostics {
	return nil
}

func TestMut101727_ManifestIndependentOfOrder_Remote(t *testing.T) {
	const n = 9
	build := func(rot int) string {
		b, err := sourcebundle.NewBuilder(t.TempDir(), fetcher101727{}, registry101727{})
		if err != nil {
			t.Fatal(err)
		}
		for i := 0; i < n; i++ {
			k := (i + rot) % n
			src := sourceaddrs.MustParseSource(fmt.Sprintf("https://example.com/pkg%d.tgz", k)).(sourceaddrs.RemoteSource)
			if diags := b.AddRemoteSource(context.Background(), src, noDeps101727{}); diags.HasErrors() {
				t.Fatalf("unexpected diagnostics for %s", src)
			}
		}
		bundle, err := b.Close()
		if err != nil {
			t.Fatal(err)
		}
		sum, err := bundle.ChecksumV1()
		if err != nil {
			t.Fatal(err)
		}
		return sum
	}
	first := build(0)
	for rot := 1; rot < 8; rot++ {
		if got := build(rot); got != first {
			t.Fatalf("same set of sources gave different bundle checksums:\n%s\n%s", first, got)
		}
	}
}
