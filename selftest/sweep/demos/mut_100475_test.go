// place in: .
package slug

import (
	"archive/tar"
	"bytes"
	"compress/gzip"
	"io"
	"os"
	"path/filepath"
	"testing"
)

type mutEntry100475 struct {
	hdr  *tar.Header
	body string
}

func mutPack100475(t *testing.T, root string) (map[string]mutEntry100475, *Meta) {
	t.Helper()
	p, err := NewPacker(DereferenceSymlinks())
	if err != nil {
		t.Fatal(err)
	}
	var buf bytes.Buffer
	meta, err := p.Pack(root, &buf)
	if err != nil {
		t.Fatalf("Pack failed: %v", err)
	}
	gz, err := gzip.NewReader(&buf)
	if err != nil {
		t.Fatal(err)
	}
	tr := tar.NewReader(gz)
	out := map[string]mutEntry100475{}
	for {
		h, err := tr.Next()
		if err == io.EOF {
			break
		}
		if err != nil {
			t.Fatal(err)
		}
		b, err := io.ReadAll(tr)
		if err != nil {
			t.Fatal(err)
		}
		out[h.Name] = mutEntry100475{h, string(b)}
	}
	return out, meta
}

func mutWrite100475(t *testing.T, path, content string, mode os.FileMode) {
	t.Helper()
	if err := os.MkdirAll(filepath.Dir(path), 0o755); err != nil {
		t.Fatal(err)
	}
	if err := os.WriteFile(path, []byte(content), mode); err != nil {
		t.Fatal(err)
	}
	if err := os.Chmod(path, mode); err != nil {
		t.Fatal(err)
	}
}

// A dereferenced out-of-tree file keeps the permission bits of the target.
func TestMut100475(t *testing.T) {
	T := t.TempDir()
	root := filepath.Join(T, "root")
	mutWrite100475(t, filepath.Join(root, "main.tf"), "x", 0o644)
	mutWrite100475(t, filepath.Join(T, "outside.txt"), "data", 0o644)
	if err := os.Symlink("../outside.txt", filepath.Join(root, "lnk")); err != nil {
		t.Fatal(err)
	}
	ents, _ := mutPack100475(t, root)
	e, ok := ents["lnk"]
	if !ok || e.hdr.Typeflag != tar.TypeReg || e.body != "data" {
		t.Fatalf("lnk not stored as a copy: %v", ents)
	}
	if e.hdr.Mode != 0o644 {
		t.Fatalf("lnk mode %o, want 644", e.hdr.Mode)
	}
}
