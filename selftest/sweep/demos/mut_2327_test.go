// place in: sourcebundle
package sourcebundle_test

import (
	"context"
	"io/fs"
	"net/url"
	"os"
	"path/filepath"
	"testing"

	"github.com/hashicorp/go-slug/sourceaddrs"
	"github.com/hashicorp/go-slug/sourcebundle"
)

type mut2327Fetcher struct{}

// The package has an (empty) .terraform directory, and an empty directory
// selected by the user's rule "logs/"; both are excluded as directories.
func (mut2327Fetcher) FetchSourcePackage(ctx context.Context, sourceType string, u *url.URL, targetDir string) (sourcebundle.FetchSourcePackageResponse, error) {
	var ret sourcebundle.FetchSourcePackageResponse
	if err := os.WriteFile(filepath.Join(targetDir, "main.tf"), []byte("hello"), 0o644); err != nil {
		return ret, err
	}
	if err := os.WriteFile(filepath.Join(targetDir, ".terraformignore"), []byte("logs/\n!keep.txt\n"), 0o644); err != nil {
		return ret, err
	}
	if err := os.Mkdir(filepath.Join(targetDir, "logs"), 0o755); err != nil {
		return ret, err
	}
	return ret, os.Mkdir(filepath.Join(targetDir, ".terraform"), 0o755)
}

type mut2327Finder struct{}

func (mut2327Finder) FindDependencies(fsys fs.FS, subPath string, deps *sourcebundle.Dependencies) sourcebundle.Diagnostics {
	return nil
}

func TestMut2327(t *testing.T) {
	target := t.TempDir()
	b, err := sourcebundle.NewBuilder(target, mut2327Fetcher{}, nil)
	if err != nil {
		t.Fatal(err)
	}
	addr := sourceaddrs.MustParseSource("git::https://example.com/foo.git").(sourceaddrs.RemoteSource)
	diags := b.AddRemoteSource(context.Background(), addr, mut2327Finder{})
	if diags.HasErrors() {
		t.Fatalf("unexpected errors: %v", diags)
	}
	bundle, err := b.Close()
	if err != nil {
		t.Fatal(err)
	}
	dir, err := bundle.LocalPathForRemoteSource(addr)
	if err != nil {
		t.Fatal(err)
	}
	if _, err := os.Stat(filepath.Join(dir, "main.tf")); err != nil {
		t.Fatal(err)
	}
	for _, name := range []string{".terraform", "logs"} {
		if _, err := os.Lstat(filepath.Join(dir, name)); err == nil {
			t.Errorf("excluded directory %q is still in the bundle package", name)
		}
	}
}
