// place in: sourcebundle
package sourcebundle_test

import (
	"context"
	"fmt"
	"io/fs"
	"net/url"
	"os"
	"path/filepath"
	"testing"

	"github.com/apparentlymart/go-versions/versions"
	"github.com/hashicorp/go-slug/sourceaddrs"
	"github.com/hashicorp/go-slug/sourcebundle"
	regaddr "github.com/hashicorp/terraform-registry-address"
)

type mut2234Fetcher struct{}

func (mut2234Fetcher) FetchSourcePackage(ctx context.Context, sourceType string, u *url.URL, targetDir string) (sourcebundle.FetchSourcePackageResponse, error) {
	var ret sourcebundle.FetchSourcePackageResponse
	return ret, os.WriteFile(filepath.Join(targetDir, "hello"), []byte(u.String()+"\n"), 0644)
}

var mut2234Versions = []string{"1.0.0", "1.1.0", "1.2.0", "2.0.0", "2.1.0", "3.0.0"}

type mut2234Registry struct{}

func (mut2234Registry) ModulePackageVersions(ctx context.Context, pkgAddr regaddr.ModulePackage) (sourcebundle.ModulePackageVersionsResponse, error) {
	var ret sourcebundle.ModulePackageVersionsResponse
	for _, v := range mut2234Versions {
		ret.Versions = append(ret.Versions, sourcebundle.ModulePackageInfo{Version: versions.MustParseVersion(v)})
	}
	return ret, nil
}
func (mut2234Registry) ModulePackageSourceAddr(ctx context.Context, pkgAddr regaddr.ModulePackage, version versions.Version) (sourcebundle.ModulePackageSourceAddrResponse, error) {
	var ret sourcebundle.ModulePackageSourceAddrResponse
	ret.SourceAddr = sourceaddrs.MustParseSource(fmt.Sprintf("https://example.com/foo-%s.tgz", version)).(sourceaddrs.RemoteSource)
	return ret, nil
}

type mut2234NoDeps struct{}

func (mut2234NoDeps) FindDependencies(fsys fs.FS, subPath string, deps *sourcebundle.Dependencies) sourcebundle.Diagnostics {
	return nil
}

// The manifest (and therefore the bundle checksum) must be a function of the
// inputs only: building the same thing repeatedly must give identical
// manifest bytes, with one registry entry per registry package.
func TestMut2234ManifestDeterministic(t *testing.T) {
	reg := sourceaddrs.MustParseSource("example.com/foo/bar/baz").(sourceaddrs.RegistrySource)
	var first []byte
	for i := 0; i < 25; i++ {
		dir := t.TempDir()
		b, err := sourcebundle.NewBuilder(dir, mut2234Fetcher{}, mut2234Registry{})
		if err != nil {
			t.Fatal(err)
		}
		for _, v := range mut2234Versions {
			diags := b.AddRegistrySource(context.Background(), reg, versions.Only(versions.MustParseVersion(v)), mut2234NoDeps{})
			if diags.HasErrors() {
				t.Fatalf("unexpected diagnostics: %v", diags)
			}
		}
		if _, err := b.Close(); err != nil {
			t.Fatal(err)
		}
		got, err := os.ReadFile(filepath.Join(dir, "terraform-sources.json"))
		if err != nil {
			t.Fatal(err)
		}
		if first == nil {
			first = got
		} else if string(got) != string(first) {
			t.Fatalf("manifest differs between identical builds (build %d):\n%s\n---- vs first ----\n%s", i, got, first)
		}
	}
}
