// place in: .
// NOTE: only meaningful when built with the custom tag the library uses to
// enable symlink timestamps:  go test -tags linux_amd64 -vet=off -count=1 .
// Without that tag restoreSymlink is unreachable and this file is not compiled.

//go:build linux_amd64

package slug

import (
	"bytes"
	"os"
	"path/filepath"
	"testing"
)

// C02 / C12: a tree with an in-tree relative symlink packs and unpacks.
func TestMut200178SymlinkRoundTrip(t *testing.T) {
	src := t.TempDir()
	if err := os.WriteFile(filepath.Join(src, "a.txt"), []byte("x"), 0644); err != nil {
		t.Fatal(err)
	}
	if err := os.Symlink("a.txt", filepath.Join(src, "l")); err != nil {
		t.Fatal(err)
	}
	var buf bytes.Buffer
	if _, err := Pack(src, &buf, false); err != nil {
		t.Fatal(err)
	}
	dst := t.TempDir()
	if err := Unpack(&buf, dst); err != nil {
		t.Fatalf("Unpack of a slug made by Pack failed: %v", err)
	}
	if got, err := os.Readlink(filepath.Join(dst, "l")); err != nil || got != "a.txt" {
		t.Fatalf("link not restored: %q, %v", got, err)
	}
}
