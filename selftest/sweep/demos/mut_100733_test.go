// place in: .
package slug

import (
	"archive/tar"
	"bytes"
	"compress/gzip"
	"os"
	"path/filepath"
	"testing"
)

// A link that points at the slug root itself ("sub/up" -> "..") stays inside
// the destination and must be materialised, however dst is spelled (C15/C02).
func TestMut100733LinkToRootTrailingSlashDst(t *testing.T) {
	var buf bytes.Buffer
	gz := gzip.NewWriter(&buf)
	tw := tar.NewWriter(gz)
	if err := tw.WriteHeader(&tar.Header{Name: "sub/", Typeflag: tar.TypeDir, Mode: 0755}); err != nil {
		t.Fatal(err)
	}
	if err := tw.WriteHeader(&tar.Header{Name: "sub/up", Typeflag: tar.TypeSymlink, Linkname: "..", Mode: 0777}); err != nil {
		t.Fatal(err)
	}
	tw.Close()
	gz.Close()

	dst := t.TempDir()
	if err := Unpack(&buf, dst+string(filepath.Separator)); err != nil {
		t.Fatalf("Unpack failed: %v", err)
	}
	got, err := os.Readlink(filepath.Join(dst, "sub", "up"))
	if err != nil || got != ".." {
		t.Fatalf("link not materialised: %q %v", got, err)
	}
}
