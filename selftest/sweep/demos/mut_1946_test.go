// place in: sourcebundle
package sourcebundle_test

import (
	"context"
	"errors"
	"io/fs"
	"net/url"
	"testing"

	"github.com/hashicorp/go-slug/sourceaddrs"
	"github.com/hashicorp/go-slug/sourcebundle"
)

type m1946Fetcher struct{}

func (m1946Fetcher) FetchSourcePackage(ctx context.Context, sourceType string, u *url.URL, targetDir string) (sourcebundle.FetchSourcePackageResponse, error) {
	return sourcebundle.FetchSourcePackageResponse{}, errors.New("fetch failed")
}

type m1946Finder struct{}

func (m1946Finder) FindDependencies(fsys fs.FS, subPath string, deps *sourcebundle.Dependencies) sourcebundle.Diagnostics {
	return nil
}

func TestMut1946FetchFailureIsReported(t *testing.T) {
	b, err := sourcebundle.NewBuilder(t.TempDir(), m1946Fetcher{}, nil)
	if err != nil {
		t.Fatal(err)
	}
	addr := sourceaddrs.MustParseSource("git::https://example.com/foo.git").(sourceaddrs.RemoteSource)
	diags := b.AddRemoteSource(context.Background(), addr, m1946Finder{})
	if !diags.HasErrors() {
		t.Fatalf("fetch failed but the build reported no error")
	}
}
