// place in: sourcebundle
package sourcebundle_test

import (
	"context"
	"fmt"
	"io/fs"
	"net/url"
	"os"
	"path/filepath"
	"testing"

	"github.com/hashicorp/go-slug/sourceaddrs"
	"github.com/hashicorp/go-slug/sourcebundle"
)

type fetcher101787 func(dir string) error

func (f fetcher101787) FetchSourcePackage(ctx context.Context, sourceType string, u *url.URL, targetDir string) (sourcebundle.FetchSourcePackageResponse, error) {
	return sourcebundle.FetchSourcePackageResponse{}, f(targetDir)
}

type noDeps101787 struct{}

func (noDeps101787) FindDependencies(fsys fs.FS, subPath string, deps *sourcebundle.Dependencies) sourcebundle.Diagnostics {
	return nil
}

// build101787 builds a bundle in targetDir from one remote package whose
// content is produced by populate, and returns the package directory.
func build101787(targetDir string, populate func(dir string) error) (string, error) {
	b, err := sourcebundle.NewBuilder(targetDir, fetcher101787(populate), nil)
	if err != nil {
		return "", err
	}
	src := sourceaddrs.MustParseSource("https://example.com/pkg.tgz").(sourceaddrs.RemoteSource)
	diags := b.AddRemoteSource(context.Background(), src, noDeps101787{})
	if diags.HasErrors() {
		msg := ""
		for _, d := range diags {
			msg += d.Description().Summary + ": " + d.Description().Detail + "; "
		}
		return "", fmt.Errorf("build failed: %s", msg)
	}
	bundle, err := b.Close()
	if err != nil {
		return "", err
	}
	return bundle.LocalPathForRemoteSource(src)
}

var _ = filepath.Join
var _ = os.Lstat

// .git/ (default rule) and logs/ (user rule) exclude the directory and
// everything below it: nothing of them may remain in the package directory.
func TestMut101787_ExcludedDirRemoved(t *testing.T) {
	target := t.TempDir()
	dir, err := build101787(target, func(dir string) error {
		if err := os.WriteFile(filepath.Join(dir, ".terraformignore"), []byte("logs/\n"), 0644); err != nil {
			return err
		}
		for _, d := range []string{".git/objects", "logs/app"} {
			if err := os.MkdirAll(filepath.Join(dir, d), 0755); err != nil {
				return err
			}
		}
		for _, f := range []string{".git/config", ".git/objects/aa", "logs/app/debug.txt", "main.tf"} {
			if err := os.WriteFile(filepath.Join(dir, f), []byte(f), 0644); err != nil {
				return err
			}
		}
		return nil
	})
	if err != nil {
		t.Fatalf("build failed: %v", err)
	}
	for _, p := range []string{".git", "logs"} {
		if _, err := os.Lstat(filepath.Join(dir, p)); err == nil {
			t.Errorf("%s is excluded together with everything below it, but is still present", p)
		}
	}
	if _, err := os.Lstat(filepath.Join(dir, "main.tf")); err != nil {
		t.Errorf("main.tf missing: %v", err)
	}
}
