// place in: sourcebundle
package sourcebundle_test

import (
	"context"
	"io/fs"
	"net/url"
	"os"
	"path/filepath"
	"testing"

	"github.com/hashicorp/go-slug/sourceaddrs"
	"github.com/hashicorp/go-slug/sourcebundle"
)

type mut2744Diag struct {
	sev     sourcebundle.DiagSeverity
	summary string
	src     sourcebundle.DiagSource
}

func (d mut2744Diag) Severity() sourcebundle.DiagSeverity { return d.sev }
func (d mut2744Diag) Description() sourcebundle.DiagDescription {
	return sourcebundle.DiagDescription{Summary: d.summary}
}
func (d mut2744Diag) Source() sourcebundle.DiagSource { return d.src }
func (d mut2744Diag) ExtraInfo() interface{}          { return nil }

type mut2744Fetcher struct{}

func (mut2744Fetcher) FetchSourcePackage(ctx context.Context, sourceType string, u *url.URL, targetDir string) (sourcebundle.FetchSourcePackageResponse, error) {
	err := os.WriteFile(filepath.Join(targetDir, "main.txt"), []byte("hello\n"), 0o644)
	return sourcebundle.FetchSourcePackageResponse{}, err
}

type mut2744Finder struct{ diags sourcebundle.Diagnostics }

func (f *mut2744Finder) FindDependencies(fsys fs.FS, subPath string, deps *sourcebundle.Dependencies) sourcebundle.Diagnostics {
	return f.diags
}

func mut2744Run(t *testing.T, in sourcebundle.Diagnostics) (sourcebundle.Diagnostics, string) {
	t.Helper()
	b, err := sourcebundle.NewBuilder(t.TempDir(), mut2744Fetcher{}, nil)
	if err != nil {
		t.Fatal(err)
	}
	src := sourceaddrs.MustParseSource("https://example.com/foo.tgz").(sourceaddrs.RemoteSource)
	var traced sourcebundle.Diagnostics
	tracer := &sourcebundle.BuildTracer{
		Diagnostics: func(ctx context.Context, diags sourcebundle.Diagnostics) {
			traced = append(traced, diags...)
		},
	}
	ctx := tracer.OnContext(context.Background())
	got := b.AddRemoteSource(ctx, src, &mut2744Finder{in})
	if len(got) != len(in) {
		t.Fatalf("got %d diagnostics, want %d", len(got), len(in))
	}
	if len(traced) != len(in) {
		t.Fatalf("tracer got %d diagnostics, want %d", len(traced), len(in))
	}
	want := src.Package().SourceAddr("main.txt").String()
	if want == "main.txt" {
		t.Fatal("bad test expectation")
	}
	return got, want
}

// C12: warnings raised by a dependency finder reach the caller with their
// package-relative file names rewritten as source addresses in the package.
func TestMut2744DiagnosticFilenamesRewritten(t *testing.T) {
	rng := func() *sourcebundle.SourceRange {
		return &sourcebundle.SourceRange{Filename: "main.txt", Start: sourcebundle.SourcePos{Line: 1, Column: 1}, End: sourcebundle.SourcePos{Line: 1, Column: 2, Byte: 1}}
	}
	check := func(t *testing.T, name string, got *sourcebundle.SourceRange, wantNil bool, want string) {
		t.Helper()
		if wantNil {
			if got != nil {
				t.Errorf("%s: want nil range, got %#v", name, got)
			}
			return
		}
		if got == nil {
			t.Errorf("%s: range lost", name)
			return
		}
		if got.Filename != want {
			t.Errorf("%s: filename %q, want %q", name, got.Filename, want)
		}
		if got.Start.Line != 1 || got.End.Column != 2 {
			t.Errorf("%s: positions changed: %#v", name, got)
		}
	}

	t.Run("single", func(t *testing.T) {
		got, want := mut2744Run(t, sourcebundle.Diagnostics{
			mut2744Diag{sourcebundle.DiagWarning, "both", sourcebundle.DiagSource{Subject: rng(), Context: rng()}},
		})
		s := got[0].Source()
		check(t, "subject", s.Subject, false, want)
		check(t, "context", s.Context, false, want)
		if got[0].Severity() != sourcebundle.DiagWarning || got[0].Description().Summary != "both" {
			t.Errorf("severity/text changed")
		}
	})
	t.Run("several", func(t *testing.T) {
		got, want := mut2744Run(t, sourcebundle.Diagnostics{
			mut2744Diag{sourcebundle.DiagWarning, "only-context", sourcebundle.DiagSource{Context: rng()}},
			mut2744Diag{sourcebundle.DiagWarning, "only-subject", sourcebundle.DiagSource{Subject: rng()}},
			mut2744Diag{sourcebundle.DiagWarning, "neither", sourcebundle.DiagSource{}},
		})
		s := got[0].Source()
		check(t, "0.subject", s.Subject, true, "")
		check(t, "0.context", s.Context, false, want)
		s = got[1].Source()
		check(t, "1.subject", s.Subject, false, want)
		check(t, "1.context", s.Context, true, "")
		s = got[2].Source()
		check(t, "2.subject", s.Subject, true, "")
		check(t, "2.context", s.Context, true, "")
	})
}
