// place in: sourcebundle
package sourcebundle_test

import (
	"os"
	"path/filepath"
	"reflect"
	"strings"
	"testing"

	"github.com/hashicorp/go-slug/sourceaddrs"
	"github.com/hashicorp/go-slug/sourcebundle"
)

// Re-opening a bundle directory must give the same versions for a registry
// package (C09, C13): the list must not depend on map iteration order.
func TestMut102165_RegistryPackageVersionsConsistent(t *testing.T) {
	dir := t.TempDir()
	var vs []string
	for _, v := range []string{
		"0.9.0", "1.0.0", "1.1.0", "1.2.0", "1.3.0", "2.0.0", "2.1.0", "3.0.0",
		"1.5.0+a", "1.5.0+b", "1.5.0+c", "1.5.0+d", "1.5.0+e", "1.5.0+f",
	} {
		vs = append(vs, `"`+v+`":{"source":"https://example.com/m.tgz"}`)
	}
	manifest := `{"terraform_source_bundle":1,"registry":[{"source":"registry.terraform.io/ns/mod/aws","versions":{` + strings.Join(vs, ",") + `}}]}`
	if err := os.WriteFile(filepath.Join(dir, "terraform-sources.json"), []byte(manifest), 0o644); err != nil {
		t.Fatal(err)
	}
	pkg, err := sourceaddrs.ParseRegistryPackage("registry.terraform.io/ns/mod/aws")
	if err != nil {
		t.Fatal(err)
	}
	first, err := sourcebundle.OpenDir(dir)
	if err != nil {
		t.Fatal(err)
	}
	want := first.RegistryPackageVersions(pkg)
	if len(want) != 14 {
		t.Fatalf("got %d versions", len(want))
	}
	for n := 0; n < 40; n++ {
		again, err := sourcebundle.OpenDir(dir)
		if err != nil {
			t.Fatal(err)
		}
		got := again.RegistryPackageVersions(pkg)
		if !reflect.DeepEqual(got, want) {
			t.Fatalf("re-opened bundle lists versions differently:\n first %v\n again %v", want, got)
		}
	}
}
