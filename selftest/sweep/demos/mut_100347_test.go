// place in: .
package slug

import (
	"archive/tar"
	"bytes"
	"compress/gzip"
	"io"
	"os"
	"path/filepath"
	"runtime"
	"strings"
	"syscall"
	"testing"
)

var _ = runtime.LockOSThread
var _ = syscall.Setfsuid
var _ = strings.HasPrefix
var _ = filepath.Join

type mutEntry100347 struct {
	hdr  *tar.Header
	body string
}

func mutRead100347(t *testing.T, data []byte) []mutEntry100347 {
	t.Helper()
	gz, err := gzip.NewReader(bytes.NewReader(data))
	if err != nil {
		t.Fatal(err)
	}
	tr := tar.NewReader(gz)
	var out []mutEntry100347
	for {
		h, err := tr.Next()
		if err == io.EOF {
			break
		}
		if err != nil {
			t.Fatal(err)
		}
		b, err := io.ReadAll(tr)
		if err != nil {
			t.Fatal(err)
		}
		out = append(out, mutEntry100347{h, string(b)})
	}
	return out
}

func mutNames100347(es []mutEntry100347) []string {
	var n []string
	for _, e := range es {
		n = append(n, e.hdr.Name)
	}
	return n
}

func mutWrite100347(t *testing.T, path, content string) {
	t.Helper()
	if err := os.MkdirAll(filepath.Dir(path), 0755); err != nil {
		t.Fatal(err)
	}
	if err := os.WriteFile(path, []byte(content), 0644); err != nil {
		t.Fatal(err)
	}
}

// A link with an absolute out-of-tree target found inside a dereferenced
// directory must not be stored as a link.
func TestMut100347(t *testing.T) {
	base := t.TempDir()
	src := filepath.Join(base, "src")
	ext := filepath.Join(base, "ext")
	mutWrite100347(t, filepath.Join(src, "main.tf"), "main")
	mutWrite100347(t, filepath.Join(ext, "secret.txt"), "data")
	if err := os.Symlink(filepath.Join(ext, "secret.txt"), filepath.Join(ext, "inner")); err != nil {
		t.Fatal(err)
	}
	if err := os.Symlink("../ext", filepath.Join(src, "link")); err != nil {
		t.Fatal(err)
	}
	var buf bytes.Buffer
	if _, err := Pack(src, &buf, true); err != nil {
		t.Fatal(err)
	}
	es := mutRead100347(t, buf.Bytes())
	for _, e := range es {
		if e.hdr.Typeflag == tar.TypeSymlink && filepath.IsAbs(e.hdr.Linkname) {
			t.Errorf("entry %q stored as a link to out-of-tree %q", e.hdr.Name, e.hdr.Linkname)
		}
	}
	dst := filepath.Join(base, "dst")
	if err := os.MkdirAll(dst, 0755); err != nil {
		t.Fatal(err)
	}
	if err := Unpack(bytes.NewReader(buf.Bytes()), dst); err != nil {
		t.Fatalf("Unpack rejects the slug Pack produced: %v", err)
	}
}
