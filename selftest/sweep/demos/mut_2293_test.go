// place in: sourcebundle

//go:build linux

package sourcebundle_test

import (
	"context"
	"io/fs"
	"net/url"
	"os"
	"path/filepath"
	"syscall"
	"testing"
	"unsafe"

	"github.com/hashicorp/go-slug/sourceaddrs"
	"github.com/hashicorp/go-slug/sourcebundle"
)

// mut2293Freeze makes it impossible to delete entries of dir and returns a
// function that undoes that. An ordinary user gets there with a read-only
// directory; root needs the "immutable" inode flag.
func mut2293Freeze(dir string) (func(), error) {
	f, err := os.Open(dir)
	if err != nil {
		return nil, err
	}
	if os.Geteuid() != 0 {
		if err := f.Chmod(0o555); err != nil {
			f.Close()
			return nil, err
		}
		return func() { f.Chmod(0o755); f.Close() }, nil
	}
	const (
		getFlags  = 0x80086601 // FS_IOC_GETFLAGS (64-bit)
		setFlags  = 0x40086602 // FS_IOC_SETFLAGS (64-bit)
		immutable = 0x10       // FS_IMMUTABLE_FL
	)
	var flags int64
	if _, _, e := syscall.Syscall(syscall.SYS_IOCTL, f.Fd(), getFlags, uintptr(unsafe.Pointer(&flags))); e != 0 {
		f.Close()
		return nil, e
	}
	orig := flags
	flags |= immutable
	if _, _, e := syscall.Syscall(syscall.SYS_IOCTL, f.Fd(), setFlags, uintptr(unsafe.Pointer(&flags))); e != 0 {
		f.Close()
		return nil, e
	}
	return func() {
		syscall.Syscall(syscall.SYS_IOCTL, f.Fd(), setFlags, uintptr(unsafe.Pointer(&orig)))
		f.Close()
	}, nil
}

type mut2293Fetcher struct {
	t *testing.T
}

// The package has an ignored file in a directory whose entries cannot be
// deleted, so removing the ignored file fails.
func (f mut2293Fetcher) FetchSourcePackage(ctx context.Context, sourceType string, u *url.URL, targetDir string) (sourcebundle.FetchSourcePackageResponse, error) {
	var ret sourcebundle.FetchSourcePackageResponse
	if err := os.WriteFile(filepath.Join(targetDir, ".terraformignore"), []byte("secret.txt\n"), 0o644); err != nil {
		return ret, err
	}
	if err := os.Mkdir(filepath.Join(targetDir, "ro"), 0o755); err != nil {
		return ret, err
	}
	if err := os.WriteFile(filepath.Join(targetDir, "ro", "secret.txt"), []byte("hunter2"), 0o644); err != nil {
		return ret, err
	}
	undo, err := mut2293Freeze(filepath.Join(targetDir, "ro"))
	if err != nil {
		f.t.Skipf("cannot make a directory undeletable here: %v", err)
	}
	f.t.Cleanup(undo)
	return ret, nil
}

type mut2293Finder struct{}

func (mut2293Finder) FindDependencies(fsys fs.FS, subPath string, deps *sourcebundle.Dependencies) sourcebundle.Diagnostics {
	return nil
}

func TestMut2293(t *testing.T) {
	target := t.TempDir()
	b, err := sourcebundle.NewBuilder(target, mut2293Fetcher{t}, nil)
	if err != nil {
		t.Fatal(err)
	}
	addr := sourceaddrs.MustParseSource("git::https://example.com/foo.git").(sourceaddrs.RemoteSource)
	diags := b.AddRemoteSource(context.Background(), addr, mut2293Finder{})
	if diags.HasErrors() {
		return // expected: the ignored file could not be removed
	}
	bundle, err := b.Close()
	if err != nil {
		return
	}
	dir, err := bundle.LocalPathForRemoteSource(addr)
	if err != nil {
		t.Fatal(err)
	}
	if _, err := os.Lstat(filepath.Join(dir, "ro", "secret.txt")); err == nil {
		t.Fatalf("build succeeded although the ignored file ro/secret.txt is still in the bundle")
	}
}
