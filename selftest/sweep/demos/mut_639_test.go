// place in: .
package slug

import (
	"archive/tar"
	"bytes"
	"compress/gzip"
	"errors"
	"io"
	"math/rand"
	"os"
	"path/filepath"
	"strings"
	"testing"
)

var _ = tar.TypeReg
var _ = gzip.BestSpeed
var _ = io.EOF
var _ = rand.Int
var _ = strings.Contains
var _ = errors.New
var _ bytes.Buffer

func mk639(t *testing.T, p string) {
	t.Helper()
	if err := os.MkdirAll(p, 0755); err != nil {
		t.Fatal(err)
	}
}

func wr639(t *testing.T, p, c string) {
	t.Helper()
	mk639(t, filepath.Dir(p))
	if err := os.WriteFile(p, []byte(c), 0644); err != nil {
		t.Fatal(err)
	}
}

func ln639(t *testing.T, target, p string) {
	t.Helper()
	mk639(t, filepath.Dir(p))
	if err := os.Symlink(target, p); err != nil {
		t.Fatal(err)
	}
}

func tmp639(t *testing.T) string {
	d, err := filepath.EvalSymlinks(t.TempDir())
	if err != nil {
		t.Fatal(err)
	}
	return d
}

// A link to a directory outside the source tree, packed with dereferencing,
// must be replaced by a copy of that directory under the link's name.
func TestMut639_DerefDir(t *testing.T) {
	base := tmp639(t)
	src := filepath.Join(base, "src")
	wr639(t, filepath.Join(src, "file.txt"), "in")
	wr639(t, filepath.Join(base, "outside", "d", "f.txt"), "out")
	ln639(t, "../outside/d", filepath.Join(src, "link"))
	p, _ := NewPacker(DereferenceSymlinks())
	var buf bytes.Buffer
	meta, err := p.Pack(src, &buf)
	if err != nil {
		t.Fatalf("pack: %v", err)
	}
	gz, err := gzip.NewReader(bytes.NewReader(buf.Bytes()))
	if err != nil {
		t.Fatal(err)
	}
	tr := tar.NewReader(gz)
	found := false
	for {
		h, err := tr.Next()
		if err == io.EOF {
			break
		}
		if err != nil {
			t.Fatal(err)
		}
		body, _ := io.ReadAll(tr)
		if strings.Contains(h.Name, "..") {
			t.Errorf("entry name leaves the archive: %q", h.Name)
		}
		if h.Name == "link/f.txt" && string(body) == "out" && h.Typeflag == tar.TypeReg {
			found = true
		}
	}
	if !found {
		t.Errorf("dereferenced directory content link/f.txt missing; files %q", meta.Files)
	}
	dst := filepath.Join(base, "dst")
	mk639(t, dst)
	if err := Unpack(bytes.NewReader(buf.Bytes()), dst); err != nil {
		t.Fatalf("unpack of a slug Pack produced: %v", err)
	}
	if b, err := os.ReadFile(filepath.Join(dst, "link", "f.txt")); err != nil || string(b) != "out" {
		t.Errorf("unpacked link/f.txt: %q %v", b, err)
	}
}
