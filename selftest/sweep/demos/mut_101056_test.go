// place in: sourceaddrs
package sourceaddrs_test

import (
	"strings"
	"testing"

	"github.com/hashicorp/go-slug/sourceaddrs"
)

// C19: parsing any string as a registry source must return a value or an
// error, never panic. A very long non-ASCII hostname label gets through the
// forward IDNA conversion; the length check must look at the punycode form,
// because converting it back to unicode panics.
func TestMut101056_LongUnicodeLabelDoesNotPanic(t *testing.T) {
	in := "é" + strings.Repeat("a", 4999) + ".example.com/a/b/c"
	defer func() {
		if r := recover(); r != nil {
			t.Fatalf("ParseRegistrySource panicked: %.120v", r)
		}
	}()
	s, err := sourceaddrs.ParseRegistrySource(in)
	if err == nil {
		_ = s.String()
	}
	if _, err := sourceaddrs.ParseSource(in); err == nil {
		t.Logf("accepted")
	}
}
