// place in: sourcebundle
package sourcebundle

// Demonstrates mutation 2056: a failing source-address query calls a nil trace callback

import (
	"context"
	"errors"
	"fmt"
	"io/fs"
	"net/url"
	"os"
	"path/filepath"
	"testing"

	"github.com/apparentlymart/go-versions/versions"
	regaddr "github.com/hashicorp/terraform-registry-address"

	"github.com/hashicorp/go-slug/sourceaddrs"
)

type mut2056Fetcher struct{}

func (mut2056Fetcher) FetchSourcePackage(ctx context.Context, sourceType string, u *url.URL, targetDir string) (FetchSourcePackageResponse, error) {
	return FetchSourcePackageResponse{}, os.WriteFile(filepath.Join(targetDir, "main.tf"), []byte("# hello\n"), 0o644)
}

type mut2056Registry struct {
	versionsFn func(ctx context.Context) error
	sourceFn   func(ctx context.Context) error
}

func (r mut2056Registry) ModulePackageVersions(ctx context.Context, pkgAddr regaddr.ModulePackage) (ModulePackageVersionsResponse, error) {
	if r.versionsFn != nil {
		if err := r.versionsFn(ctx); err != nil {
			return ModulePackageVersionsResponse{}, err
		}
	}
	return ModulePackageVersionsResponse{Versions: []ModulePackageInfo{{Version: versions.MustParseVersion("1.0.0")}}}, nil
}

func (r mut2056Registry) ModulePackageSourceAddr(ctx context.Context, pkgAddr regaddr.ModulePackage, version versions.Version) (ModulePackageSourceAddrResponse, error) {
	if r.sourceFn != nil {
		if err := r.sourceFn(ctx); err != nil {
			return ModulePackageSourceAddrResponse{}, err
		}
	}
	return ModulePackageSourceAddrResponse{SourceAddr: sourceaddrs.MustParseSource("https://example.com/foo.tgz").(sourceaddrs.RemoteSource)}, nil
}

type mut2056NoDeps struct{}

func (mut2056NoDeps) FindDependencies(fsys fs.FS, subPath string, deps *Dependencies) Diagnostics {
	return nil
}

// mut2056Add adds one registry source and converts a panic into an error.
func mut2056Add(ctx context.Context, b *Builder, addr string) (diags Diagnostics, panicked error) {
	defer func() {
		if r := recover(); r != nil {
			panicked = fmt.Errorf("panic: %v", r)
		}
	}()
	src := sourceaddrs.MustParseSource(addr).(sourceaddrs.RegistrySource)
	return b.AddRegistrySource(ctx, src, versions.All, mut2056NoDeps{}), nil
}

var _ = errors.New

func TestMut2056(t *testing.T) {
	// Default configuration (no tracer): a failing registry query must come
	// back as an error diagnostic, not as a crash.
	reg := mut2056Registry{sourceFn: func(ctx context.Context) error { return errors.New("registry is down") }}
	b, err := NewBuilder(t.TempDir(), mut2056Fetcher{}, reg)
	if err != nil {
		t.Fatal(err)
	}
	diags, perr := mut2056Add(context.Background(), b, "example.com/foo/bar/baz")
	if perr != nil {
		t.Fatalf("registry failure was not reported as a diagnostic: %s", perr)
	}
	if !diags.HasErrors() {
		t.Fatalf("registry failure was not reported")
	}
}
