package main

import (
	"fmt"
	"go/ast"
	"go/token"
	"go/types"
	"regexp/syntax"
	"strings"

	"golang.org/x/tools/go/ssa"
)

// H10: index-safety idiom prover. Each index / slice expression and each
// non-comma-ok type assertion in code reachable from exported entry points is
// an obligation, discharged by an enumerated idiom on the same SSA value, or by
// a named exception keyed by function and source expression (one reason each).

type idxProver struct {
	p       *Prog
	fn      *ssa.Function
	phiBusy map[*ssa.Phi]bool
	via     *Edge // while a phi's incoming value is judged: the edge it arrives on (a guard may sit on that very edge)
}

// indexExceptions: function → expression → reason. An edited expression no
// longer matches its entry and is reported.
var indexExceptions = map[string]map[string]string{
	"(*sourcebundle.Dependencies).AddLocalSource": {
		"realSource.(sourceaddrs.RemoteSource)": "ResolveRelativeSource with a RemoteSource base and a LocalSource argument returns a RemoteSource on its nil-error edge (type switch arm)",
	},
}

func ruleC19Index(c *Checker) {
	const R = "C19.index"
	c.rule(R, "Every index/slice expression and non-comma-ok type assertion reachable from exported entry points (and package initialisers) is discharged by an enumerated idiom on the same SSA value — range index; constant index under a length / non-empty / HasPrefix / regexp-submatch-count guard; len(x)-1 under non-empty; sort.Slice comparator indices; make(len(x)) indexed by a range over x; an assertion past a type predicate; a caller-side guard for parameters on every call site — or by a named exception keyed by function and source expression.", 20)
	p := c.P
	entries := p.entryPoints()
	for _, fn := range p.Funcs {
		if fn.Parent() == nil && (fn.Name() == "init" || (len(fn.Name()) > 5 && fn.Name()[:5] == "init#")) {
			entries = append(entries, fn)
		}
	}
	reach := p.reach(entries...)
	usedExc := map[string]bool{}
	for _, fn := range sortedFuncs(reach) {
		if !p.InModule(fn) {
			continue
		}
		ix := &idxProver{p: p, fn: fn}
		name := p.FuncName(fn)
		eachInstr(fn, func(in ssa.Instruction) {
			var ok bool
			var why, construct string
			switch x := in.(type) {
			case *ssa.IndexAddr:
				if arr, isArr := derefType(x.X.Type()).Underlying().(*types.Array); isArr {
					if k, isC := constInt(x.Index); isC && k >= 0 && k < arr.Len() {
						return
					}
				}
				construct = "index " + ix.exprAt(x.Pos(), x.String())
				ok, why = ix.indexOK(x.X, x.Index, x.Block())
			case *ssa.Index:
				construct = "index " + ix.exprAt(x.Pos(), x.String())
				ok, why = ix.indexOK(x.X, x.Index, x.Block())
			case *ssa.Lookup:
				if _, isMap := x.X.Type().Underlying().(*types.Map); isMap {
					return
				}
				construct = "index " + ix.exprAt(x.Pos(), x.String())
				ok, why = ix.indexOK(x.X, x.Index, x.Block())
			case *ssa.Slice:
				if _, isAl := x.X.(*ssa.Alloc); isAl && x.Low == nil && x.High == nil {
					return
				}
				construct = "slice " + ix.exprAt(x.Pos(), x.String())
				ok, why = ix.sliceOK(x)
			case *ssa.TypeAssert:
				if x.CommaOk {
					return
				}
				construct = "assert " + ix.exprAt(x.Pos(), x.String())
				ok, why = ix.assertOK(x)
			default:
				return
			}
			if !ok {
				// named exception
				e := ix.exprAt(in.Pos(), "")
				for anchor, m := range indexExceptions {
					// the exception applies in the named function and in its private helpers
					applies := anchor == name
					if !applies {
						for _, af := range p.Funcs {
							if p.FuncName(af) == anchor && p.family(af)[fn] {
								applies = true
							}
						}
					}
					if !applies {
						continue
					}
					if reason, have := m[e]; have {
						usedExc[anchor+"|"+e] = true
						c.passTrivial(R, name, construct, p.Pos(in.Pos()), "named exception: "+reason)
						return
					}
				}
				c.fail(R, name, construct, p.Pos(in.Pos()), "no safety idiom recognised for this access ("+why+"): it can panic on some input")
				return
			}
			c.pass(R, name, construct, p.Pos(in.Pos()), why)
		})
	}
}

// exprAt renders the source expression whose '[' or '(' is at pos.
func (ix *idxProver) exprAt(pos token.Pos, fallback string) string {
	if !pos.IsValid() {
		return fallback
	}
	var found ast.Expr
	for _, pk := range ix.p.Pkgs {
		for _, f := range pk.Syntax {
			if pos < f.Pos() || pos > f.End() {
				continue
			}
			ast.Inspect(f, func(n ast.Node) bool {
				switch e := n.(type) {
				case *ast.IndexExpr:
					if e.Lbrack == pos {
						found = e
					}
				case *ast.SliceExpr:
					if e.Lbrack == pos {
						found = e
					}
				case *ast.TypeAssertExpr:
					if e.Lparen == pos {
						found = e
					}
				}
				return found == nil
			})
		}
	}
	if found == nil {
		return fallback
	}
	return types.ExprString(found)
}

func lenOf(v ssa.Value) ssa.Value {
	cl, ok := v.(*ssa.Call)
	if !ok {
		return nil
	}
	b, ok := cl.Call.Value.(*ssa.Builtin)
	if !ok || b.Name() != "len" {
		return nil
	}
	return cl.Call.Args[0]
}

// sameSeq: a and b denote the same sequence value at their use points.
func sameSeq(a, b ssa.Value) bool {
	if sameLoc(a, b) {
		return true
	}
	// two lookups of one constant key in one map value, with nothing that can change the map on a way from the
	// one to the other (an update of it, a call it is handed to)
	if la, ok := canon(a).(*ssa.Lookup); ok {
		if lb, ok := canon(b).(*ssa.Lookup); ok && la != lb && !la.CommaOk && !lb.CommaOk && canon(la.X) == canon(lb.X) {
			ka, okA := constString(la.Index)
			kb, okB := constString(lb.Index)
			if okA && okB && ka == kb && la.Parent() == lb.Parent() {
				first, second := la, lb
				if !(first.Block() == second.Block() && instrIndex(first) < instrIndex(second)) && !reachFromBlock(first.Block())[second.Block()] {
					first, second = lb, la
				}
				clean := true
				m := canon(first.X)
				between := func(in ssa.Instruction) bool {
					after := (in.Block() == first.Block() && instrIndex(in) > instrIndex(first)) || (in.Block() != first.Block() && reachFromBlock(first.Block())[in.Block()])
					before := (in.Block() == second.Block() && instrIndex(in) < instrIndex(second)) || (in.Block() != second.Block() && reachFromBlock(in.Block())[second.Block()])
					return after && before
				}
				eachInstr(first.Parent(), func(in ssa.Instruction) {
					switch x := in.(type) {
					case *ssa.MapUpdate:
						if canon(x.Map) == m && between(in) {
							clean = false
						}
					case ssa.CallInstruction:
						for _, arg := range x.Common().Args {
							if canon(arg) == m && between(in) {
								clean = false
							}
						}
						if x.Common().IsInvoke() && canon(x.Common().Value) == m && between(in) {
							clean = false
						}
					case *ssa.Store:
						if canon(x.Val) == m {
							clean = false // the map is kept in memory somewhere: another name for it may be used
						}
					}
				})
				if clean {
					return true
				}
			}
		}
	}
	// loads of the same field with no store or call between them (same block window)
	ua, ok1 := canon(a).(*ssa.UnOp)
	ub, ok2 := canon(b).(*ssa.UnOp)
	if !ok1 || !ok2 || ua.Op != token.MUL || ub.Op != token.MUL {
		return false
	}
	fa, ok1 := ua.X.(*ssa.FieldAddr)
	fb, ok2 := ub.X.(*ssa.FieldAddr)
	if !ok1 || !ok2 || fa.Field != fb.Field || !sameLoc(fa.X, fb.X) {
		return false
	}
	return noClobberBetween(ua, ub, fa.Field) || noClobberBetween(ub, ua, fa.Field)
}

// noClobberBetween: from load a to load b control flows straight (same block,
// or b's block has a's block as only predecessor) without a store to the field
// or a non-builtin call in between.
func noClobberBetween(a, b *ssa.UnOp, field int) bool {
	clobber := func(in ssa.Instruction) bool {
		switch x := in.(type) {
		case *ssa.Store:
			if fa, ok := x.Addr.(*ssa.FieldAddr); ok && fa.Field == field {
				return true
			}
		case *ssa.Call:
			if _, isB := x.Call.Value.(*ssa.Builtin); !isB {
				return true
			}
		}
		return false
	}
	A, B := a.Block(), b.Block()
	if A == B {
		ia, ib := instrIndex(a), instrIndex(b)
		if ia > ib {
			return false
		}
		for i := ia; i < ib; i++ {
			if clobber(A.Instrs[i]) {
				return false
			}
		}
		return true
	}
	if len(B.Preds) == 1 && B.Preds[0] == A {
		for i := instrIndex(a); i < len(A.Instrs); i++ {
			if clobber(A.Instrs[i]) {
				return false
			}
		}
		for i := 0; i < instrIndex(b); i++ {
			if clobber(B.Instrs[i]) {
				return false
			}
		}
		return true
	}
	return false
}

// minLen: a lower bound on len(X) known whenever block `at` executes.
func (ix *idxProver) minLen(X ssa.Value, at *ssa.BasicBlock) (int, string) {
	best, why := ix.intrinsicLen(X, at)
	fn := ix.fn
	for _, b := range fn.Blocks {
		if len(b.Instrs) == 0 {
			continue
		}
		ifi, ok := b.Instrs[len(b.Instrs)-1].(*ssa.If)
		if !ok {
			continue
		}
		cond, neg := stripNot(ifi.Cond)
		boundT, boundF := 0, 0 // bound on the cond-true / cond-false edge
		switch cnd := cond.(type) {
		case *ssa.BinOp:
			if l := lenOf(cnd.X); l != nil && sameSeq(l, X) {
				if k, isC := constInt(cnd.Y); isC {
					switch cnd.Op {
					case token.EQL:
						if k == 0 {
							boundF = 1
						} else {
							boundT = int(k)
						}
					case token.NEQ:
						if k == 0 {
							boundT = 1
						}
					case token.GTR:
						boundT = int(k) + 1
					case token.GEQ:
						boundT = int(k)
					case token.LSS:
						boundF = int(k)
					case token.LEQ:
						boundF = int(k) + 1
					}
				}
			} else if s, isC := constString(cnd.Y); isC && s == "" && sameSeq(cnd.X, X) {
				switch cnd.Op {
				case token.EQL:
					boundF = 1
				case token.NEQ:
					boundT = 1
				}
			} else if isNilConst(cnd.Y) && sameSeq(cnd.X, X) {
				// FindStringSubmatch returns nil exactly when there is no match: not nil is not empty
				if cl := callOf(canon(X)); cl != nil && isMethod(calleeObj(cl), "regexp", "Regexp", "FindStringSubmatch") {
					switch cnd.Op {
					case token.EQL:
						boundF = 1
					case token.NEQ:
						boundT = 1
					}
				}
			}
		case *ssa.Call:
			if isFunc(calleeObj(cnd), "strings", "HasPrefix") && sameSeq(cnd.Call.Args[0], X) {
				if s, isC := constString(cnd.Call.Args[1]); isC {
					boundT = len(s)
				}
			}
		}
		if neg {
			boundT, boundF = boundF, boundT
		}
		if boundT > best && (guarded(at, []Edge{{b, 0}}) || ix.arrivesOn(b, 0)) {
			best, why = boundT, "length guard at "+ix.p.Pos(ifi.Cond.Pos())
		}
		if boundF > best && (guarded(at, []Edge{{b, 1}}) || ix.arrivesOn(b, 1)) {
			best, why = boundF, "length guard at "+ix.p.Pos(ifi.Cond.Pos())
		}
	}
	// regexp submatch: a non-empty FindStringSubmatch result has 1+NumSubexp elements
	if best >= 1 {
		if cl := callOf(canon(X)); cl != nil && isMethod(calleeObj(cl), "regexp", "Regexp", "FindStringSubmatch") {
			if n, ok := ix.numSubexp(cl.Call.Args[0]); ok && n+1 > best {
				best, why = n+1, fmt.Sprintf("non-empty FindStringSubmatch result of a pattern with %d groups", n)
			}
		}
	}
	// parameters: a guard at every call site
	if best == 0 {
		if n, w := ix.callerSideLen(X); n > 0 {
			best, why = n, w
		}
	}
	return best, why
}

func (ix *idxProver) intrinsicLen(X ssa.Value, at *ssa.BasicBlock) (int, string) {
	X = canon(X)
	switch x := X.(type) {
	case *ssa.Const:
		if s, ok := constString(x); ok {
			return len(s), "constant"
		}
	case *ssa.BinOp:
		if x.Op == token.ADD && isStringType(x.Type()) {
			a, _ := ix.intrinsicLen(x.X, at)
			b, _ := ix.intrinsicLen(x.Y, at)
			return a + b, "concatenation with a non-empty constant"
		}
	case *ssa.Phi:
		if ix.phiBusy == nil {
			ix.phiBusy = map[*ssa.Phi]bool{}
		}
		if ix.phiBusy[x] {
			return 1 << 20, "cycle" // neutral element for min
		}
		ix.phiBusy[x] = true
		defer delete(ix.phiBusy, x)
		m := -1
		for i, e := range x.Edges {
			pred := x.Block().Preds[i]
			saved := ix.via
			ix.via = nil
			if len(pred.Succs) == 2 && pred.Succs[0] != pred.Succs[1] {
				for k := range pred.Succs {
					if pred.Succs[k] == x.Block() {
						ix.via = &Edge{pred, k}
					}
				}
			}
			n, _ := ix.minLen(e, pred)
			ix.via = saved
			if m < 0 || n < m {
				m = n
			}
		}
		if m > 0 && m < 1<<20 {
			return m, "every incoming value is non-empty where it arrives"
		}
	case *ssa.MakeSlice:
		if k, ok := constInt(x.Len); ok {
			return int(k), "make with constant length"
		}
	case *ssa.UnOp:
		// a load right after a store of append(…, elems…) to the same field
		if fa, ok := x.X.(*ssa.FieldAddr); ok && x.Op == token.MUL {
			b := x.Block()
			for i := instrIndex(x) - 1; i >= 0; i-- {
				switch in := b.Instrs[i].(type) {
				case *ssa.Store:
					if fa2, ok := in.Addr.(*ssa.FieldAddr); ok && fa2.Field == fa.Field && sameLoc(fa2.X, fa.X) {
						if n := appendedCount(in.Val); n > 0 {
							return n, "just extended by append"
						}
						return 0, ""
					}
				case *ssa.Call:
					if _, isB := in.Call.Value.(*ssa.Builtin); !isB {
						return 0, ""
					}
				}
			}
		}
	}
	if cl := callOf(X); cl != nil {
		if isFunc(calleeObj(cl), "strings", "Split") {
			return 1, "strings.Split returns at least one element"
		}
		if n := appendedCount(X); n > 0 {
			return n, "result of append with elements"
		}
	}
	return 0, ""
}

// appendedCount: v = append(x, e1..en) → n.
func appendedCount(v ssa.Value) int {
	cl, ok := v.(*ssa.Call)
	if !ok {
		return 0
	}
	b, ok := cl.Call.Value.(*ssa.Builtin)
	if !ok || b.Name() != "append" || len(cl.Call.Args) != 2 {
		return 0
	}
	sl, ok := cl.Call.Args[1].(*ssa.Slice)
	if !ok {
		return 0
	}
	al, ok := sl.X.(*ssa.Alloc)
	if !ok {
		return 0
	}
	if arr, ok := derefType(al.Type()).Underlying().(*types.Array); ok {
		return int(arr.Len())
	}
	return 0
}

// numSubexp finds the constant pattern of a *regexp.Regexp held in a
// package-level variable.
func (ix *idxProver) numSubexp(re ssa.Value) (int, bool) {
	u, ok := re.(*ssa.UnOp)
	if !ok || u.Op != token.MUL {
		return 0, false
	}
	g, ok := u.X.(*ssa.Global)
	if !ok {
		return 0, false
	}
	for _, fn := range ix.p.Funcs {
		var pat string
		found := false
		eachInstr(fn, func(in ssa.Instruction) {
			st, ok := in.(*ssa.Store)
			if !ok || st.Addr != ssa.Value(g) {
				return
			}
			if cl := callOf(st.Val); cl != nil && (isFunc(calleeObj(cl), "regexp", "MustCompile") || isFunc(calleeObj(cl), "regexp", "Compile")) {
				if s, ok := constString(cl.Call.Args[0]); ok {
					pat, found = s, true
				}
			}
		})
		if found {
			rx, err := syntax.Parse(pat, syntax.Perl)
			if err != nil {
				return 0, false
			}
			return rx.MaxCap(), true
		}
	}
	return 0, false
}

// callerSideLen: X is (a field of) a parameter; every module call site guards
// the corresponding argument as non-empty.
func (ix *idxProver) callerSideLen(X ssa.Value) (int, string) {
	fn := ix.fn
	var prm *ssa.Parameter
	field := -1
	switch x := canon(X).(type) {
	case *ssa.Parameter:
		prm = x
	case *ssa.UnOp:
		if fa, ok := x.X.(*ssa.FieldAddr); ok && x.Op == token.MUL {
			if pp, ok := canon(fa.X).(*ssa.Parameter); ok {
				prm, field = pp, fa.Field
			}
		}
	}
	if prm == nil || prm.Parent() != fn {
		return 0, ""
	}
	idx := -1
	for i, q := range fn.Params {
		if q == prm {
			idx = i
		}
	}
	sites := ix.p.callersOf(fn)
	if len(sites) == 0 || idx < 0 {
		return 0, ""
	}
	if fn.Object() != nil && fn.Object().Exported() && !isInternalPkg(fn) {
		return 0, "" // callable from outside the module: a caller-side guard is not enough
	}
	for _, s := range sites {
		if idx >= len(s.Common().Args) {
			return 0, ""
		}
		arg := s.Common().Args[idx]
		cix := &idxProver{p: ix.p, fn: s.Parent()}
		// find a load of arg.field in the caller that is guarded non-empty at the call
		okSite := false
		if field < 0 {
			if n, _ := cix.minLen(arg, s.Block()); n >= 1 {
				okSite = true
			}
		} else {
			eachInstr(s.Parent(), func(in ssa.Instruction) {
				u, ok := in.(*ssa.UnOp)
				if !ok || u.Op != token.MUL {
					return
				}
				fa, ok := u.X.(*ssa.FieldAddr)
				if !ok || fa.Field != field || !sameLoc(fa.X, arg) {
					return
				}
				if n, _ := cix.minLenGuardOnly(u, s.Block()); n >= 1 {
					okSite = true
				}
			})
		}
		if !okSite {
			return 0, ""
		}
	}
	return 1, fmt.Sprintf("non-empty at every one of the %d call site(s)", len(sites))
}

func isInternalPkg(fn *ssa.Function) bool {
	if fn.Package() == nil {
		return false
	}
	path := fn.Package().Pkg.Path()
	for i := 0; i+9 <= len(path); i++ {
		if path[i:i+9] == "/internal" {
			return true
		}
	}
	return false
}

// minLenGuardOnly: like minLen but the guard may mention exactly this load.
func (ix *idxProver) minLenGuardOnly(X ssa.Value, at *ssa.BasicBlock) (int, string) {
	best := 0
	for _, b := range ix.fn.Blocks {
		if len(b.Instrs) == 0 {
			continue
		}
		ifi, ok := b.Instrs[len(b.Instrs)-1].(*ssa.If)
		if !ok {
			continue
		}
		cond, neg := stripNot(ifi.Cond)
		bo, ok := cond.(*ssa.BinOp)
		if !ok || bo.X != X {
			continue
		}
		s, isC := constString(bo.Y)
		if !isC || s != "" {
			continue
		}
		nonEmptyEdge := 1 // EQL: false edge
		if bo.Op == token.NEQ {
			nonEmptyEdge = 0
		} else if bo.Op != token.EQL {
			continue
		}
		if neg {
			nonEmptyEdge = 1 - nonEmptyEdge
		}
		if guarded(at, []Edge{{b, nonEmptyEdge}}) {
			best = 1
		}
	}
	return best, ""
}

func (ix *idxProver) indexOK(X, idx ssa.Value, at *ssa.BasicBlock) (bool, string) {
	// constant index
	if k, isC := constInt(idx); isC {
		if k < 0 {
			return false, "negative constant index"
		}
		n, why := ix.minLen(X, at)
		if n >= int(k)+1 {
			return true, fmt.Sprintf("constant index %d under %s (len ≥ %d)", k, why, n)
		}
		return false, fmt.Sprintf("constant index %d but only len ≥ %d is known", k, n)
	}
	// idx < len(X) guard with idx ≥ 0
	for _, b := range ix.fn.Blocks {
		if len(b.Instrs) == 0 {
			continue
		}
		ifi, ok := b.Instrs[len(b.Instrs)-1].(*ssa.If)
		if !ok {
			continue
		}
		bo, ok := ifi.Cond.(*ssa.BinOp)
		if !ok || bo.Op != token.LSS || bo.X != idx {
			continue
		}
		bound := bo.Y
		okBound := false
		if l := lenOf(bound); l != nil && (sameSeq(l, X) || canon(l) == canon(X)) {
			okBound = true
		}
		// len(X) - c
		if sb, ok := bound.(*ssa.BinOp); ok && sb.Op == token.SUB {
			if l := lenOf(sb.X); l != nil && sameSeq(l, X) {
				if k, isC := constInt(sb.Y); isC && k >= 0 {
					okBound = true
				}
			}
		}
		// make(len(Y)) indexed under idx < len(Y)
		if !okBound {
			if ms, isMk := canon(X).(*ssa.MakeSlice); isMk {
				if l := lenOf(bound); l != nil {
					if ml := lenOf(ms.Len); ml != nil && sameSeq(ml, l) {
						okBound = true
					}
				}
			}
			if ct, isCT := canon(X).(*ssa.ChangeType); isCT {
				if ms, isMk := ct.X.(*ssa.MakeSlice); isMk {
					if l := lenOf(bound); l != nil {
						if ml := lenOf(ms.Len); ml != nil && sameSeq(ml, l) {
							okBound = true
						}
					}
				}
			}
		}
		if okBound && guarded(at, []Edge{{b, 0}}) && nonNegative(idx, map[ssa.Value]bool{}) {
			return true, "index < len guard at " + ix.p.Pos(ifi.Cond.Pos()) + " and index ≥ 0"
		}
	}
	// len(X) - 1 under non-empty
	if sb, ok := idx.(*ssa.BinOp); ok && sb.Op == token.SUB {
		if l := lenOf(sb.X); l != nil && sameSeq(l, X) {
			if k, isC := constInt(sb.Y); isC && k >= 1 {
				n, why := ix.minLen(X, at)
				if n >= int(k) {
					return true, fmt.Sprintf("len-%d under %s", k, why)
				}
				return false, "len(x)-k index without a non-empty guard"
			}
		}
	}
	// difference bounds: idx ≥ 0 and idx + 1 ≤ len(X) (covers descending loops `for i := len(x)-1; i >= 0; i--`)
	if ix.ge0(idx, at, map[ssa.Value]bool{}) && ix.le(idx, 1, bterm{lenOf: X}, at, map[string]bool{}) {
		return true, "index ≥ 0 and index+1 ≤ len by difference bounds"
	}
	// sort comparator
	if prm, ok := idx.(*ssa.Parameter); ok && ix.isSortComparator(prm.Parent()) {
		if prm.Parent().Parent() == nil || ix.indexesSortedSlice(X, prm.Parent()) {
			return true, "comparator index supplied by sort.Slice for the slice being sorted"
		}
		return false, "a sort.Slice comparator indexes a slice other than the one being sorted"
	}
	return false, "index " + idx.String() + " not related to len(" + X.String() + ")"
}

func (ix *idxProver) isSortComparator(fn *ssa.Function) bool {
	sites := closureSites(fn)
	if fn.Parent() == nil && fn.Signature.Recv() != nil {
		// a method used as a method value (`byVersion(vs).less`): every wrapper go/ssa makes for it
		for _, f := range ix.p.Funcs {
			eachInstr(f, func(in ssa.Instruction) {
				mc, ok := in.(*ssa.MakeClosure)
				if !ok {
					return
				}
				w, ok := mc.Fn.(*ssa.Function)
				if !ok || !strings.Contains(w.Synthetic, "bound method wrapper") {
					return
				}
				for _, ci := range callsIn(w) {
					if ci.Common().StaticCallee() == fn {
						sites = append(sites, mc)
					}
				}
			})
		}
		// and nothing else calls it with indices of its own
		for _, site := range ix.p.callersOf(fn) {
			if !strings.Contains(site.Parent().Synthetic, "bound method wrapper") {
				return false
			}
		}
		if len(sites) == 0 {
			return false
		}
		// each such value is the comparator of a sort of the receiver itself
		for _, mc := range sites {
			okUse := false
			if refs := mc.Referrers(); refs != nil {
				for _, r := range *refs {
					cl, ok := r.(*ssa.Call)
					if !ok || !(isFunc(calleeObj(cl), "sort", "Slice") || isFunc(calleeObj(cl), "sort", "SliceStable")) {
						continue
					}
					sorted := cl.Call.Args[0]
					if mi, ok := sorted.(*ssa.MakeInterface); ok {
						sorted = mi.X
					}
					strip := func(v ssa.Value) ssa.Value {
						for {
							switch x := v.(type) {
							case *ssa.ChangeType:
								v = x.X
								continue
							case *ssa.Convert:
								v = x.X
								continue
							}
							return canon(v)
						}
					}
					if len(mc.Bindings) == 1 && strip(mc.Bindings[0]) == strip(sorted) {
						okUse = true
					}
				}
			}
			if !okUse {
				return false
			}
		}
		return true
	}
	for _, mc := range sites {
		if refs := mc.Referrers(); refs != nil {
			for _, r := range *refs {
				if cl, ok := r.(*ssa.Call); ok {
					o := calleeObj(cl)
					if isFunc(o, "sort", "Slice") || isFunc(o, "sort", "SliceStable") {
						return true
					}
				}
			}
		}
	}
	return false
}

// nonNegative: the value is a constant ≥ 0, a phi of such and increments, or x+c.
func nonNegative(v ssa.Value, seen map[ssa.Value]bool) bool {
	if seen[v] {
		return true
	}
	seen[v] = true
	switch x := v.(type) {
	case *ssa.Const:
		k, ok := constInt(x)
		return ok && k >= 0
	case *ssa.Phi:
		for _, e := range x.Edges {
			if k, ok := constInt(e); ok && k == -1 {
				// rangeindex starts at -1 and is used as phi+1
				continue
			}
			if !nonNegative(e, seen) {
				return false
			}
		}
		return true
	case *ssa.BinOp:
		if x.Op == token.ADD {
			if k, ok := constInt(x.Y); ok && k >= 0 {
				if ph, ok := x.X.(*ssa.Phi); ok {
					// rangeindex: phi(-1, self) + 1
					okAll := true
					for _, e := range ph.Edges {
						if k2, ok := constInt(e); ok && k2 >= -k {
							continue
						}
						if e == v {
							continue
						}
						if !nonNegative(e, seen) {
							okAll = false
						}
					}
					return okAll
				}
				return nonNegative(x.X, seen)
			}
		}
	case *ssa.Call:
		if lenOf(x) != nil {
			return true
		}
	}
	return false
}

func (ix *idxProver) sliceOK(s *ssa.Slice) (bool, string) {
	if ok, why := ix.sliceOKBasic(s); ok {
		return true, why
	}
	return ix.sliceByBounds(s)
}

func (ix *idxProver) sliceOKBasic(s *ssa.Slice) (bool, string) {
	X := s.X
	at := s.Block()
	need := 0
	var parts []string
	for _, b := range []ssa.Value{s.Low, s.High, s.Max} {
		if b == nil {
			continue
		}
		if k, isC := constInt(b); isC {
			if int(k) > need {
				need = int(k)
			}
			continue
		}
		// len(X) or len(X)-c under len ≥ c
		if l := lenOf(b); l != nil && sameSeq(l, X) {
			parts = append(parts, "len(x)")
			continue
		}
		if sb, ok := b.(*ssa.BinOp); ok && sb.Op == token.SUB {
			if l := lenOf(sb.X); l != nil && sameSeq(l, X) {
				if k, isC := constInt(sb.Y); isC && k >= 0 {
					if n, _ := ix.minLen(X, at); n >= int(k) {
						parts = append(parts, fmt.Sprintf("len(x)-%d under non-empty", k))
						continue
					}
				}
			}
		}
		return false, "bound " + b.String() + " not related to the length of the sliced value"
	}
	if need > 0 {
		// a pointer to an array (what make([]T, const) is lowered to) has its length in its type
		if pt, ok := X.Type().Underlying().(*types.Pointer); ok {
			if at, ok := pt.Elem().Underlying().(*types.Array); ok && int64(need) <= at.Len() && len(parts) == 0 {
				return true, fmt.Sprintf("constant bound %d of an array of %d", need, at.Len())
			}
		}
		n, why := ix.minLen(X, at)
		if n < need {
			// slices (not strings) may be resliced up to cap; we only accept len
			return false, fmt.Sprintf("constant bound %d but only len ≥ %d is known", need, n)
		}
		parts = append(parts, fmt.Sprintf("constant bound %d under %s", need, why))
	}
	if len(parts) == 0 {
		return true, "full slice"
	}
	return true, fmt.Sprint(parts)
}

// assertOK: x.(T) lies past the false edge of a predicate that is
// `_, is := x.(T); return !is` (or the true edge of `return is`).
func (ix *idxProver) assertOK(ta *ssa.TypeAssert) (bool, string) {
	_, _, why, ok := ix.assertGuard(ta)
	return ok, why
}

// assertGuard: the branch (block and successor index) past which the asserted value has the asserted type.
func (ix *idxProver) assertGuard(ta *ssa.TypeAssert) (*ssa.BasicBlock, int, string, bool) {
	fn := ix.fn
	for _, b := range fn.Blocks {
		if len(b.Instrs) == 0 {
			continue
		}
		ifi, ok := b.Instrs[len(b.Instrs)-1].(*ssa.If)
		if !ok {
			continue
		}
		cond, neg := stripNot(ifi.Cond)
		// the test written out: `_, is := x.(T)` of the same value and type, branched on
		if ex, ok := cond.(*ssa.Extract); ok && ex.Index == 1 {
			if t2, ok := ex.Tuple.(*ssa.TypeAssert); ok && t2.CommaOk && canon(t2.X) == canon(ta.X) && types.Identical(t2.AssertedType, ta.AssertedType) {
				isTEdge := 0
				if neg {
					isTEdge = 1
				}
				if guarded(ta.Block(), []Edge{{b, isTEdge}}) {
					return b, isTEdge, "past the ok edge of a comma-ok assertion of the same value to the same type", true
				}
			}
			continue
		}
		cl, ok := cond.(*ssa.Call)
		if !ok || len(cl.Call.Args) != 1 || canon(cl.Call.Args[0]) != canon(ta.X) {
			continue
		}
		g := cl.Common().StaticCallee()
		if g == nil || g.Blocks == nil {
			continue
		}
		// summary of g: returns (NOT)? extract#1 of a comma-ok assertion of its parameter to T
		pol, ok := typePredicatePolarity(g, ta.AssertedType)
		if !ok {
			continue
		}
		// edge on which x is a T
		isTEdge := 0
		if !pol {
			isTEdge = 1
		}
		if neg {
			isTEdge = 1 - isTEdge
		}
		if guarded(ta.Block(), []Edge{{b, isTEdge}}) {
			return b, isTEdge, "past the edge of type predicate " + ix.p.FuncName(g) + " on which the value has the asserted type", true
		}
	}
	return nil, 0, "no dominating type test", false
}

// typePredicatePolarity: g(x) returns is-T (true) or not-is-T (false).
func typePredicatePolarity(g *ssa.Function, T types.Type) (bool, bool) {
	if len(g.Params) != 1 {
		return false, false
	}
	rets := returnsOf(g)
	if len(rets) != 1 || len(rets[0].Results) != 1 {
		return false, false
	}
	v, neg := stripNot(rets[0].Results[0])
	ex, ok := v.(*ssa.Extract)
	if !ok || ex.Index != 1 {
		return false, false
	}
	ta, ok := ex.Tuple.(*ssa.TypeAssert)
	if !ok || !ta.CommaOk || ta.X != ssa.Value(g.Params[0]) || !types.Identical(ta.AssertedType, T) {
		return false, false
	}
	return !neg, true
}

// ---------- difference-bound propagation (v + c ≤ len(S) / v + c ≤ w) ----------

// bterm is the right-hand side of a bound: len(lenOf) or the int value val.
type bterm struct {
	lenOf ssa.Value
	val   ssa.Value
}

func (b bterm) key() string { return fmt.Sprintf("%p/%p", b.lenOf, b.val) }

// indexCall recognises strings.Index-like searches: result r satisfies
// r == -1 or 0 ≤ r and r + len(sub) ≤ len(s).
func indexCall(v ssa.Value) (s ssa.Value, subLen int, ok bool) {
	cl, isCall := v.(*ssa.Call)
	if !isCall {
		return nil, 0, false
	}
	o := calleeObj(cl)
	switch {
	case isFunc(o, "strings", "Index") || isFunc(o, "strings", "LastIndex"):
		if sub, isC := constString(cl.Call.Args[1]); isC {
			return cl.Call.Args[0], len(sub), true
		}
		return cl.Call.Args[0], 0, true
	case isFunc(o, "strings", "IndexByte") || isFunc(o, "strings", "IndexRune") || isFunc(o, "strings", "LastIndexByte") || isFunc(o, "strings", "IndexAny"):
		return cl.Call.Args[0], 1, true
	}
	return nil, 0, false
}

// cutBefore recognises the first result of strings.Cut(S, sep): its length r
// satisfies 0 ≤ r ≤ len(S) always, and r + len(sep) ≤ len(S) where the third
// result (found) is known true.
func cutBefore(v ssa.Value) (S ssa.Value, sepLen int, found ssa.Value, ok bool) {
	ex, isEx := canon(v).(*ssa.Extract)
	if !isEx || ex.Index != 0 {
		return nil, 0, nil, false
	}
	cl, isCall := ex.Tuple.(*ssa.Call)
	if !isCall || !isFunc(calleeObj(cl), "strings", "Cut") {
		return nil, 0, nil, false
	}
	if sep, isC := constString(cl.Call.Args[1]); isC {
		sepLen = len(sep)
	}
	return cl.Call.Args[0], sepLen, extractOf(cl, 2), true
}

// flagTrueAt: the boolean value is known true at block at.
func (ix *idxProver) flagTrueAt(v ssa.Value, at *ssa.BasicBlock) bool {
	if v == nil {
		return false
	}
	tE, _ := boolEdges(ix.fn, v)
	if guarded(at, tE) {
		return true
	}
	for _, e := range tE {
		if e.To() == at && e.From.Succs[1-e.Succ] != at {
			return true
		}
	}
	return false
}

// foundAt: at block `at` the search result v is known to be ≥ 0 (past v > -1,
// v >= 0, v != -1 true edges or v == -1 / v < 0 false edges).
func (ix *idxProver) foundAt(v ssa.Value, at *ssa.BasicBlock) bool {
	for _, b := range ix.fn.Blocks {
		if len(b.Instrs) == 0 {
			continue
		}
		ifi, ok := b.Instrs[len(b.Instrs)-1].(*ssa.If)
		if !ok {
			continue
		}
		cond, neg := stripNot(ifi.Cond)
		bo, ok := cond.(*ssa.BinOp)
		if !ok || bo.X != v {
			continue
		}
		k, isC := constInt(bo.Y)
		if !isC {
			continue
		}
		edge := -1
		switch {
		case bo.Op == token.GTR && k >= -1, bo.Op == token.GEQ && k >= 0, bo.Op == token.NEQ && k == -1:
			edge = 0 // v > k ≥ -1, v ≥ k ≥ 0: at least 0 on the true edge
		case bo.Op == token.EQL && k == -1, bo.Op == token.LSS && k == 0, bo.Op == token.LEQ && k == -1:
			edge = 1
		}
		if edge < 0 {
			continue
		}
		if neg {
			edge = 1 - edge
		}
		if guarded(at, []Edge{{b, edge}}) || (b.Succs[edge] == at && b.Succs[1-edge] != at) {
			return true
		}
	}
	return false
}

// ge0: v ≥ 0 at block at.
func (ix *idxProver) ge0(v ssa.Value, at *ssa.BasicBlock, seen map[ssa.Value]bool) bool {
	if seen[v] {
		return true
	}
	seen[v] = true
	switch x := v.(type) {
	case *ssa.Const:
		k, ok := constInt(x)
		return ok && k >= 0
	case *ssa.Phi:
		for i, e := range x.Edges {
			if !ix.ge0(e, x.Block().Preds[i], seen) {
				// a loop variable decremented under an `i >= 0` guard at the use point
				if ix.guardGe0(v, at) {
					return true
				}
				return false
			}
		}
		return true
	case *ssa.BinOp:
		switch x.Op {
		case token.ADD:
			return ix.ge0(x.X, at, seen) && ix.ge0(x.Y, at, seen)
		case token.SUB:
			// len(s) - k with len(s) ≥ k, or anything under an explicit ≥ 0 guard
			if l := lenOf(x.X); l != nil {
				if k, ok := constInt(x.Y); ok {
					if n, _ := ix.minLen(l, at); n >= int(k) {
						return true
					}
				}
			}
			return ix.guardGe0(v, at)
		}
	case *ssa.Call:
		if lenOf(x) != nil {
			return true
		}
		if _, _, ok := indexCall(x); ok {
			return ix.foundAt(x, at)
		}
	}
	return ix.guardGe0(v, at)
}

// guardGe0: an explicit `v >= 0` / `v > -1` guard dominates at.
func (ix *idxProver) guardGe0(v ssa.Value, at *ssa.BasicBlock) bool { return ix.foundAt(v, at) }

// le proves v + c ≤ B at block at.
func (ix *idxProver) le(v ssa.Value, c int, B bterm, at *ssa.BasicBlock, seen map[string]bool) bool {
	if c > 64 || c < -64 || len(seen) > 5000 {
		return false // a counter chased round its own loop: no proof this way
	}
	k := fmt.Sprintf("%p+%d<=%s", v, c, B.key())
	if seen[k] {
		return true // inductive hypothesis for loop-carried values
	}
	// ... which also covers every weaker claim about the same value: v + c ≤ v + c' ≤ B for c ≤ c'
	for c2 := c + 1; c2 <= 64; c2++ {
		if seen[fmt.Sprintf("%p+%d<=%s", v, c2, B.key())] {
			return true
		}
	}
	seen[k] = true
	if B.val != nil && v == B.val && c <= 0 {
		return true
	}
	if ix.leByAffixFact(v, c, B, at, seen) {
		return true
	}
	switch x := v.(type) {
	case *ssa.Const:
		n, ok := constInt(x)
		if !ok {
			return false
		}
		need := int(n) + c
		if need <= 0 {
			if B.lenOf != nil {
				return true
			}
			return ix.ge0(B.val, at, map[ssa.Value]bool{})
		}
		if B.lenOf != nil {
			m, _ := ix.minLen(B.lenOf, at)
			return m >= need
		}
		return false
	case *ssa.Phi:
		// a counter and a slice carried round the same loop in lockstep (n = len(s)-1 at entry, n+1 with every
		// append): the bound is proved edge by edge against the slice's value on that edge
		if S, ok := B.lenOf.(*ssa.Phi); ok && S.Block() == x.Block() && len(S.Edges) == len(x.Edges) {
			for i, e := range x.Edges {
				if !ix.le(e, c, bterm{lenOf: S.Edges[i]}, x.Block().Preds[i], seen) {
					return false
				}
			}
			return true
		}
		for i, e := range x.Edges {
			if !ix.le(e, c, B, x.Block().Preds[i], seen) {
				return false
			}
		}
		return true
	case *ssa.BinOp:
		switch x.Op {
		case token.ADD:
			if n, ok := constInt(x.Y); ok {
				// against append(S, k elements): v + n + c ≤ len(S) + k follows from v + n + c - k ≤ len(S)
				if base, k, ok := appendedTo(B.lenOf); ok && k > 0 {
					if ix.le(x.X, c+int(n)-k, bterm{lenOf: base}, at, seen) {
						return true
					}
				}
				return ix.le(x.X, c+int(n), B, at, seen)
			}
			if n, ok := constInt(x.X); ok {
				return ix.le(x.Y, c+int(n), B, at, seen)
			}
			// a + b where a = Index(S[b:h], sub): a + b + len(sub) ≤ h
			for _, pr := range [][2]ssa.Value{{x.X, x.Y}, {x.Y, x.X}} {
				a, b := pr[0], pr[1]
				S, sl, ok := indexCall(a)
				if ok && !ix.foundAtOrPhi(a, at) {
					continue
				}
				if !ok {
					// or a = len(before) with before, _, found := Cut(S[b:h], sep)
					l := lenOf(a)
					if l == nil {
						continue
					}
					S2, sl2, fnd, ok2 := cutBefore(l)
					if !ok2 {
						continue
					}
					S, sl = S2, 0
					if ix.flagTrueAt(fnd, at) {
						sl = sl2
					}
				}
				ss, ok := S.(*ssa.Slice)
				if !ok || ss.Low == nil || !sameInt(ss.Low, b) {
					continue
				}
				if c > sl {
					continue
				}
				if ss.High == nil {
					if ix.lenLe(ss.X, B) {
						return true
					}
					continue
				}
				if ix.le(ss.High, 0, B, at, seen) {
					return true
				}
			}
			return false
		case token.SUB:
			if n, ok := constInt(x.Y); ok {
				return ix.le(x.X, c-int(n), B, at, seen)
			}
		}
	case *ssa.Call:
		if l := lenOf(x); l != nil {
			// len(l) + c ≤ B
			if c <= 0 && ix.lenLe(l, B) {
				return true
			}
			// l is what strings.Cut found in front of the separator
			if S, sl, fnd, ok := cutBefore(l); ok {
				eff := 0
				if ix.flagTrueAt(fnd, at) {
					eff = sl
				}
				if c <= eff && ix.lenLe(S, B) {
					return true
				}
			}
			return false
		}
		if S, sl, ok := indexCall(x); ok && ix.foundAt(x, at) {
			// x + sl ≤ len(S)
			if c <= sl && ix.lenLe(S, B) {
				return true
			}
			return false
		}
	}
	return false
}

// leByAffixFact: where strings.HasPrefix / HasSuffix (X[lo:hi], k) is known
// true for a constant k, the tested slice has at least len(k) bytes:
// lo + len(k) ≤ hi (≤ len(X) without a high bound). With lo = v + d this gives
// v + c ≤ hi for every c ≤ d + len(k).
func (ix *idxProver) leByAffixFact(v ssa.Value, c int, B bterm, at *ssa.BasicBlock, seen map[string]bool) bool {
	if _, isC := v.(*ssa.Const); isC {
		return false
	}
	for _, ci := range callsIn(ix.fn) {
		h, ok := ci.(*ssa.Call)
		if !ok || !(isFunc(calleeObj(h), "strings", "HasPrefix") || isFunc(calleeObj(h), "strings", "HasSuffix")) {
			continue
		}
		k, isC := constString(h.Call.Args[1])
		if !isC || len(k) == 0 {
			continue
		}
		ss, ok := canon(h.Call.Args[0]).(*ssa.Slice)
		if !ok || ss.Low == nil {
			continue
		}
		d, okd := 0, ss.Low == v
		if bo, isB := ss.Low.(*ssa.BinOp); isB && !okd && bo.Op == token.ADD {
			if n, isN := constInt(bo.Y); isN && bo.X == v {
				d, okd = int(n), true
			} else if n, isN := constInt(bo.X); isN && bo.Y == v {
				d, okd = int(n), true
			}
		}
		if !okd || c > d+len(k) || !ix.flagTrueAt(h, at) {
			continue
		}
		if ss.High != nil {
			if ix.le(ss.High, 0, B, at, seen) {
				return true
			}
			continue
		}
		if ix.lenLe(ss.X, B) {
			return true
		}
	}
	return false
}

func (ix *idxProver) foundAtOrPhi(v ssa.Value, at *ssa.BasicBlock) bool { return ix.foundAt(v, at) }

// sameInt: two int values are the same SSA value (or equal constants).
func sameInt(a, b ssa.Value) bool {
	if a == b {
		return true
	}
	ka, ok1 := constInt(a)
	kb, ok2 := constInt(b)
	return ok1 && ok2 && ka == kb
}

// lenLe: len(S) ≤ B.
func (ix *idxProver) lenLe(S ssa.Value, B bterm) bool {
	if B.lenOf == nil && B.val != nil {
		if T := lenOf(B.val); T != nil && (sameSeq(S, T) || canon(S) == canon(T)) {
			return true
		}
	}
	if B.lenOf != nil && (sameSeq(S, B.lenOf) || canon(S) == canon(B.lenOf)) {
		return true
	}
	// append(a, b...) is at least as long as a and as b; append(a, x, y) as a
	if cl, ok := B.lenOf.(*ssa.Call); ok {
		if bi, ok := cl.Call.Value.(*ssa.Builtin); ok && bi.Name() == "append" {
			for _, a := range cl.Call.Args {
				if _, isVar := a.(*ssa.Slice); isVar {
					continue // the argument list of a variadic call
				}
				if sameSeq(S, a) || canon(S) == canon(a) {
					return true
				}
			}
		}
	}
	// what Cut found in front of the separator is not longer than what was cut
	if S2, _, _, ok := cutBefore(S); ok {
		return ix.lenLe(S2, B)
	}
	if B.lenOf == nil && B.val != nil {
		// B is len(T) for the same sequence
		if T := lenOf(B.val); T != nil && (sameSeq(S, T) || canon(S) == canon(T)) {
			return true
		}
		if T := lenOf(B.val); T != nil {
			if ss, ok := S.(*ssa.Slice); ok {
				if ix.lenLe(ss.X, B) {
					return true
				}
			}
		}
	}
	if B.lenOf != nil {
		if sameSeq(S, B.lenOf) || canon(S) == canon(B.lenOf) {
			return true
		}
		// a slice of it is not longer
		if ss, ok := S.(*ssa.Slice); ok {
			return ix.lenLe(ss.X, B)
		}
		return false
	}
	// B is an int value w: S = X[lo:w] has len w - lo ≤ w
	if ss, ok := S.(*ssa.Slice); ok && ss.High != nil && sameInt(ss.High, B.val) {
		return ss.Low == nil || ix.ge0(ss.Low, ss.Block(), map[ssa.Value]bool{})
	}
	return false
}

// sliceByBounds: X[lo:hi] is safe when 0 ≤ lo ≤ hi ≤ len(X) by difference bounds.
func (ix *idxProver) sliceByBounds(s *ssa.Slice) (bool, string) {
	if s.Max != nil {
		return false, "three-index slice with non-trivial bounds"
	}
	at := s.Block()
	X := s.X
	if s.High != nil {
		if !ix.le(s.High, 0, bterm{lenOf: X}, at, map[string]bool{}) {
			return false, "cannot show high bound ≤ len of the sliced value"
		}
		if !ix.ge0(s.High, at, map[ssa.Value]bool{}) {
			return false, "cannot show high bound ≥ 0"
		}
	}
	if s.Low != nil {
		if !ix.ge0(s.Low, at, map[ssa.Value]bool{}) {
			return false, "cannot show low bound ≥ 0"
		}
		if s.High != nil {
			if !ix.le(s.Low, 0, bterm{val: s.High}, at, map[string]bool{}) {
				return false, "cannot show low bound ≤ high bound"
			}
		} else if !ix.le(s.Low, 0, bterm{lenOf: X}, at, map[string]bool{}) {
			return false, "cannot show low bound ≤ len of the sliced value"
		}
	}
	return true, "0 ≤ low ≤ high ≤ len by difference bounds over strings.Index results (found ⇒ index + len(needle) ≤ len(haystack))"
}

// appendedTo: v = append(base, e1 … ek) with k counted from the argument list.
func appendedTo(v ssa.Value) (base ssa.Value, k int, ok bool) {
	cl, isCall := v.(*ssa.Call)
	if !isCall {
		return nil, 0, false
	}
	bi, isB := cl.Call.Value.(*ssa.Builtin)
	if !isB || bi.Name() != "append" || len(cl.Call.Args) != 2 {
		return nil, 0, false
	}
	sl, isS := cl.Call.Args[1].(*ssa.Slice)
	if !isS || sl.Low != nil || sl.High != nil {
		return nil, 0, false
	}
	al, isA := sl.X.(*ssa.Alloc)
	if !isA {
		return nil, 0, false
	}
	arr, isArr := derefType(al.Type()).Underlying().(*types.Array)
	if !isArr {
		return nil, 0, false
	}
	return cl.Call.Args[0], int(arr.Len()), true
}

// arrivesOn: the value being judged arrives at its phi over exactly this edge.
func (ix *idxProver) arrivesOn(b *ssa.BasicBlock, k int) bool {
	return ix.via != nil && ix.via.From == b && ix.via.Succ == k
}

// indexesSortedSlice: X, indexed inside the comparator closure fn, is the slice handed to sort.Slice together
// with that closure (the captured variable, or the captured value).
func (ix *idxProver) indexesSortedSlice(X ssa.Value, fn *ssa.Function) bool {
	strip := func(v ssa.Value) ssa.Value {
		for {
			switch x := v.(type) {
			case *ssa.MakeInterface:
				v = x.X
				continue
			case *ssa.ChangeType:
				v = x.X
				continue
			}
			return v
		}
	}
	// an access path: the value is *(&(&root.f1).f2 …) or root itself
	path := func(v ssa.Value) (root ssa.Value, fields []int, deref bool) {
		v = strip(v)
		ld, ok := v.(*ssa.UnOp)
		if !ok || ld.Op != token.MUL {
			return v, nil, false
		}
		a := ld.X
		for {
			fa, ok := a.(*ssa.FieldAddr)
			if !ok {
				break
			}
			fields = append(fields, fa.Field)
			a = fa.X
		}
		return a, fields, true
	}
	xr, xf, xd := path(X)
	fv, ok := xr.(*ssa.FreeVar)
	if !ok {
		return false
	}
	idx := -1
	for i, f := range fn.FreeVars {
		if f == fv {
			idx = i
		}
	}
	if idx < 0 {
		return false
	}
	n := 0
	for _, mc := range closureSites(fn) {
		if idx >= len(mc.Bindings) || mc.Referrers() == nil {
			return false
		}
		bind := mc.Bindings[idx]
		for _, r := range *mc.Referrers() {
			cl, ok := r.(*ssa.Call)
			if !ok || !(isFunc(calleeObj(cl), "sort", "Slice") || isFunc(calleeObj(cl), "sort", "SliceStable")) {
				continue
			}
			n++
			sr, sf, sd := path(cl.Call.Args[0])
			if xd != sd || len(xf) != len(sf) {
				return false
			}
			for k := range xf {
				if xf[k] != sf[k] {
					return false
				}
			}
			if sr != bind && canon(sr) != canon(bind) {
				return false
			}
		}
	}
	return n > 0
}
