package main

import (
	"go/token"
	"go/types"
	"strings"

	"golang.org/x/tools/go/ssa"
)

// exclCall is one evaluation of ignore rules on a path.
type exclCall struct {
	Call   *ssa.Call
	Result ssa.Value // the ExcludesResult value
	Arg    ssa.Value // the path string matched
	ExT    []Edge    // Excluded is true
	ExF    []Edge
	DomT   []Edge // Dominating is true
	DomF   []Edge
	ErrV   ssa.Value
}

type walkInfo struct {
	Fn           *ssa.Function // the walk callback
	Maker        *ssa.Function // function creating it
	PathParam    *ssa.Parameter
	InfoParam    *ssa.Parameter
	WriteHeaders []*ssa.Call
	Excl         []exclCall
}

type packCtx struct {
	Pack   *ssa.Function
	Reach  map[*ssa.Function]bool
	ReachL []*ssa.Function
	Walks  []*walkInfo // the walk callbacks; WriteHeaders = the calls in the callback through which a header is written (WriteHeader itself or a private helper that writes it)
	Hosts  []*walkInfo // the functions that contain the WriteHeader calls themselves (== Walks unless the write was moved into a helper)
}

func isExcludesResult(t types.Type) bool {
	n, ok := types.Unalias(t).(*types.Named)
	return ok && n.Obj().Name() == "ExcludesResult" && n.Obj().Pkg() != nil && strings.HasSuffix(n.Obj().Pkg().Path(), "/ignorefiles")
}

// structFieldEdges: edges on which boolean field `name` of struct value sv is
// true/false (sv read directly or through a single-assignment local cell).
func structFieldEdges(fn *ssa.Function, sv ssa.Value, name string) (t, f []Edge) {
	return condEdges(fn, func(v ssa.Value) bool {
		switch x := v.(type) {
		case *ssa.Field:
			fv := fieldOf(x)
			return fv != nil && fv.Name() == name && canon(x.X) == sv
		case *ssa.UnOp:
			if x.Op != token.MUL {
				return false
			}
			fa, ok := x.X.(*ssa.FieldAddr)
			if !ok {
				return false
			}
			fv := fieldOf(fa)
			if fv == nil || fv.Name() != name {
				return false
			}
			al, ok := fa.X.(*ssa.Alloc)
			if !ok {
				return false
			}
			ws := cellWrites(al)
			return len(ws) == 1 && ws[0].Val == sv
		}
		return false
	})
}

// findExclCalls lists ignore-rule evaluations in fn: calls producing an
// ExcludesResult (the Ruleset.Excludes method or a wrapper around it).
func findExclCalls(fn *ssa.Function) []exclCall {
	var out []exclCall
	for _, ci := range callsIn(fn) {
		call, ok := ci.(*ssa.Call)
		if !ok {
			continue
		}
		res := call.Call.Signature().Results()
		var rv, ev ssa.Value
		switch {
		case res.Len() == 1 && isExcludesResult(res.At(0).Type()):
			rv = call
		case res.Len() == 2 && isExcludesResult(res.At(0).Type()):
			rv = extractOf(call, 0)
			ev = extractOf(call, 1)
		default:
			continue
		}
		if rv == nil {
			continue
		}
		e := exclCall{Call: call, Result: rv, ErrV: ev}
		for _, a := range call.Call.Args {
			if b, ok := a.Type().Underlying().(*types.Basic); ok && b.Kind() == types.String {
				e.Arg = a
			}
		}
		e.ExT, e.ExF = structFieldEdges(fn, rv, "Excluded")
		e.DomT, e.DomF = structFieldEdges(fn, rv, "Dominating")
		out = append(out, e)
	}
	return out
}

func getPackCtx(c *Checker, rule string) *packCtx {
	p := c.P
	pc := &packCtx{}
	pc.Pack = p.Fn("slug", "Packer.Pack")
	if pc.Pack == nil {
		c.anchorMissing(rule, "(*slug.Packer).Pack")
		return nil
	}
	pc.Reach = p.reach(pc.Pack)
	pc.ReachL = sortedFuncs(pc.Reach)
	isWH := func(o *types.Func) bool { return isMethod(o, "archive/tar", "Writer", "WriteHeader") }
	mk := func(fn *ssa.Function, whs []*ssa.Call) *walkInfo {
		w := &walkInfo{Fn: fn, Maker: fn.Parent(), WriteHeaders: whs}
		for _, prm := range fn.Params {
			if b, ok := prm.Type().Underlying().(*types.Basic); ok && b.Kind() == types.String && w.PathParam == nil {
				w.PathParam = prm
			}
			if n, ok := types.Unalias(prm.Type()).(*types.Named); ok && n.Obj().Name() == "FileInfo" && w.InfoParam == nil {
				w.InfoParam = prm
			}
		}
		w.Excl = findExclCalls(fn)
		return w
	}
	// the walk callbacks, by role: (…, string, fs.FileInfo|fs.DirEntry, error) error, reachable from Pack,
	// that write tar headers themselves or through private helpers
	isCallback := func(fn *ssa.Function) bool {
		res := fn.Signature.Results()
		if res.Len() != 1 || !isErrorType(res.At(0).Type()) {
			return false
		}
		ps := fn.Params
		for i := 0; i+2 < len(ps); i++ {
			if !isStringType(ps[i].Type()) || !isErrorType(ps[i+2].Type()) {
				continue
			}
			if n, ok := types.Unalias(ps[i+1].Type()).(*types.Named); ok && (n.Obj().Name() == "FileInfo" || n.Obj().Name() == "DirEntry") {
				return true
			}
		}
		return false
	}
	hosts := map[*ssa.Function][]*ssa.Call{}
	for _, fn := range pc.ReachL {
		if !p.InModule(fn) || !isCallback(fn) {
			continue
		}
		var emits []*ssa.Call
		seen := map[*ssa.Call]bool{}
		for _, v := range p.vcalls(fn, 3) {
			if !isWH(calleeObj(v.Inner)) {
				continue
			}
			in, ok1 := v.Inner.(*ssa.Call)
			site, ok2 := v.Site.(*ssa.Call)
			if !ok1 || !ok2 {
				continue
			}
			if !seen[site] {
				seen[site] = true
				emits = append(emits, site)
			}
			dup := false
			for _, x := range hosts[in.Parent()] {
				if x == in {
					dup = true
				}
			}
			if !dup {
				hosts[in.Parent()] = append(hosts[in.Parent()], in)
			}
		}
		if len(emits) == 0 {
			continue
		}
		pc.Walks = append(pc.Walks, mk(fn, emits))
	}
	if len(pc.Walks) == 0 {
		// no callback recognised by its signature: fall back to the functions that write headers
		for _, fn := range pc.ReachL {
			var whs []*ssa.Call
			for _, ci := range callsTo(fn, isWH) {
				if cl, ok := ci.(*ssa.Call); ok {
					whs = append(whs, cl)
				}
			}
			if len(whs) > 0 {
				pc.Walks = append(pc.Walks, mk(fn, whs))
				hosts[fn] = whs
			}
		}
	}
	for _, fn := range sortedFuncs(func() map[*ssa.Function]bool {
		m := map[*ssa.Function]bool{}
		for f := range hosts {
			m[f] = true
		}
		return m
	}()) {
		var found *walkInfo
		for _, w := range pc.Walks {
			if w.Fn == fn {
				found = w
			}
		}
		if found != nil && len(found.WriteHeaders) == len(hosts[fn]) {
			pc.Hosts = append(pc.Hosts, found)
		} else {
			pc.Hosts = append(pc.Hosts, mk(fn, hosts[fn]))
		}
	}
	if len(pc.Walks) == 0 {
		c.anchorMissing(rule, "a function reachable from Pack that calls (*tar.Writer).WriteHeader")
		return nil
	}
	return pc
}

// rootEdges: true edges of `x == "."` where x is a filepath.Rel result.
func rootEdges(fn *ssa.Function) []Edge {
	t, _ := condEdges(fn, func(v ssa.Value) bool {
		bo, ok := v.(*ssa.BinOp)
		if !ok || bo.Op != token.EQL {
			return false
		}
		s, ok := constString(bo.Y)
		if !ok || s != "." {
			return false
		}
		cl := callOf(bo.X)
		return cl != nil && isFunc(calleeObj(cl), "path/filepath", "Rel")
	})
	return t
}

// isRegularEdges: edges on which (FileMode).IsRegular() of some mode value is
// true / false; modeOf filters the mode's origin (nil = any).
func isRegularEdges(fn *ssa.Function, accept func(mode ssa.Value) bool) (t, f []Edge) {
	return condEdges(fn, func(v ssa.Value) bool {
		cl, ok := v.(*ssa.Call)
		if !ok || !isMethod(calleeObj(cl), "io/fs", "FileMode", "IsRegular") {
			return false
		}
		return accept == nil || accept(cl.Call.Args[0])
	})
}

// omitReason explains a nil return before the header write, or "".
func (w *walkInfo) omitReason(p *Prog, r *ssa.Return) string {
	b := r.Block()
	if guarded(b, rootEdges(w.Fn)) {
		return "walk root (relative path \".\")"
	}
	var ex []Edge
	for _, e := range w.Excl {
		ex = append(ex, e.ExT...)
	}
	if guarded(b, ex) {
		return "ignore-rule exclusion"
	}
	// keep == false of a file-mode classifier
	_, kf := condEdges(w.Fn, func(v ssa.Value) bool {
		ex, ok := v.(*ssa.Extract)
		if !ok || ex.Index != 0 {
			return false
		}
		cl, ok := ex.Tuple.(*ssa.Call)
		if !ok {
			return false
		}
		g := cl.Common().StaticCallee()
		return g != nil && p.InModule(g) && len(cl.Call.Args) == 1 && isFileMode(cl.Call.Args[0].Type())
	})
	if guarded(b, kf) {
		return "file-mode classifier says not to keep (special file)"
	}
	_, nr := isRegularEdges(w.Fn, nil)
	if guarded(b, nr) {
		return "dereferenced target is not a regular file"
	}
	return ""
}

func isFileMode(t types.Type) bool {
	n, ok := types.Unalias(t).(*types.Named)
	return ok && n.Obj().Name() == "FileMode" && n.Obj().Pkg() != nil && n.Obj().Pkg().Path() == "io/fs"
}

// (pc *packCtx) single-walk conveniences used by rules written for one walk.
func (pc *packCtx) omitReason(p *Prog, r *ssa.Return) string {
	for _, w := range pc.Walks {
		if w.Fn == r.Parent() {
			return w.omitReason(p, r)
		}
	}
	return ""
}

// headerAlloc: the *tar.Header passed to a WriteHeader call.
func headerAlloc(wh *ssa.Call) ssa.Value {
	for _, a := range wh.Call.Args {
		if isHeaderType(a.Type()) {
			return canon(a)
		}
	}
	return canon(wh.Call.Args[len(wh.Call.Args)-1])
}

// headerFieldStores: stores into field `name` of header h in fn.
func headerFieldStores(fn *ssa.Function, h ssa.Value, name string) []*ssa.Store {
	var out []*ssa.Store
	eachInstr(fn, func(in ssa.Instruction) {
		if st, ok := in.(*ssa.Store); ok {
			if fa, ok := st.Addr.(*ssa.FieldAddr); ok && canon(fa.X) == h {
				if f := fieldOf(fa); f != nil && f.Name() == name {
					out = append(out, st)
				}
			}
		}
	})
	return out
}

// reachAvoiding: blocks reachable from `from` without entering `avoid`.
func reachAvoiding(from *ssa.BasicBlock, avoid map[*ssa.BasicBlock]bool) map[*ssa.BasicBlock]bool {
	seen := map[*ssa.BasicBlock]bool{}
	if avoid[from] {
		return seen
	}
	seen[from] = true
	work := []*ssa.BasicBlock{from}
	for len(work) > 0 {
		b := work[len(work)-1]
		work = work[:len(work)-1]
		for _, s := range b.Succs {
			if !seen[s] && !avoid[s] {
				seen[s] = true
				work = append(work, s)
			}
		}
	}
	return seen
}
