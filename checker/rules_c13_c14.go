package main

import (
	"fmt"
	"go/token"
	"go/types"
	"os"
	"sort"
	"strings"

	"golang.org/x/tools/go/ssa"
)

func init() {
	register("C13", &propDef{
		Title: "The bundle is a function of its inputs, not of order or scheduling",
		Rules: []func(*Checker){ruleC13Maps, ruleC13Locks, ruleLockBalanced("C13.balanced"), ruleLocalMemo("C13.localmemo"), ruleC13Atomic, ruleC13Names, ruleChecksum("C13.checksum"), aliasRule(ruleC08Meta, "C08.meta", "C13.meta", 1), ruleHashAfterWalk("C13.hashafterwalk"), aliasRuleFiltered(ruleC03Arg, "C03.arg", "C13.relarg", 1, func(o Oblig) bool { return strings.Contains(o.Key, "sourcebundle.") }), aliasRuleFiltered(ruleC08SameJoin, "C08.samejoin", "C13.samejoin", 1, func(o Oblig) bool { return strings.Contains(o.Key, "success return") }), aliasRule(ruleC17Dep, "C17.dep", "C13.registry", 4), aliasRule(ruleC08NoDrop, "C08.nodrop", "C13.nodrop", 2), ruleFetchMemoOnly("C13.fetchmemo"), ruleRecordNotBehindMemo("C13.recordmemo"), ruleQueuesDrained("C13.drained"), ruleHashPrefixEmpty("C13.hashprefix"), ruleMetaFromOwnFetch("C13.metaown"), ruleMemoKeyedByRequest("C13.keyedbyrequest"), ruleEnsureByPackageOnly("C13.pkgonly"), aliasRuleFiltered(ruleC14Memo, "C14.memo", "C13.memokey", 2, func(o Oblig) bool {
			return strings.Contains(o.Key, "key ") || strings.Contains(o.Key, "result recorded")
		})},
		NotDecided: []string{
			"equality of bundles across permutations of Add calls (run-time)",
			"scheduler behaviour beyond lock discipline; totality of sort comparators",
			"that dirhash distinguishes packages differing only in file modes (documented FIXME in the code)",
		},
		Assumptions: []string{"one Builder per lock: b.mu guards the fields of the same b", "callbacks handed to user code run within the dynamic extent of the call that received them (Dependencies.disable contract)"},
	})
	register("C14", &propDef{
		Title: "The builder does each piece of work once and always terminates",
		Rules: []func(*Checker){ruleC14Memo, ruleC14Trace, ruleTraceCalls("C14.calls"), ruleCtxNonNil("C14.ctx"), ruleLockBalanced("C14.balanced"), ruleC14Queue, aliasRuleFiltered(ruleC08Callbacks, "C08.callbacks", "C14.reports", 3, func(o Oblig) bool {
			return strings.Contains(o.Key, "hands the report to a callback") || strings.Contains(o.Key, "/callback ")
		}), aliasRule(ruleC08NoDrop, "C08.nodrop", "C14.nodrop", 2),
			ruleSelectionBeforeAnswer("C14.selected"), aliasRuleFiltered(ruleC08SameJoin, "C08.samejoin", "C14.samejoin", 1, func(o Oblig) bool { return strings.Contains(o.Key, "success return") }), aliasRuleFiltered(ruleC06CanonURL, "C06.canonurl", "C14.canonkey", 1, func(o Oblig) bool { return strings.Contains(o.Key, "canonical") }), ruleQueueLoopsProgress("C14.progress"), aliasRule(ruleC08Drain, "C08.drain", "C14.drain", 1), ruleQueuesDrained("C14.drained")},
		NotDecided: []string{
			"termination in general (needs a ranking argument over the world); the analysed-set store is the structural necessary condition checked",
			"'exactly once' across failures",
		},
	})
}

const bundlePkg = "sourcebundle"

func inBundlePkg(p *Prog, fn *ssa.Function) bool {
	o := p.Outer(fn)
	return o.Package() != nil && o.Package().Pkg.Path() == p.PkgPath(bundlePkg)
}

// ---------- H8: map range classifier ----------

type mapRange struct {
	Fn    *ssa.Function
	Range *ssa.Range
	Next  *ssa.Next
	Body  map[*ssa.BasicBlock]bool
	Head  *ssa.BasicBlock
}

func mapRanges(fn *ssa.Function) []mapRange {
	var out []mapRange
	eachInstr(fn, func(in ssa.Instruction) {
		r, ok := in.(*ssa.Range)
		if !ok {
			return
		}
		if _, isMap := r.X.Type().Underlying().(*types.Map); !isMap {
			return
		}
		mr := mapRange{Fn: fn, Range: r, Body: map[*ssa.BasicBlock]bool{}}
		if refs := r.Referrers(); refs != nil {
			for _, q := range *refs {
				if n, ok := q.(*ssa.Next); ok {
					mr.Next = n
				}
			}
		}
		if mr.Next == nil {
			return
		}
		mr.Head = mr.Next.Block()
		// the natural loop of the head's back edges: what reaches a back edge's source without passing the
		// head (a block behind the loop's exit that reaches the head again through an enclosing loop is not in it)
		mr.Body[mr.Head] = true
		var work []*ssa.BasicBlock
		for _, pb := range mr.Head.Preds {
			if blockDominates(mr.Head, pb) && !mr.Body[pb] {
				mr.Body[pb] = true
				work = append(work, pb)
			}
		}
		for len(work) > 0 {
			b := work[len(work)-1]
			work = work[:len(work)-1]
			for _, pb := range b.Preds {
				if !mr.Body[pb] {
					mr.Body[pb] = true
					work = append(work, pb)
				}
			}
		}
		out = append(out, mr)
	})
	return out
}

func ruleC13Maps(c *Checker) {
	const R = "C13.maps"
	c.rule(R, "Every range over a map in sourcebundle/sourceaddrs is order-insensitive: (E1) the body only updates maps; (E2) it appends to a slice that is sorted on every path before it escapes; (E3) it only returns errors; (E5) it selects an element by a relation 'candidate replaces kept' that is a strict total order on the keys — the relation is extracted from the loop body as a table over the orderings of the key functions compared, and checked for totality, antisymmetry and transitivity on all three-element models. Anything else lets map iteration order leak into results.", 5)
	p := c.P
	n := 0
	for _, fn := range p.Funcs {
		if !(inBundlePkg(p, fn) || (p.Outer(fn).Package() != nil && p.Outer(fn).Package().Pkg.Path() == p.PkgPath(addrPkg))) {
			continue
		}
		for _, mr := range mapRanges(fn) {
			n++
			cls, why := classifyMapRange(p, mr)
			c.check(cls != "E4", R, p.FuncName(fn), "range over "+mapDesc(mr.Range.X), p.Pos(mr.Range.Pos()), cls+": "+why, "map iteration order can leak into the result: "+why)
		}
	}
	c.check(n > 0, R, "-", "map ranges", "-", fmt.Sprintf("%d range(s) over maps classified", n), "no map ranges found in the bundle code")
}

func mapDesc(v ssa.Value) string {
	v = canon(v)
	if u, ok := v.(*ssa.UnOp); ok {
		if fa, ok := u.X.(*ssa.FieldAddr); ok && fieldOf(fa) != nil {
			return fieldOf(fa).Name()
		}
	}
	if f, ok := v.(*ssa.Field); ok {
		return fieldOf(f).Name()
	}
	if c, ok := v.(*ssa.Call); ok {
		return "result of " + shortCallee(fullName(calleeObj(c)))
	}
	return v.Name()
}

func classifyMapRange(p *Prog, mr mapRange) (string, string) {
	_ = mr.Fn
	var appends []*ssa.Call
	otherEffects := 0
	outerStores := 0
	earlyReturns, errOnly := 0, true
	for b := range mr.Body {
		for _, in := range b.Instrs {
			switch x := in.(type) {
			case *ssa.Call:
				if bi, ok := x.Call.Value.(*ssa.Builtin); ok && bi.Name() == "append" {
					appends = append(appends, x)
				}
			case *ssa.Store:
				// stores into the loop's own temporaries (composite literals allocated in the body) are fine
				base := x.Addr
				for {
					switch a := base.(type) {
					case *ssa.FieldAddr:
						base = a.X
						continue
					case *ssa.IndexAddr:
						base = a.X
						continue
					}
					break
				}
				if al, ok := base.(*ssa.Alloc); ok && (mr.Body[al.Block()] || allUsesInside(al, mr.Body)) {
					continue
				}
				if al, ok := base.(*ssa.Alloc); ok && !al.Heap && al.Comment == "varargs" {
					continue
				}
				outerStores++
			case *ssa.Send, *ssa.Go:
				otherEffects++
			}
		}
		for _, s := range b.Succs {
			if !mr.Body[s] && b != mr.Head {
				// exit from inside the body
				if r, ok := s.Instrs[len(s.Instrs)-1].(*ssa.Return); ok {
					earlyReturns++
					if mayReturnNilErr(r) {
						errOnly = false
					}
				} else {
					// an exit that does more before returning (building the message): every return it can
					// reach must be an error return
					earlyReturns++
					seenX := map[*ssa.BasicBlock]bool{s: true}
					workX := []*ssa.BasicBlock{s}
					for len(workX) > 0 {
						x := workX[len(workX)-1]
						workX = workX[:len(workX)-1]
						if r, ok := x.Instrs[len(x.Instrs)-1].(*ssa.Return); ok {
							if mayReturnNilErr(r) {
								errOnly = false
							}
							continue
						}
						if len(x.Succs) == 0 {
							continue // panic
						}
						for _, y := range x.Succs {
							if mr.Body[y] || y == mr.Head {
								errOnly = false
							}
							if !seenX[y] {
								seenX[y] = true
								workX = append(workX, y)
							}
						}
					}
				}
			}
		}
	}
	// phi-carried accumulators at the loop head (values carried across iterations other than slices appended to)
	var accPhis []*ssa.Phi
	for _, in := range mr.Head.Instrs {
		if ph, ok := in.(*ssa.Phi); ok {
			accPhis = append(accPhis, ph)
		}
	}
	if otherEffects > 0 {
		return "E4", "the body sends on a channel or starts goroutines"
	}
	// writes into another map under a key computed from the loop key: two keys of the ranged map may
	// collapse onto one (lenient parsing: "1.0.0", "1.0", "1"), and then the last one in iteration order
	// wins — unless a collision is detected (a comma-ok lookup under that very key whose found edge
	// only leads to error returns) before the write
	var kExt ssa.Value
	if refs := mr.Next.Referrers(); refs != nil {
		for _, r := range *refs {
			if ex, ok := r.(*ssa.Extract); ok && ex.Index == 1 {
				kExt = ex
			}
		}
	}
	if kExt != nil {
		for b := range mr.Body {
			for _, in := range b.Instrs {
				mu, ok := in.(*ssa.MapUpdate)
				if !ok || canon(mu.Key) == kExt {
					continue
				}
				// derived through a parser: a call returning (T, error) normalises, so it is not injective;
				// field selections and String() of the key's components are taken to be
				derived := false
				for w := range p.backSlice(mu.Key, 0) {
					ex, ok := w.(*ssa.Extract)
					if !ok || ex.Index != 0 {
						continue
					}
					cl, ok := ex.Tuple.(*ssa.Call)
					if !ok {
						continue
					}
					res := cl.Call.Signature().Results()
					if res.Len() != 2 || !isErrorType(res.At(1).Type()) {
						continue
					}
					for _, a := range cl.Call.Args {
						if p.backSlice(a, 0)[kExt] {
							derived = true
						}
					}
					// a function literal called on the spot takes the key through a captured variable
					if mc, ok := cl.Call.Value.(*ssa.MakeClosure); ok {
						for _, bnd := range mc.Bindings {
							if refs := bnd.Referrers(); refs != nil {
								for _, r := range *refs {
									if st, ok := r.(*ssa.Store); ok && st.Addr == bnd && p.backSlice(st.Val, 0)[kExt] {
										derived = true
									}
								}
							}
						}
					}
				}
				if !derived {
					continue
				}
				guardedByCheck := false
				for b2 := range mr.Body {
					for _, in2 := range b2.Instrs {
						lk, ok := in2.(*ssa.Lookup)
						if !ok || !lk.CommaOk || canon(lk.Index) != canon(mu.Key) {
							continue
						}
						var found ssa.Value
						if refs := lk.Referrers(); refs != nil {
							for _, r := range *refs {
								if ex, ok := r.(*ssa.Extract); ok && ex.Index == 1 {
									found = ex
								}
							}
						}
						if found == nil {
							continue
						}
						tE, fE := boolEdges(mr.Fn, found)
						okErr := len(tE) > 0
						for _, e := range tE {
							for x := range reachFromEdge(e) {
								if r, isRet := x.Instrs[len(x.Instrs)-1].(*ssa.Return); isRet && mayReturnNilErr(r) {
									okErr = false
								}
								if x == mr.Head {
									okErr = false
								}
							}
						}
						if okErr && guarded(mu.Block(), fE) {
							guardedByCheck = true
						}
					}
				}
				if !guardedByCheck {
					return "E4", "a map is written under a key parsed from the loop key (" + mapDesc(mu.Map) + "): two keys of the ranged map that compute to the same key overwrite each other in iteration order, and no collision check precedes the write"
				}
			}
		}
	}
	if earlyReturns > 0 && !errOnly {
		return "E4", "the loop can be left early with a non-error result that depends on which element came first"
	}
	if len(appends) > 0 {
		// E2: each slice appended to must be sorted after the loop on every path
		for _, ap := range appends {
			okS, sorts := sortedAfter(p, mr, ap)
			if !okS {
				return "E4", "elements are appended in iteration order to a slice that is not sorted afterwards on every path"
			}
			for _, sc := range sorts {
				if okU, why := sortKeyFromMapKey(p, mr, ap, sc, kExt); !okU {
					return "E4", why
				}
			}
		}
		// the slice starts empty, and "nothing" is answered only for an empty map
		for _, ap := range appends {
			for _, in := range mr.Head.Instrs {
				ph, ok := in.(*ssa.Phi)
				if !ok {
					continue
				}
				feeds := false
				for _, e := range ph.Edges {
					if e == ssa.Value(ap) {
						feeds = true
					}
				}
				if !feeds {
					continue
				}
				for _, e := range ph.Edges {
					if ms, ok := canon(e).(*ssa.MakeSlice); ok {
						if k, isC := constInt(ms.Len); !isC || k != 0 {
							return "E4", "the slice the elements are appended to does not start empty (make with a non-zero length): the result begins with zero-value elements that are not in the map"
						}
					}
				}
			}
		}
		for _, ap := range appends {
			if refs := ap.Referrers(); refs != nil {
				for _, r := range *refs {
					st, ok := r.(*ssa.Store)
					if !ok || st.Val != ssa.Value(ap) {
						continue
					}
					for _, w := range cellWrites(st.Addr) {
						if ms, ok := w.Val.(*ssa.MakeSlice); ok {
							if k, isC := constInt(ms.Len); !isC || k != 0 {
								return "E4", "the slice the elements are appended to does not start empty (make with a non-zero length): the result begins with zero-value elements that are not in the map"
							}
						}
					}
				}
			}
		}
		empties := lenZeroEdges(mr.Fn, func(v ssa.Value) bool { return canon(v) == canon(mr.Range.X) })
		for _, r := range returnsOf(mr.Fn) {
			if len(r.Results) != 1 || !isNilConst(r.Results[0]) || mr.Body[r.Block()] {
				continue
			}
			if _, isSlice := r.Results[0].Type().Underlying().(*types.Slice); !isSlice {
				continue
			}
			if len(empties) == 0 || !guarded(r.Block(), empties) {
				return "E4", "the function answers nil on a path where the map may have elements (the emptiness test is missing, inverted or compares with something other than 0): recorded entries cannot be read back"
			}
		}
		return "E2", "appends to a slice that is sorted before it escapes"
	}
	nonSliceAcc := 0
	for _, ph := range accPhis {
		if _, isSlice := ph.Type().Underlying().(*types.Slice); isSlice {
			continue
		}
		if _, isIter := ph.Type().Underlying().(*types.Tuple); isIter {
			continue
		}
		nonSliceAcc++
	}
	if nonSliceAcc > 0 || outerStores > 0 {
		// E5: selection with a string tie-break
		if ok, why := selectionIsTotalOrder(p, mr); ok {
			return "E5", why
		} else if hasStringOrderCompare(mr) || nonSliceAcc > 0 {
			if outerStores > 0 && nonSliceAcc == 0 && onlyMapKeyedStores(mr) {
				return "E1", "only writes keyed by the loop key"
			}
			return "E4", "an element is selected across iterations, but not by a total order: " + why
		}
		if outerStores > 0 && nonSliceAcc == 0 && onlyMapKeyedStores(mr) {
			return "E1", "only writes keyed by the loop key"
		}
		return "E4", "a value is chosen or accumulated across iterations without a total tie-break"
	}
	if earlyReturns > 0 {
		return "E3", "only error returns leave the loop early"
	}
	return "E1", "the body only updates maps / local values"
}

func onlyMapKeyedStores(mr mapRange) bool { return false }

func hasStringOrderCompare(mr mapRange) bool {
	for b := range mr.Body {
		for _, in := range b.Instrs {
			if bo, ok := in.(*ssa.BinOp); ok && isStringType(bo.X.Type()) {
				switch bo.Op {
				case token.LSS, token.LEQ, token.GTR, token.GEQ:
					return true
				}
			}
		}
	}
	return false
}

// sortedAfter: the slice the append extends is sorted on every path from the
// loop exit before any return.
func sortedAfter(p *Prog, mr mapRange, ap *ssa.Call) (bool, []*ssa.Call) {
	var sorts []*ssa.Call
	fn := mr.Fn
	// identify the slice variable: where the append result is stored (field / cell) or the phi it feeds
	var isSame func(v ssa.Value) bool
	var storeAddr ssa.Value
	if refs := ap.Referrers(); refs != nil {
		for _, r := range *refs {
			if st, ok := r.(*ssa.Store); ok && st.Val == ssa.Value(ap) {
				storeAddr = st.Addr
			}
		}
	}
	if storeAddr != nil {
		isSame = func(v ssa.Value) bool {
			v = canon(v)
			if mi, ok := v.(*ssa.MakeInterface); ok {
				v = canon(mi.X)
			}
			if ct, ok := v.(*ssa.ChangeType); ok {
				v = canon(ct.X)
			}
			if ld, ok := v.(*ssa.UnOp); ok && ld.Op == token.MUL {
				if fa, ok := ld.X.(*ssa.FieldAddr); ok {
					if fb, ok := storeAddr.(*ssa.FieldAddr); ok {
						return fa.Field == fb.Field && sameLoc(fa.X, fb.X) || (fa.Field == fb.Field && canon(fa.X) == canon(fb.X))
					}
				}
				return ld.X == storeAddr
			}
			return false
		}
	} else {
		// SSA register: the phi at the loop head carrying the slice
		var ph *ssa.Phi
		for _, in := range mr.Head.Instrs {
			if q, ok := in.(*ssa.Phi); ok {
				for _, e := range q.Edges {
					if e == ssa.Value(ap) {
						ph = q
					}
				}
			}
		}
		if ph == nil {
			return false, nil
		}
		isSame = func(v ssa.Value) bool {
			v = canon(v)
			if v == ssa.Value(ph) {
				return true
			}
			if ct, ok := v.(*ssa.ChangeType); ok {
				return ct.X == ssa.Value(ph)
			}
			if mi, ok := v.(*ssa.MakeInterface); ok {
				return canon(mi.X) == ssa.Value(ph)
			}
			return false
		}
	}
	isSort := func(in ssa.Instruction) bool {
		cl, ok := in.(*ssa.Call)
		if !ok {
			return false
		}
		o := calleeObj(cl)
		if os.Getenv("SLUGCHECK_DEBUG") != "" && o != nil && o.Name() == "Slice" {
			mi, _ := canon(cl.Call.Args[0]).(*ssa.MakeInterface)
			if mi != nil {
				fmt.Fprintf(os.Stderr, "isSort: %v inner %T %v canon %T %v storeAddr %p\n", cl, mi.X, mi.X, canon(mi.X), canon(mi.X), storeAddr)
				if u0, ok := mi.X.(*ssa.UnOp); ok {
					sts := storesTo(u0.Parent(), u0.X)
					fmt.Fprintf(os.Stderr, "   load in block %d of %s; stores %d; esc %v\n", u0.Block().Index, u0.Parent().Name(), len(sts), escapesToClosure(u0.X))
					for _, st := range sts {
						fmt.Fprintf(os.Stderr, "   store in block %d dominates %v\n", st.Block().Index, dominates(st, u0))
					}
					if r := u0.X.Referrers(); r != nil {
						for _, x := range *r {
							fmt.Fprintf(os.Stderr, "   ref %T %v\n", x, x)
						}
					}
				}
				if ld, ok := canon(mi.X).(*ssa.UnOp); ok {
					fmt.Fprintf(os.Stderr, "   ld.X %p %v\n", ld.X, ld.X)
				}
			}
		}
		if isFunc(o, "sort", "Slice") || isFunc(o, "sort", "SliceStable") || isFunc(o, "sort", "Strings") || isFunc(o, "sort", "Sort") || isFunc(o, "sort", "Stable") {
			if len(cl.Call.Args) > 0 && isSame(cl.Call.Args[0]) {
				sorts = append(sorts, cl)
				return true
			}
			return false
		}
		// the generic spellings of the same calls (slices.Sort, SortFunc, SortStableFunc)
		if o != nil && objPkgPath(o) == "slices" && strings.HasPrefix(o.Name(), "Sort") {
			if len(cl.Call.Args) > 0 && isSame(cl.Call.Args[0]) {
				sorts = append(sorts, cl)
				return true
			}
			return false
		}
		if o != nil && o.Name() == "Sort" && len(cl.Call.Args) > 0 {
			// versions.List.Sort orders by precedence only: versions that differ in build metadata
			// alone keep the order they were appended in, i.e. map order — not a total order
			if recvTypeName(o) == "List" && strings.HasSuffix(objPkgPath(o), "go-versions/versions") {
				return false
			}
			return isSame(cl.Call.Args[0])
		}
		return false
	}
	// from each loop exit
	for _, s := range mr.Head.Succs {
		if mr.Body[s] {
			continue
		}
		first := s.Instrs[0]
		// a return that does not hand the slice out (`if len(ret) == 0 { return nil, err }`) needs no sort
		noSlice := func(r *ssa.Return) bool {
			for _, res := range r.Results {
				if isSame(res) || isSame(canon(res)) {
					return false
				}
				if _, isSl := res.Type().Underlying().(*types.Slice); isSl && !isNilConst(res) {
					return false
				}
			}
			return true
		}
		ok, wit := true, ssa.Instruction(nil)
		if !isSort(first) {
			if r, isRet := first.(*ssa.Return); isRet {
				ok = noSlice(r)
				wit = r
			} else {
				ok, wit = mustPassOK(first, isSort, noSlice, nil)
			}
		}
		if !ok {
			if os.Getenv("SLUGCHECK_DEBUG") != "" {
				fmt.Fprintf(os.Stderr, "sortedAfter: %s exit block %d first %v storeAddr %v witness %v\n", fn, s.Index, first, storeAddr, wit)
			}
			return false, nil
		}
	}
	_ = fn
	// every sort of this slice in the function (the must-pass search stops at the first on each path)
	sorts = nil
	eachInstr(fn, func(in ssa.Instruction) { isSort(in) })
	// a slice kept in a field of a local struct escapes when the struct is handed to a call (the
	// serialiser): that call must come after the sort, not merely before the return
	if fa, ok := storeAddr.(*ssa.FieldAddr); ok {
		if owner, ok := fa.X.(*ssa.Alloc); ok {
			bad := false
			eachInstr(fn, func(in ssa.Instruction) {
				cl, ok := in.(*ssa.Call)
				if !ok || mr.Body[cl.Block()] {
					return
				}
				takes := false
				for _, a := range cl.Call.Args {
					av := a
					if mi, ok := av.(*ssa.MakeInterface); ok {
						av = mi.X
					}
					if av == ssa.Value(owner) {
						takes = true
					}
				}
				if !takes {
					return
				}
				// only calls after the loop matter
				after := false
				for _, s2 := range mr.Head.Succs {
					if !mr.Body[s2] && (s2 == cl.Block() || reachFromBlock(s2)[cl.Block()]) {
						after = true
					}
				}
				if !after {
					return
				}
				dom := false
				for _, sc := range sorts {
					if dominates(sc, cl) {
						dom = true
					}
				}
				if !dom {
					bad = true
				}
			})
			if bad {
				return false, nil
			}
		}
	}
	return true, sorts
}

// sortKeyFromMapKey: the comparator handed to sort.Slice orders the appended
// elements by something that distinguishes them. The elements come one per map
// key, so what is compared must be built from the key: the whole element when
// the element derives from the key, or at least one projected field whose
// stored value derives from it. A comparator that looks only at fields filled
// from the map's values (which may repeat) leaves ties in iteration order.
func sortKeyFromMapKey(p *Prog, mr mapRange, ap *ssa.Call, sc *ssa.Call, kExt ssa.Value) (bool, string) {
	if kExt == nil || len(sc.Call.Args) < 2 || !(isFunc(calleeObj(sc), "sort", "Slice") || isFunc(calleeObj(sc), "sort", "SliceStable")) {
		return true, ""
	}
	var less *ssa.Function
	switch x := sc.Call.Args[1].(type) {
	case *ssa.MakeClosure:
		less, _ = x.Fn.(*ssa.Function)
	case *ssa.Function:
		less = x
	}
	if less == nil || len(less.Blocks) == 0 {
		return true, ""
	}
	if okT, whyT, decided := comparatorIsTotal(less); decided && !okT {
		return false, "the slice built from the map is sorted with a comparator that is not a strict total order: " + whyT
	}
	whole := false
	fields := map[int]string{}
	eachInstr(less, func(in ssa.Instruction) {
		ia, ok := in.(*ssa.IndexAddr)
		if !ok {
			return
		}
		if refs := ia.Referrers(); refs != nil {
			for _, r := range *refs {
				switch y := r.(type) {
				case *ssa.FieldAddr:
					if st, ok := derefType(ia.Type()).Underlying().(*types.Struct); ok {
						fields[y.Field] = st.Field(y.Field).Name()
					}
				case *ssa.DebugRef:
				default:
					whole = true
				}
			}
		}
	})
	if !whole && len(fields) == 0 {
		return true, ""
	}
	// the appended element
	var elem ssa.Value
	if sl, ok := ap.Call.Args[1].(*ssa.Slice); ok {
		if al, ok := sl.X.(*ssa.Alloc); ok {
			for _, w := range elemWrites(al) {
				elem = w.Val
			}
		}
	}
	if elem == nil {
		return true, ""
	}
	if whole {
		if p.backSlice(elem, 0)[kExt] {
			return true, ""
		}
		return false, "the slice built from the map is sorted on elements that do not derive from the map's key: equal elements keep iteration order"
	}
	var cell *ssa.Alloc
	if ld, ok := elem.(*ssa.UnOp); ok && ld.Op == token.MUL {
		cell, _ = ld.X.(*ssa.Alloc)
	}
	if cell == nil {
		if p.backSlice(elem, 0)[kExt] {
			return true, ""
		}
		return false, "the sorted elements do not derive from the map's key"
	}
	var names []string
	for fi, fname := range fields {
		names = append(names, fname)
		for _, st := range fieldWrites(cell, fi) {
			if p.backSlice(st.Val, 0)[kExt] {
				return true, ""
			}
		}
	}
	sort.Strings(names)
	return false, "the slice built from the map is sorted by " + strings.Join(names, ", ") + " only, which is not filled from the map's key but from its values: elements that agree there (several keys sharing one value) keep the map's iteration order, so the output differs from run to run"
}

// ---------- C13.locks / atomic ----------

var lockCache = map[*Prog]*lockInfo{}

func getLocks(p *Prog) *lockInfo {
	if li, ok := lockCache[p]; ok {
		return li
	}
	li := computeLocks(p)
	lockCache[p] = li
	return li
}

// closeExempt: functions called only from the closing method after it set the
// closed flag inside its critical section; their reads need no lock when
// C13.atomic holds (every writer's critical section tests the flag first).
func closeExempt(p *Prog) map[*ssa.Function]bool {
	out := map[*ssa.Function]bool{}
	closeFn := p.Fn(bundlePkg, "Builder.Close")
	if closeFn == nil {
		return out
	}
	// the closing store
	var closing *ssa.Store
	eachInstr(closeFn, func(in ssa.Instruction) {
		if st, ok := in.(*ssa.Store); ok && isTargetDirAddr(st.Addr) {
			if s, isC := constString(st.Val); isC && s == "" {
				closing = st
			}
		}
	})
	if closing == nil {
		return out
	}
	for _, ci := range callsIn(closeFn) {
		g := ci.Common().StaticCallee()
		if g == nil || !inBundlePkg(p, g) || g.Signature.Recv() == nil || !isNamedT(derefType(g.Signature.Recv().Type()), "Builder") {
			continue
		}
		if !dominates(closing, ci) {
			continue
		}
		only := true
		for _, cs := range p.callersOf(g) {
			if cs.Parent() != closeFn {
				only = false
			}
		}
		// reads only
		writes := false
		for h := range p.reach(g) {
			eachInstr(h, func(in ssa.Instruction) {
				if _, w, ok := builderFieldAccess(in); ok && w {
					writes = true
				}
				if mu, ok := in.(*ssa.MapUpdate); ok {
					if ld, ok := canon(mu.Map).(*ssa.UnOp); ok {
						if fa, ok := ld.X.(*ssa.FieldAddr); ok && isNamedT(derefType(fa.X.Type()), "Builder") {
							writes = true
						}
					}
				}
			})
		}
		if only && !writes {
			for f := range p.family(g) {
				out[f] = true
			}
		}
	}
	return out
}

func ruleC13Locks(c *Checker) {
	const R = "C13.locks"
	c.rule(R, "Every access to a mutable Builder field happens with Builder.mu held (flow-sensitive lockset; unexported functions and closures inherit the meet of the states at their call / creation sites). Fields never stored after construction (fetcher, registryClient) are exempt. One protocol exemption, sound only together with C13.atomic: read-only helpers called solely by Close after it set the closed flag inside its critical section.", 10)
	p := c.P
	li := getLocks(p)
	imm := immutableBuilderFields(p)
	exempt := closeExempt(p)
	atomicOK := atomicHolds(c)
	n := 0
	for _, fn := range p.Funcs {
		if !inBundlePkg(p, fn) || !li.known[fn] {
			continue
		}
		if fn.Name() == "NewBuilder" {
			continue
		}
		eachInstr(fn, func(in ssa.Instruction) {
			f, w, ok := builderFieldAccess(in)
			if !ok || imm[f] || f == "mu" {
				return
			}
			n++
			st := li.at[in]
			kind := "read"
			if w {
				kind = "write"
			}
			if st.Held {
				c.pass(R, p.FuncName(fn), kind+" Builder."+f, p.Pos(in.Pos()), "mu held")
				return
			}
			if exempt[fn] && !w {
				if atomicOK {
					c.passTrivial(R, p.FuncName(fn), kind+" Builder."+f, p.Pos(in.Pos()), "close protocol: the closed flag was set under the lock and every writer tests it under the lock first")
				} else {
					c.fail(R, p.FuncName(fn), kind+" Builder."+f, p.Pos(in.Pos()), "read after Close released the lock, and the closed-flag protocol (C13.atomic) does not hold, so a concurrent Add may still be writing")
				}
				return
			}
			c.fail(R, p.FuncName(fn), kind+" Builder."+f, p.Pos(in.Pos()), "Builder."+f+" is accessed without holding mu while other methods write it under the lock (data race; closed/poisoned state can be missed)")
		})
	}
	c.check(n > 0, R, "-", "field accesses", "-", fmt.Sprintf("%d access(es) to mutable Builder fields", n), "no Builder field access found")
}

// atomicHolds evaluates C13.atomic silently (for the exemption above).
func atomicHolds(c *Checker) bool {
	sub := newChecker(c.P, c.Prop, c.Tier)
	ruleC13Atomic(sub)
	for _, o := range sub.Obls {
		if !o.OK {
			return false
		}
	}
	return true
}

func isBuilderEffect(p *Prog, in ssa.Instruction) (string, bool) {
	switch x := in.(type) {
	case *ssa.Store:
		if fa, ok := x.Addr.(*ssa.FieldAddr); ok && isNamedT(derefType(fa.X.Type()), "Builder") {
			if _, fresh := fa.X.(*ssa.Alloc); fresh {
				return "", false
			}
			return "write Builder." + fieldOf(fa).Name(), true
		}
	case *ssa.MapUpdate:
		if ld, ok := canon(x.Map).(*ssa.UnOp); ok {
			if fa, ok := ld.X.(*ssa.FieldAddr); ok && isNamedT(derefType(fa.X.Type()), "Builder") {
				return "update Builder." + fieldOf(fa).Name(), true
			}
		}
	case ssa.CallInstruction:
		if x.Common().IsInvoke() {
			switch x.Common().Method.Name() {
			case "FetchSourcePackage", "ModulePackageVersions", "ModulePackageSourceAddr", "FindDependencies":
				return "call " + x.Common().Method.Name(), true
			}
		}
		o := calleeObj(x)
		if isFunc(o, "io/ioutil", "TempDir") || isFunc(o, "os", "MkdirTemp") || isFunc(o, "os", "DirFS") || isFunc(o, "os", "Rename") {
			// ... of a Builder: some argument derives from one of its fields (a rename elsewhere in the package —
			// in the code that opens or extracts a bundle — is not the builder's effect)
			ofBuilder := false
			for _, a := range x.Common().Args {
				for w := range p.backSlice(a, 1) {
					if fa, ok := w.(*ssa.FieldAddr); ok && isNamedT(derefType(fa.X.Type()), "Builder") {
						ofBuilder = true
					}
				}
			}
			if !ofBuilder {
				return "", false
			}
			return "use of the target directory in " + shortCallee(fullName(o)), true
		}
	}
	return "", false
}

func ruleC13Atomic(c *Checker) {
	const R = "C13.atomic"
	c.rule(R, "Check-then-act across a lock release: every effect of the builder — a write to a Builder field or map, a call on the fetcher / registry client / finder, a use of targetDir for the temporary or final directory — happens in a critical section in which the closed test (targetDir == \"\", not-closed edge) was passed after mu was acquired. A test made before locking, or in an earlier critical section, does not count.", 8)
	p := c.P
	li := getLocks(p)
	n := 0
	for _, fn := range p.Funcs {
		if !inBundlePkg(p, fn) || !li.known[fn] || fn.Name() == "NewBuilder" {
			continue
		}
		eachInstr(fn, func(in ssa.Instruction) {
			what, ok := isBuilderEffect(p, in)
			if !ok {
				return
			}
			// the closing store itself and the poison store are the flag's own writers: they must be under the lock
			n++
			st := li.at[in]
			if stx, isSt := in.(*ssa.Store); isSt && isTargetDirAddr(stx.Addr) {
				c.check(st.Held, R, p.FuncName(fn), what, p.Pos(in.Pos()), "the closed flag is written under the lock", "the closed flag is written without holding mu")
				return
			}
			c.check(st.Held && st.Tested, R, p.FuncName(fn), what, p.Pos(in.Pos()), "in a critical section that passed the closed test", "an effect happens in a critical section that did not (re-)test for a closed/poisoned builder after acquiring mu: a call that was waiting while another failed proceeds with an empty target directory")
		})
	}
	c.check(n > 0, R, "-", "effects", "-", fmt.Sprintf("%d effect(s)", n), "no builder effects found")
}

// ---------- C13.names / checksum ----------

// taintedBy: does v (data-)depend on a non-deterministic source? HashDir
// launders its directory argument (the hash covers content, not location).
func (p *Prog) nondetSources(v ssa.Value) []string {
	seen := map[ssa.Value]bool{}
	var out []string
	var walk func(v ssa.Value)
	walk = func(v ssa.Value) {
		if v == nil || seen[v] {
			return
		}
		seen[v] = true
		if cl, ok := v.(*ssa.Call); ok {
			o := calleeObj(cl)
			n := fullName(o)
			if cl.Call.IsInvoke() && o != nil && o.Pkg() != nil && strings.HasSuffix(o.Pkg().Path(), "/sourcebundle") {
				// what the fetcher, the registry and the finders return is an input of the property
				return
			}
			switch {
			case n == "io/ioutil.TempDir" || n == "os.MkdirTemp" || n == "os.CreateTemp" || n == "io/ioutil.TempFile":
				out = append(out, "temporary name ("+shortCallee(n)+")")
				return
			case n == "time.Now" || n == "os.Getpid" || n == "os.Hostname" || strings.HasPrefix(n, "math/rand") || strings.HasPrefix(n, "crypto/rand"):
				out = append(out, shortCallee(n))
				return
			case n == "golang.org/x/mod/sumdb/dirhash.HashDir":
				// only the prefix and hash function matter for the value
				for i, a := range cl.Call.Args {
					if i >= 1 {
						walk(a)
					}
				}
				return
			}
		}
		if ex, ok := v.(*ssa.Extract); ok {
			if n, ok := ex.Tuple.(*ssa.Next); ok {
				if r, ok := n.Iter.(*ssa.Range); ok {
					if _, isMap := r.X.Type().Underlying().(*types.Map); isMap && ex.Index != 0 {
						// a map element is fine; which element comes first is covered by C13.maps
					}
				}
			}
		}
		switch x := v.(type) {
		case *ssa.Parameter:
			return
		case *ssa.FreeVar:
			for _, b := range resolveFreeVar(x) {
				walk(b)
			}
			return
		case *ssa.Alloc:
			for _, st := range cellWrites(x) {
				walk(st.Val)
			}
			for _, st := range elemWrites(x) {
				walk(st.Val)
			}
			return
		}
		in, ok := v.(ssa.Instruction)
		if !ok {
			return
		}
		var ops [16]*ssa.Value
		for _, op := range in.Operands(ops[:0]) {
			if op != nil && *op != nil {
				walk(*op)
			}
		}
	}
	walk(v)
	sort.Strings(out)
	return uniq(out)
}

func ruleC13Names(c *Checker) {
	const R = "C13.names"
	c.rule(R, "Non-deterministic sources (the temporary directory's name, time, pid, randomness) never flow into the values recorded in the builder's maps (package directory names, registry answers) or into the manifest strings; the directory name is derived from dirhash.HashDir, whose prefix argument does not depend on the temporary name.", 3)
	p := c.P
	n := 0
	for _, fn := range p.Funcs {
		if !inBundlePkg(p, fn) {
			continue
		}
		eachInstr(fn, func(in ssa.Instruction) {
			switch x := in.(type) {
			case *ssa.MapUpdate:
				ld, ok := canon(x.Map).(*ssa.UnOp)
				if !ok {
					return
				}
				fa, ok := ld.X.(*ssa.FieldAddr)
				if !ok || !isNamedT(derefType(fa.X.Type()), "Builder") {
					return
				}
				n++
				src := append(p.nondetSources(x.Value), p.nondetSources(x.Key)...)
				c.check(len(src) == 0, R, p.FuncName(fn), "recorded in Builder."+fieldOf(fa).Name(), p.Pos(x.Pos()), "depends only on inputs (and content hashes)", "a value recorded in the bundle's tables depends on "+strings.Join(src, ", "))
				// the package directory name must come from the content hash
				if fieldOf(fa).Name() == "remotePackageDirs" {
					hashed := false
					for v := range p.backSlice(x.Value, 0) {
						if cl, ok := v.(*ssa.Call); ok && fullName(calleeObj(cl)) == "golang.org/x/mod/sumdb/dirhash.HashDir" {
							hashed = true
						}
					}
					c.check(hashed, R, p.FuncName(fn), "directory name is a content hash", p.Pos(x.Pos()), "derived from dirhash.HashDir of the prepared package", "the package directory name is not derived from the content hash (equal packages would not share a directory / different ones could)")
				}
			case *ssa.Store:
				fa, ok := x.Addr.(*ssa.FieldAddr)
				if !ok {
					return
				}
				tn := derefType(fa.X.Type())
				if nn, ok := types.Unalias(tn).(*types.Named); ok && strings.HasPrefix(nn.Obj().Name(), "manifest") && inBundlePkg(p, fn) {
					n++
					src := p.nondetSources(x.Val)
					c.check(len(src) == 0, R, p.FuncName(fn), "manifest field "+nn.Obj().Name()+"."+fieldOf(fa).Name(), p.Pos(x.Pos()), "depends only on recorded values", "a manifest field depends on "+strings.Join(src, ", "))
				}
			}
		})
	}
	c.check(n > 0, R, "-", "recorded values", "-", fmt.Sprintf("%d recorded value(s) inspected", n), "nothing recorded")
}

func ruleChecksum(id string) func(*Checker) {
	return func(c *Checker) {
		c.rule(id, "The bundle checksum is a function of the manifest bytes only: the stored manifestChecksum's value depends on the os.ReadFile result of the manifest and on nothing else that varies (no time, no random, no directory listing).", 1)
		p := c.P
		fv := p.FieldVar(bundlePkg, "Bundle", "manifestChecksum")
		if fv == nil {
			c.anchorMissing(id, "Bundle.manifestChecksum")
			return
		}
		// what is handed out as the checksum is built from that field
		if cv := p.Fn(bundlePkg, "Bundle.ChecksumV1"); cv != nil {
			for i, r := range successReturns(cv) {
				fromField := false
				for w := range p.backSlice(r.Results[0], 0) {
					switch x := w.(type) {
					case *ssa.FieldAddr:
						if fieldOf(x) == fv {
							fromField = true
						}
					case *ssa.Field:
						if fieldOf(x) == fv {
							fromField = true
						}
					}
				}
				c.check(fromField, id, p.FuncName(cv), fmt.Sprintf("return %d is built from the stored checksum", i), p.Pos(r.Pos()), "depends on Bundle.manifestChecksum", "ChecksumV1 answers with something that does not derive from the stored manifest checksum (another same-typed field, such as the directory): identical bundles in different places get different checksums")
			}
		}
		n := 0
		for _, fn := range p.Funcs {
			for _, st := range storesToField(fn, fv) {
				n++
				dep := false
				var bad []string
				for v := range p.backSlice(st.Val, 0) {
					if cl, ok := v.(*ssa.Call); ok {
						o := calleeObj(cl)
						nm := fullName(o)
						if nm == "os.ReadFile" || nm == "io/ioutil.ReadFile" {
							dep = true
						}
						if nm == "time.Now" || strings.HasPrefix(nm, "math/rand") || nm == "os.ReadDir" || nm == "os.Getpid" {
							bad = append(bad, shortCallee(nm))
						}
					}
				}
				c.check(dep && len(bad) == 0, id, p.FuncName(fn), "manifestChecksum", p.Pos(st.Pos()), "computed from the manifest bytes read", "the checksum does not depend (only) on the manifest bytes")
			}
		}
		c.check(n > 0, id, "-", "checksum stores", "-", fmt.Sprintf("%d store(s)", n), "the checksum is never computed")
	}
}

// ---------- C14 ----------

var memoCalls = []string{"FetchSourcePackage", "ModulePackageVersions", "ModulePackageSourceAddr", "FindDependencies"}

// builderMapOf: v is a load of a map-typed Builder field → field name.
func builderMapOf(v ssa.Value) string {
	ld, ok := canon(v).(*ssa.UnOp)
	if !ok || ld.Op != token.MUL {
		return ""
	}
	fa, ok := ld.X.(*ssa.FieldAddr)
	if !ok || !isNamedT(derefType(fa.X.Type()), "Builder") {
		return ""
	}
	return fieldOf(fa).Name()
}

func ruleC14Memo(c *Checker) {
	const R = "C14.memo"
	c.rule(R, "For each external call (FetchSourcePackage, ModulePackageVersions, ModulePackageSourceAddr, FindDependencies): it has exactly one call site in the package; that site lies on the miss edge of a comma-ok lookup in a Builder map whose key shares its origin with the call's subject; every path from the call (its ok edge, where it returns an error) to a success return or the next queue item stores into that same map under that key; lookup, call and store all happen under mu.", 16)
	p := c.P
	li := getLocks(p)
	for _, m := range memoCalls {
		var sites []*ssa.Call
		for _, fn := range p.Funcs {
			if !inBundlePkg(p, fn) {
				continue
			}
			for _, ci := range callsIn(fn) {
				if ci.Common().IsInvoke() && ci.Common().Method.Name() == m {
					if cl, ok := ci.(*ssa.Call); ok {
						sites = append(sites, cl)
					}
				}
			}
		}
		if len(sites) != 1 {
			c.fail(R, "-", m+" single call site", "-", fmt.Sprintf("%d call sites of %s (a second site bypasses the memo table)", len(sites), m))
			continue
		}
		call := sites[0]
		fn := call.Parent()
		name := p.FuncName(fn)
		pos := p.Pos(call.Pos())
		c.pass(R, name, m+" single call site", pos, "one call site")
		// (ii) guarded by the miss edge of a lookup in a Builder map
		var lk *ssa.Lookup
		var missE []Edge
		eachInstr(fn, func(in ssa.Instruction) {
			l, ok := in.(*ssa.Lookup)
			if !ok || !l.CommaOk || builderMapOf(l.X) == "" {
				return
			}
			var okv ssa.Value
			if refs := l.Referrers(); refs != nil {
				for _, r := range *refs {
					if ex, ok := r.(*ssa.Extract); ok && ex.Index == 1 {
						okv = ex
					}
				}
			}
			if okv == nil {
				return
			}
			_, f := boolEdges(fn, okv)
			if guarded(call.Block(), f) {
				lk, missE = l, f
			}
		})
		if lk == nil {
			c.fail(R, name, m+" on the miss edge", pos, "the call is not guarded by the miss edge of a lookup in a Builder map: the same work can be done twice (and a cyclic dependency graph never terminates)")
			continue
		}
		mapName := builderMapOf(lk.X)
		c.pass(R, name, m+" on the miss edge", pos, "guarded by the miss edge of Builder."+mapName)
		// key shares origin with the call's subject
		ks := p.backSlice(lk.Index, 0)
		share := false
		for _, a := range append([]ssa.Value{call.Call.Value}, call.Call.Args...) {
			for v := range p.backSlice(a, 0) {
				if ks[v] && !isTrivialShared(v) {
					share = true
				}
			}
		}
		c.check(share, R, name, m+" key matches subject", pos, "the lookup key and the call's arguments derive from the same value", "the memo key is unrelated to what is being fetched/queried")
		// every component of the key must be part of what the call is given: an extra
		// component makes the same work look new (done twice via different routes)
		extra := keyExtraFields(p, lk.Index, call)
		c.check(len(extra) == 0, R, name, m+" key has no component foreign to the call", pos, "every field of the key flows into the call's receiver or arguments", "the memo key carries "+strings.Join(extra, ", ")+", which the call does not depend on: the same work reached by different routes gets different keys and is repeated")
		// (iii) store on every path
		isStore := func(in ssa.Instruction) bool {
			mu, ok := in.(*ssa.MapUpdate)
			return ok && builderMapOf(mu.Map) == mapName && sameKey(mu.Key, lk.Index)
		}
		okE, _ := okEdgesOfCall(call)
		var okP bool
		var off ssa.Instruction
		if len(okE) > 0 {
			okP = true
			for _, e := range okE {
				ok2, o2 := mustPassOKFromBlock(e.To(), isStore, func(r *ssa.Return) bool { return !mayReturnNilErr(r) }, lk)
				if !ok2 {
					okP, off = false, o2
				}
			}
		} else {
			okP, off = mustPassOK(call, isStore, func(r *ssa.Return) bool { return false }, func(in ssa.Instruction) bool { return in == ssa.Instruction(lk) })
		}
		spos := pos
		if off != nil {
			spos = p.Pos(off.Pos())
		}
		c.check(okP, R, name, m+" result recorded", spos, "every successful path records the result in Builder."+mapName+" under the same key", "a successful "+m+" is not recorded on some path: the work is repeated (for FindDependencies a dependency cycle then never terminates)")
		_ = missE
		// (iii-b) and only there: an entry made where the call failed, or before it was made, turns a
		// later reference into "already done" for work that never completed
		early := token.NoPos
		nUpd := 0
		for _, g := range p.Funcs {
			if !inBundlePkg(p, g) {
				continue
			}
			eachInstr(g, func(in ssa.Instruction) {
				mu, ok := in.(*ssa.MapUpdate)
				if !ok || builderMapOf(mu.Map) != mapName {
					return
				}
				nUpd++
				switch {
				case g != fn:
					early = mu.Pos()
				case len(okE) > 0:
					if !guarded(mu.Block(), okE) {
						early = mu.Pos()
					}
				default:
					after := false
					if mu.Block() == call.Block() {
						for _, x := range call.Block().Instrs {
							if x == ssa.Instruction(call) {
								after = true
							}
							if x == in {
								break
							}
						}
					} else {
						after = blockDominates(call.Block(), mu.Block())
					}
					if !after {
						early = mu.Pos()
					}
				}
			})
		}
		c.check(early == token.NoPos, R, name, m+" recorded only once it succeeded", pos, fmt.Sprintf("%d update(s) of Builder.%s, all past the call's success edge", nUpd, mapName), "Builder."+mapName+" gets an entry at "+p.Pos(early)+" that does not lie past the success edge of "+m+": a later reference finds it and reports (or uses) a result that was never obtained")
		// (iv) lock
		c.check(li.at[call].Held && li.at[ssa.Instruction(lk)].Held, R, name, m+" under mu", pos, "lookup and call are made with mu held", "the memo lookup or the external call is made without holding mu (two goroutines can both miss and both fetch)")
	}
}

func isTrivialShared(v ssa.Value) bool {
	switch v.(type) {
	case *ssa.Const, *ssa.Global:
		return true
	}
	if p, ok := v.(*ssa.Parameter); ok {
		// the receiver and ctx are shared by everything
		if isNamedT(derefType(p.Type()), "Builder") || p.Name() == "ctx" {
			return true
		}
	}
	if a, ok := v.(*ssa.Alloc); ok {
		if isNamedT(derefType(derefType(a.Type())), "Builder") {
			return true
		}
	}
	if u, ok := v.(*ssa.UnOp); ok {
		if isNamedT(derefType(u.Type()), "Builder") {
			return true
		}
	}
	return false
}

func sameKey(a, b ssa.Value) bool {
	if sameLoc(a, b) {
		return true
	}
	// struct keys rebuilt from the same cell
	ca, cb := canon(a), canon(b)
	la, ok1 := ca.(*ssa.UnOp)
	lb, ok2 := cb.(*ssa.UnOp)
	if ok1 && ok2 {
		return la.X == lb.X
	}
	return false
}

func mustPassOKFromBlock(b *ssa.BasicBlock, pass func(ssa.Instruction) bool, okReturn func(*ssa.Return) bool, again ssa.Instruction) (bool, ssa.Instruction) {
	first := b.Instrs[0]
	if pass(first) {
		return true, nil
	}
	return mustPassOK(first, pass, okReturn, func(in ssa.Instruction) bool { return again != nil && in == again })
}

// ---------- C14.trace (H5) ----------

var traceGroups = []string{"RegistryPackageVersions", "RegistryPackageSource", "RemotePackageDownload"}

// traceEvent: the instruction consults BuildTracer.<group><kind>.
func traceEvent(in ssa.Instruction) (group, kind string) {
	ld, ok := in.(*ssa.UnOp)
	if !ok || ld.Op != token.MUL {
		return "", ""
	}
	fa, ok := ld.X.(*ssa.FieldAddr)
	if !ok || !isNamedT(derefType(fa.X.Type()), "BuildTracer") {
		return "", ""
	}
	n := fieldOf(fa).Name()
	for _, g := range traceGroups {
		if strings.HasPrefix(n, g) {
			k := strings.TrimPrefix(n, g)
			switch k {
			case "Start", "Success", "Failure", "Already":
				return g, k
			}
		}
	}
	return "", ""
}

// trace automaton states
const (
	tNone = iota
	tStarted
	tDone
	tAlready
	tBad
)

func traceStep(st int, kind string) int {
	switch kind {
	case "Start":
		if st == tNone {
			return tStarted
		}
		return tBad
	case "Success", "Failure":
		if st == tStarted {
			return tDone
		}
		return tBad
	case "Already":
		if st == tNone {
			return tAlready
		}
		return tBad
	}
	return st
}

func ruleC14Trace(c *Checker) {
	const R = "C14.trace"
	c.rule(R, "Event automaton per trace group {Start, Success, Failure, Already} on the CFG (events are the reads of the BuildTracer fields, so nil-callback diamonds add no paths; a deferred closure's events occur at each return): on every path a Start is followed by exactly one of Success/Failure before the function returns, nothing follows them, Already never follows Start and is consulted only on the memo table's hit edge, Failure only on an error edge.", 9)
	p := c.P
	for _, g := range traceGroups {
		// the function hosting this group's Start
		var host *ssa.Function
		for _, fn := range p.Funcs {
			if !inBundlePkg(p, fn) || fn.Parent() != nil {
				continue
			}
			eachInstr(fn, func(in ssa.Instruction) {
				if gg, k := traceEvent(in); gg == g && k == "Start" {
					host = fn
				}
			})
		}
		if host == nil {
			c.fail(R, "-", g+" Start", "-", "the Start event of this group is never emitted")
			continue
		}
		name := p.FuncName(host)
		// deferred closures' event sets
		deferEvents := map[*ssa.Defer][][]string{}
		eachInstr(host, func(in ssa.Instruction) {
			d, ok := in.(*ssa.Defer)
			if !ok {
				return
			}
			mc, ok := d.Call.Value.(*ssa.MakeClosure)
			if !ok {
				return
			}
			f := mc.Fn.(*ssa.Function)
			seqs := closureEventSeqs(f, g)
			if len(seqs) > 0 {
				deferEvents[d] = seqs
			}
		})
		// powerset dataflow
		type key struct {
			b  *ssa.BasicBlock
			st int
			df bool // the deferring instruction has executed
		}
		seen := map[key]bool{}
		start := key{host.Blocks[0], tNone, false}
		work := []key{start}
		seen[start] = true
		bad := ""
		var badPos token.Pos
		endStates := map[int]bool{}
		for len(work) > 0 {
			k := work[len(work)-1]
			work = work[:len(work)-1]
			sts := []int{k.st}
			df := k.df
			ret := false
			for _, in := range k.b.Instrs {
				if gg, kind := traceEvent(in); gg == g {
					for i := range sts {
						ns := traceStep(sts[i], kind)
						if ns == tBad && bad == "" {
							bad, badPos = fmt.Sprintf("%s consulted in state %s", kind, traceStateName(sts[i])), in.Pos()
						}
						sts[i] = ns
					}
				}
				if d, ok := in.(*ssa.Defer); ok {
					if _, has := deferEvents[d]; has {
						df = true
					}
				}
				if _, ok := in.(*ssa.RunDefers); ok && df {
					var nsts []int
					for _, seqs := range deferEvents {
						for _, seq := range seqs {
							for _, s0 := range sts {
								s := s0
								for _, kind := range seq {
									ns := traceStep(s, kind)
									if ns == tBad && bad == "" {
										bad, badPos = fmt.Sprintf("deferred %s consulted in state %s", kind, traceStateName(s)), in.Pos()
									}
									s = ns
								}
								nsts = append(nsts, s)
							}
						}
					}
					if len(nsts) > 0 {
						sts = nsts
					}
				}
				if _, ok := in.(*ssa.Return); ok {
					ret = true
				}
			}
			if ret && k.b != host.Recover {
				for _, s := range sts {
					endStates[s] = true
					if s == tStarted && bad == "" {
						bad, badPos = "a path returns after Start without Success or Failure", k.b.Instrs[len(k.b.Instrs)-1].Pos()
					}
				}
			}
			for _, s := range k.b.Succs {
				for _, st := range sts {
					nk := key{s, st, df}
					if !seen[nk] {
						seen[nk] = true
						work = append(work, nk)
					}
				}
			}
		}
		c.check(bad == "", R, name, g+" bracketing", p.Pos(badPos), "every Start is closed by exactly one Success/Failure; Already never follows Start", "trace events are not properly bracketed: "+bad)
		// Already only on the hit edge; Failure only on an error edge
		for _, fn := range append([]*ssa.Function{host}, host.AnonFuncs...) {
			eachInstr(fn, func(in ssa.Instruction) {
				gg, kind := traceEvent(in)
				if gg != g {
					return
				}
				switch kind {
				case "Already":
					hit := false
					eachInstr(fn, func(x ssa.Instruction) {
						l, ok := x.(*ssa.Lookup)
						if !ok || !l.CommaOk || builderMapOf(l.X) == "" {
							return
						}
						if refs := l.Referrers(); refs != nil {
							for _, r := range *refs {
								if ex, ok := r.(*ssa.Extract); ok && ex.Index == 1 {
									t, _ := boolEdges(fn, ex)
									if guarded(in.Block(), t) {
										hit = true
									}
								}
							}
						}
					})
					c.check(hit, R, p.FuncName(fn), g+" Already on hit edge", p.Pos(in.Pos()), "consulted only when the memo table already has the answer", "an 'already' event can be emitted for work that did not complete earlier")
				case "Failure":
					onErr := false
					for _, b := range fn.Blocks {
						ifi, ok := b.Instrs[len(b.Instrs)-1].(*ssa.If)
						if !ok {
							continue
						}
						cond, neg := stripNot(ifi.Cond)
						bo, ok := cond.(*ssa.BinOp)
						if !ok || !(isNilConst(bo.Y) || isNilConst(bo.X)) || !isErrorType(bo.X.Type()) {
							continue
						}
						nonNil := 0
						if bo.Op == token.EQL {
							nonNil = 1
						}
						if neg {
							nonNil = 1 - nonNil
						}
						if guarded(in.Block(), []Edge{{b, nonNil}}) {
							onErr = true
						}
					}
					c.check(onErr, R, p.FuncName(fn), g+" Failure on error edge", p.Pos(in.Pos()), "consulted only when an error is being returned", "a failure event can be emitted without an error (or success reported as failure)")
				case "Success":
					onOK := false
					for _, b := range fn.Blocks {
						ifi, ok := b.Instrs[len(b.Instrs)-1].(*ssa.If)
						if !ok {
							continue
						}
						cond, neg := stripNot(ifi.Cond)
						bo, ok := cond.(*ssa.BinOp)
						if !ok || !(isNilConst(bo.Y) || isNilConst(bo.X)) || !isErrorType(bo.X.Type()) {
							continue
						}
						isNil := 1
						if bo.Op == token.EQL {
							isNil = 0
						}
						if neg {
							isNil = 1 - isNil
						}
						if guarded(in.Block(), []Edge{{b, isNil}}) {
							onOK = true
						}
					}
					c.check(onOK, R, p.FuncName(fn), g+" Success on ok edge", p.Pos(in.Pos()), "consulted only past an error test's nil edge", "a success event can be emitted for work that failed")
				}
			})
		}
	}
}

func traceStateName(s int) string {
	return [...]string{"none", "started", "done", "already", "bad"}[s]
}

// closureEventSeqs: the possible event sequences (per path) of group g in a
// deferred closure.
func closureEventSeqs(f *ssa.Function, g string) [][]string {
	var out [][]string
	any := false
	eachInstr(f, func(in ssa.Instruction) {
		if gg, _ := traceEvent(in); gg == g {
			any = true
		}
	})
	if !any {
		return nil
	}
	var walk func(b *ssa.BasicBlock, seq []string, seen map[*ssa.BasicBlock]bool)
	walk = func(b *ssa.BasicBlock, seq []string, seen map[*ssa.BasicBlock]bool) {
		if seen[b] {
			return
		}
		seen[b] = true
		defer delete(seen, b)
		for _, in := range b.Instrs {
			if gg, k := traceEvent(in); gg == g {
				seq = append(append([]string{}, seq...), k)
			}
			if _, ok := in.(*ssa.Return); ok {
				out = append(out, seq)
				return
			}
		}
		for _, s := range b.Succs {
			walk(s, seq, seen)
		}
	}
	walk(f.Blocks[0], nil, map[*ssa.BasicBlock]bool{})
	return out
}

func ruleC14Queue(c *Checker) {
	const R = "C14.queue"
	c.rule(R, "The enqueue callbacks handed to a dependency finder are created only on the not-yet-analysed edge, and after the finder returns every path disables them (Dependencies.disable) before the next queue item; the early 'already analysed' test in AddRemoteSource returns without enqueuing.", 2)
	p := c.P
	var fd *ssa.Call
	for _, fn := range p.Funcs {
		if !inBundlePkg(p, fn) {
			continue
		}
		for _, ci := range callsIn(fn) {
			if ci.Common().IsInvoke() && ci.Common().Method.Name() == "FindDependencies" {
				fd = ci.(*ssa.Call)
			}
		}
	}
	if fd == nil {
		c.anchorMissing(R, "a call to FindDependencies")
		return
	}
	fn := fd.Parent()
	name := p.FuncName(fn)
	isDisable := func(in ssa.Instruction) bool {
		// written out: the last of at least two nil stores into callback fields of the Dependencies value in one block
		if st, ok := in.(*ssa.Store); ok && isNilConst(st.Val) {
			if fa, ok := st.Addr.(*ssa.FieldAddr); ok && isNamedT(derefType(fa.X.Type()), "Dependencies") {
				n := 0
				for _, x := range st.Block().Instrs {
					if s2, ok := x.(*ssa.Store); ok && isNilConst(s2.Val) {
						if f2, ok := s2.Addr.(*ssa.FieldAddr); ok && isNamedT(derefType(f2.X.Type()), "Dependencies") {
							n++
						}
					}
				}
				return n >= 2
			}
		}
		cl, ok := in.(*ssa.Call)
		if !ok {
			return false
		}
		g := cl.Common().StaticCallee()
		if g == nil || !inBundlePkg(p, g) || g.Signature.Recv() == nil || !isNamedT(derefType(g.Signature.Recv().Type()), "Dependencies") {
			return false
		}
		// it nils the callbacks
		n := 0
		eachInstr(g, func(x ssa.Instruction) {
			if st, ok := x.(*ssa.Store); ok && isNilConst(st.Val) {
				n++
			}
		})
		return n >= 2
	}
	ok, off := mustPassOK(fd, isDisable, nil, nil)
	pos := p.Pos(fd.Pos())
	if off != nil {
		pos = p.Pos(off.Pos())
	}
	c.check(ok, R, name, "callbacks disabled after the finder returns", pos, "every path from FindDependencies passes Dependencies.disable", "the enqueue callbacks stay usable after the finder returned (late calls would mutate the queues outside the lock)")
	// callbacks created on the miss edge only: the MakeClosures stored into Dependencies fields are in blocks guarded like the call
	okc := true
	eachInstr(fn, func(in ssa.Instruction) {
		st, isSt := in.(*ssa.Store)
		if !isSt {
			return
		}
		fa, ok := st.Addr.(*ssa.FieldAddr)
		if !ok || !isNamedT(derefType(fa.X.Type()), "Dependencies") {
			return
		}
		if _, isMC := st.Val.(*ssa.MakeClosure); isMC && st.Block() != fd.Block() && !blockDominates(st.Block(), fd.Block()) {
			okc = false
		}
	})
	c.check(okc, R, name, "callbacks created for this analysis only", pos, "the callbacks are built right before the finder call they serve", "enqueue callbacks are created outside the analysis they belong to")
}

// allUsesInside: every (transitive address) use of the cell lies in the loop
// body: the cell is a per-iteration temporary.
func allUsesInside(al *ssa.Alloc, body map[*ssa.BasicBlock]bool) bool {
	seen := map[ssa.Value]bool{}
	var ok func(v ssa.Value) bool
	ok = func(v ssa.Value) bool {
		if seen[v] {
			return true
		}
		seen[v] = true
		refs := v.Referrers()
		if refs == nil {
			return true
		}
		for _, r := range *refs {
			if !body[r.Block()] && !dominatedByBody(r.Block(), body) {
				return false
			}
			switch x := r.(type) {
			case *ssa.FieldAddr:
				if !ok(x) {
					return false
				}
			case *ssa.IndexAddr:
				if !ok(x) {
					return false
				}
			case *ssa.MakeClosure:
				// a function literal called on the spot that only reads the variable keeps nothing
				if !calledOnTheSpotReadingOnly(x, v) {
					return false
				}
			}
		}
		return true
	}
	return ok(al)
}

// calledOnTheSpotReadingOnly: the closure's only use is being called, and inside it the captured cell is only loaded.
func calledOnTheSpotReadingOnly(mc *ssa.MakeClosure, cell ssa.Value) bool {
	refs := mc.Referrers()
	if refs == nil {
		return false
	}
	for _, r := range *refs {
		if _, dbg := r.(*ssa.DebugRef); dbg {
			continue
		}
		cl, ok := r.(*ssa.Call)
		if !ok || cl.Call.Value != ssa.Value(mc) {
			return false
		}
	}
	fn, ok := mc.Fn.(*ssa.Function)
	if !ok {
		return false
	}
	for i, b := range mc.Bindings {
		if b != cell || i >= len(fn.FreeVars) {
			continue
		}
		fr := fn.FreeVars[i].Referrers()
		if fr == nil {
			continue
		}
		for _, r := range *fr {
			if _, dbg := r.(*ssa.DebugRef); dbg {
				continue
			}
			if u, ok := r.(*ssa.UnOp); !ok || u.Op != token.MUL {
				return false
			}
		}
	}
	return true
}

// dominatedByBody: the block is an exit arm hanging off a (non-header) body
// block — e.g. the error return inside the loop.
func dominatedByBody(b *ssa.BasicBlock, body map[*ssa.BasicBlock]bool) bool {
	for d := idomOf(b); d != nil; d = idomOf(d) {
		if body[d] {
			// the header dominates everything after the loop too; require a proper body block
			for _, s := range d.Succs {
				_ = s
			}
			return !isLoopHeaderOf(d, body)
		}
	}
	return false
}

func isLoopHeaderOf(h *ssa.BasicBlock, body map[*ssa.BasicBlock]bool) bool {
	for b := range body {
		if b != h && !blockDominates(h, b) {
			return false
		}
	}
	return true
}

// locSet: the (cell, field) locations read in the backward slice of v.
func locSet(p *Prog, v ssa.Value) map[string]bool {
	out := map[string]bool{}
	for x := range p.backSliceOpt(v, 0, true) {
		if fa, ok := x.(*ssa.FieldAddr); ok {
			out[fmt.Sprintf("%p.%d", rootCell(canon(fa.X)), fa.Field)] = true
		}
		if f, ok := x.(*ssa.Field); ok {
			out[fmt.Sprintf("%p.%d", canon(f.X), f.Field)] = true
		}
		if prm, ok := x.(*ssa.Parameter); ok && !isTrivialShared(prm) {
			out[fmt.Sprintf("%p", prm)] = true
		}
		if ld, ok := x.(*ssa.UnOp); ok && ld.Op == token.MUL {
			if al, ok := rootCell(ld.X).(*ssa.Alloc); ok && !isTrivialShared(al) {
				// the whole cell is read (e.g. a method called on the struct value)
				if _, isStruct := ld.Type().Underlying().(*types.Struct); isStruct {
					out[fmt.Sprintf("%p.*", ssa.Value(al))] = true
				}
			}
		}
		if cl, ok := x.(*ssa.Call); ok && !cl.Call.IsInvoke() {
			out[fmt.Sprintf("%p", cl)] = true
		}
	}
	return out
}

// keyExtraFields: components of a struct-valued memo key that do not feed the
// memoised call.
func keyExtraFields(p *Prog, key ssa.Value, call *ssa.Call) []string {
	st, ok := key.Type().Underlying().(*types.Struct)
	if !ok {
		return nil
	}
	callLocs := map[string]bool{}
	for _, a := range append([]ssa.Value{call.Call.Value}, call.Call.Args...) {
		for k := range locSet(p, a) {
			callLocs[k] = true
		}
	}
	ld, ok := key.(*ssa.UnOp)
	if !ok {
		return nil
	}
	al, ok := rootCell(ld.X).(*ssa.Alloc)
	if !ok {
		return nil
	}
	var extra []string
	whole := cellWrites(al)
	for i := 0; i < st.NumFields(); i++ {
		fw := fieldWrites(al, i)
		switch {
		case len(fw) > 0:
			shares := false
			for _, w := range fw {
				if _, isC := w.Val.(*ssa.Const); isC {
					shares = true
				}
				for loc := range locSet(p, w.Val) {
					if callLocs[loc] {
						shares = true
					}
				}
			}
			if !shares {
				extra = append(extra, "field "+st.Field(i).Name())
			}
		case len(whole) > 0:
			// copied as a whole: the field must itself be read for the call (or the whole value handed on)
			if !callLocs[fmt.Sprintf("%p.%d", ssa.Value(al), i)] && !callLocs[fmt.Sprintf("%p.*", ssa.Value(al))] {
				extra = append(extra, "field "+st.Field(i).Name())
			}
		}
	}
	return extra
}

// ---------- callbacks of the tracer: called, and only when set ----------

// isCallbackTable: a struct type all of whose fields are functions (the build
// tracer): every field may be nil, its zero value is the "no tracer" tracer.
func isCallbackTable(t types.Type) bool {
	st, ok := derefType(t).Underlying().(*types.Struct)
	if !ok || st.NumFields() == 0 {
		return false
	}
	for i := 0; i < st.NumFields(); i++ {
		if _, isF := st.Field(i).Type().Underlying().(*types.Signature); !isF {
			return false
		}
	}
	return true
}

// ruleTraceCalls — every read of a tracer callback is followed, on the edge
// where it is not nil, by a call of it; it is never called anywhere else.
func ruleTraceCalls(id string) func(*Checker) {
	return func(c *Checker) {
		c.rule(id, "Every callback read out of the build tracer (a struct of optional function fields; the zero value means no tracer) is compared with nil, called on the not-nil edge, and called nowhere else: an inverted test calls a nil function as soon as the event occurs without a tracer (the default) and never delivers the event with one; a read whose call is gone leaves a Start event without its Success/Failure.", 8)
		p := c.P
		n := 0
		for _, fn := range p.Funcs {
			if !inBundlePkg(p, fn) {
				continue
			}
			eachInstr(fn, func(in ssa.Instruction) {
				ld, ok := in.(*ssa.UnOp)
				if !ok || ld.Op != token.MUL {
					return
				}
				fa, ok := ld.X.(*ssa.FieldAddr)
				if !ok || !isCallbackTable(fa.X.Type()) {
					return
				}
				n++
				key := fmt.Sprintf("callback %s.%s", typeShort(derefType(fa.X.Type())), fieldOf(fa).Name())
				isNilCmp := func(v ssa.Value, op token.Token) bool {
					bo, ok := v.(*ssa.BinOp)
					return ok && bo.Op == op && ((bo.X == ssa.Value(ld) && isNilConst(bo.Y)) || (bo.Y == ssa.Value(ld) && isNilConst(bo.X)))
				}
				neT, _ := condEdges(fn, func(v ssa.Value) bool { return isNilCmp(v, token.NEQ) })
				_, eqF := condEdges(fn, func(v ssa.Value) bool { return isNilCmp(v, token.EQL) })
				nonNil := append(neT, eqF...)
				var calls []ssa.CallInstruction
				escapes := false
				if refs := ld.Referrers(); refs != nil {
					for _, r := range *refs {
						switch x := r.(type) {
						case ssa.CallInstruction:
							if x.Common().Value == ssa.Value(ld) {
								calls = append(calls, x)
							} else {
								escapes = true // handed on as an argument: not followed
							}
						case *ssa.BinOp, *ssa.DebugRef:
						default:
							escapes = true
						}
					}
				}
				if escapes {
					c.pass(id, p.FuncName(fn), key, p.Pos(ld.Pos()), "handed on as a value (not followed)")
					return
				}
				okAll, why := len(calls) > 0, "the callback is read but never called: the event is not delivered"
				for _, cl := range calls {
					if len(nonNil) == 0 || !guarded(cl.Block(), nonNil) {
						okAll, why = false, "the callback is called on a path where it may be nil (no test, or the call sits on the nil edge): without a tracer — the default — this panics, and with one the event is never delivered"
					}
				}
				c.check(okAll, id, p.FuncName(fn), key, p.Pos(ld.Pos()), fmt.Sprintf("%d call(s), each past the not-nil edge", len(calls)), why)
			})
		}
		_ = n
	}
}

func typeShort(t types.Type) string {
	if n, ok := types.Unalias(t).(*types.Named); ok {
		return n.Obj().Name()
	}
	return t.String()
}

// ruleCtxNonNil — the context handed to the fetcher and the registry client is
// never nil.
func ruleCtxNonNil(id string) func(*Checker) {
	return func(c *Checker) {
		c.rule(id, "The context.Context argument of every call through the PackageFetcher and RegistryClient interfaces (and of every tracer callback) is the caller's context or a context returned by a tracer Start callback on an edge where it was found not to be nil — never a variable that can still hold its zero value. Without a tracer (the default) the Start callbacks are not called, so the fall-back to the caller's context is what every build depends on.", 3)
		p := c.P
		ctxT := func(t types.Type) bool {
			n, ok := types.Unalias(t).(*types.Named)
			return ok && n.Obj().Name() == "Context" && n.Obj().Pkg() != nil && n.Obj().Pkg().Path() == "context"
		}
		var nonNil func(v ssa.Value, at *ssa.BasicBlock, seen map[ssa.Value]bool) (bool, string)
		nonNil = func(v ssa.Value, at *ssa.BasicBlock, seen map[ssa.Value]bool) (bool, string) {
			v = canon(v)
			if seen[v] {
				return true, ""
			}
			seen[v] = true
			fn := at.Parent()
			isNilCmp := func(c ssa.Value, op token.Token) bool {
				bo, ok := c.(*ssa.BinOp)
				return ok && bo.Op == op && ((canon(bo.X) == v && isNilConst(bo.Y)) || (canon(bo.Y) == v && isNilConst(bo.X)))
			}
			neT, _ := condEdges(fn, func(c ssa.Value) bool { return isNilCmp(c, token.NEQ) })
			_, eqF := condEdges(fn, func(c ssa.Value) bool { return isNilCmp(c, token.EQL) })
			g := append(neT, eqF...)
			if len(g) > 0 && guarded(at, g) {
				return true, ""
			}
			switch x := v.(type) {
			case *ssa.Parameter:
				return true, ""
			case *ssa.FreeVar:
				return true, "" // a captured value (not a cell): bound at the closure's creation
			case *ssa.UnOp:
				// a load of a local cell (a variable shared with a closure): non-nil when a normalising
				// test `if *cell == nil { *cell = <non-nil> }` dominates the use and nothing that may be nil
				// is stored afterwards
				if x.Op == token.MUL {
					cell := rootCell(x.X)
					al, ok := cell.(*ssa.Alloc)
					if !ok {
						return false, "a value loaded from memory of unknown origin"
					}
					use := at
					if x.Parent() != al.Parent() {
						// the load is inside a closure: the use point is where the closure is created
						use = nil
						for _, mc := range closureSites(x.Parent()) {
							if mc.Parent() == al.Parent() {
								use = mc.Block()
							}
						}
						if use == nil {
							return false, "a variable captured through more than one closure level"
						}
					}
					host := al.Parent()
					var join *ssa.BasicBlock
					var norm *ssa.Store
					for _, b := range host.Blocks {
						ifi, ok := b.Instrs[len(b.Instrs)-1].(*ssa.If)
						if !ok {
							continue
						}
						cnd, neg := stripNot(ifi.Cond)
						bo, ok := cnd.(*ssa.BinOp)
						if !ok || (bo.Op != token.EQL && bo.Op != token.NEQ) || !isNilConst(bo.Y) {
							continue
						}
						ld, ok := bo.X.(*ssa.UnOp)
						if !ok || ld.Op != token.MUL || ld.X != ssa.Value(al) {
							continue
						}
						nilSucc := 0
						if (bo.Op == token.NEQ) != neg {
							nilSucc = 1
						}
						tb, jb := b.Succs[nilSucc], b.Succs[1-nilSucc]
						if tb == jb || len(tb.Succs) != 1 || tb.Succs[0] != jb {
							continue
						}
						for _, in := range tb.Instrs {
							if st, ok := in.(*ssa.Store); ok && st.Addr == ssa.Value(al) {
								if okv, _ := nonNil(st.Val, tb, seen); okv {
									join, norm = jb, st
								}
							}
						}
					}
					if join == nil || !(join == use || blockDominates(join, use)) {
						return false, "a variable that keeps its zero value when no Start callback is installed: no `if v == nil { v = ctx }` fall-back dominates the use"
					}
					after := reachFromBlock(join)
					for _, st := range cellWrites(al) {
						if st == norm || st.Parent() != host {
							if st != norm && st.Parent() != host {
								return false, "the variable is also assigned inside a closure"
							}
							continue
						}
						if after[st.Block()] {
							if okv, _ := nonNil(st.Val, st.Block(), seen); !okv {
								return false, "the variable is assigned a possibly-nil value after the fall-back"
							}
						}
					}
					return true, ""
				}
				return false, "a value of unknown origin"
			case *ssa.Const:
				return !isNilConst(x), "the zero value (nil) reaches the call"
			case *ssa.Call:
				if o := calleeObj(x); o != nil && o.Pkg() != nil && o.Pkg().Path() == "context" {
					return true, ""
				}
				return false, "the result of a callback, which may be nil, reaches the call untested"
			case *ssa.Phi:
				for i, e := range x.Edges {
					pred := x.Block().Preds[i]
					// arriving over the not-nil edge of a test of e itself
					ec := canon(e)
					isCmpE := func(c ssa.Value, op token.Token) bool {
						bo, ok := c.(*ssa.BinOp)
						return ok && bo.Op == op && ((canon(bo.X) == ec && isNilConst(bo.Y)) || (canon(bo.Y) == ec && isNilConst(bo.X)))
					}
					t1, _ := condEdges(fn, func(c ssa.Value) bool { return isCmpE(c, token.NEQ) })
					_, f1 := condEdges(fn, func(c ssa.Value) bool { return isCmpE(c, token.EQL) })
					okEdge := false
					for _, ed := range append(t1, f1...) {
						if ed.From == pred && ed.To() == x.Block() && pred.Succs[1-ed.Succ] != x.Block() {
							okEdge = true
						}
					}
					if okEdge {
						continue
					}
					if ok, why := nonNil(e, pred, seen); !ok {
						return false, why
					}
				}
				return true, ""
			}
			return false, "a value of unknown origin"
		}
		for _, fn := range p.Funcs {
			if !inBundlePkg(p, fn) {
				continue
			}
			for _, ci := range callsIn(fn) {
				cc := ci.Common()
				dyn := cc.IsInvoke() || cc.StaticCallee() == nil
				if !dyn {
					continue
				}
				for ai, a := range cc.Args {
					if !ctxT(a.Type()) {
						continue
					}
					what := "a callback"
					if cc.IsInvoke() {
						what = cc.Method.Name()
					} else if ld, ok := cc.Value.(*ssa.UnOp); ok {
						if fa, ok := ld.X.(*ssa.FieldAddr); ok && fieldOf(fa) != nil {
							what = fieldOf(fa).Name()
						}
					}
					// once a Start callback's context was taken, what follows uses that one (it is what pairs the
					// events), not the caller's own
					if _, isPrm := canon(a).(*ssa.Parameter); isPrm && !strings.HasSuffix(what, "Start") && !strings.HasSuffix(what, "Already") {
						started := false
						for _, c2 := range callsIn(outerOf(fn)) {
							if c2.Common().StaticCallee() != nil || c2.Common().IsInvoke() {
								continue
							}
							if ld, ok := c2.Common().Value.(*ssa.UnOp); ok {
								if fa, ok := ld.X.(*ssa.FieldAddr); ok && fieldOf(fa) != nil && strings.HasSuffix(fieldOf(fa).Name(), "Start") && c2.Value() != nil && ctxT(c2.Value().Type()) {
									if sameGroup(fieldOf(fa).Name(), what) {
										started = true
									}
								}
							}
						}
						c.check(!started, id, p.FuncName(fn), fmt.Sprintf("context argument %d of %s is the request's", ai, what), p.Pos(ci.Pos()), "the context chosen after the Start callback", "the caller's own context is handed to "+what+" although a Start callback of the same group returned one for this request: a tracer that pairs start and end by that context sees a start without its end")
					}
					ok, why := nonNil(a, ci.Block(), map[ssa.Value]bool{})
					c.check(ok, id, p.FuncName(fn), fmt.Sprintf("context argument %d of %s", ai, what), p.Pos(ci.Pos()), "the caller's context, or a tracer's on its not-nil edge", "a nil context can reach "+what+" ("+why+"): without a tracer the Start callback is not called, the variable keeps its zero value, and the fetcher / registry client is handed a nil context")
				}
			}
		}
	}
}

// lenZeroEdges: the edges on which len(x) == 0 is known for an x satisfying match.
func lenZeroEdges(fn *ssa.Function, match func(ssa.Value) bool) []Edge {
	var out []Edge
	for _, b := range fn.Blocks {
		if len(b.Instrs) == 0 {
			continue
		}
		ifi, ok := b.Instrs[len(b.Instrs)-1].(*ssa.If)
		if !ok {
			continue
		}
		cond, neg := stripNot(ifi.Cond)
		bo, ok := cond.(*ssa.BinOp)
		if !ok {
			continue
		}
		cl, ok := bo.X.(*ssa.Call)
		if !ok {
			continue
		}
		if bi, ok := cl.Call.Value.(*ssa.Builtin); !ok || bi.Name() != "len" || !match(cl.Call.Args[0]) {
			continue
		}
		k, isC := constInt(bo.Y)
		if !isC {
			continue
		}
		var emptyOnTrue bool
		switch {
		case (bo.Op == token.GTR || bo.Op == token.NEQ) && k == 0, bo.Op == token.GEQ && k == 1:
			emptyOnTrue = false
		case (bo.Op == token.EQL || bo.Op == token.LEQ) && k == 0, bo.Op == token.LSS && k == 1:
			emptyOnTrue = true
		default:
			continue
		}
		if neg {
			emptyOnTrue = !emptyOnTrue
		}
		if emptyOnTrue {
			out = append(out, Edge{b, 0})
		} else {
			out = append(out, Edge{b, 1})
		}
	}
	return out
}

// outerOf: the outermost enclosing function.
func outerOf(fn *ssa.Function) *ssa.Function {
	for fn.Parent() != nil {
		fn = fn.Parent()
	}
	return fn
}

// sameGroup: a Start field name and another callback / client method belong to
// one request: RemotePackageDownload{Start,Success,Failure} + FetchSourcePackage,
// RegistryPackageVersions{…} + ModulePackageVersions, RegistryPackageSource{…} +
// ModulePackageSourceAddr.
func sameGroup(start, what string) bool {
	g := strings.TrimSuffix(start, "Start")
	if strings.HasPrefix(what, g) {
		return true
	}
	switch g {
	case "RemotePackageDownload":
		return what == "FetchSourcePackage"
	case "RegistryPackageVersions":
		return what == "ModulePackageVersions"
	case "RegistryPackageSource":
		return what == "ModulePackageSourceAddr"
	}
	return false
}
