package main

import (
	"fmt"
	"go/token"
	"go/types"
	"sort"
	"strconv"
	"strings"

	"golang.org/x/tools/go/ssa"
)

func init() {
	register("C19", &propDef{
		Title: "No entry point panics, crashes or hangs on any input",
		Rules: []func(*Checker){ruleDecodedPointersChecked("C19.jsonnil"), ruleC19Recursion, ruleC19Block, ruleC19Index, ruleC19Panics, ruleC19LibPanics, ruleC19NilField, ruleTraceCalls("C19.nilcall"), ruleAddrErrors("C19.errors"), ruleLockBalanced("C19.balanced"), ruleTracerNonNil("C19.tracer"), ruleRootHops("C19.hops"), ruleC05Resolve("C19.resolve"), ruleC19HostLabel, ruleFilesClosed("C19.closed"), ruleC19OkUse, ruleWalkErrParam("C19.walkerr"), ruleMapFieldsMade("C19.mapinit"), ruleExhaustiveTypeSwitch("C19.exhaustive"), ruleNilReceiverAfterError("C19.nilrecv"), ruleC19SameFile, ruleNilErrorMeansResult("C19.okresult"), ruleNoAllocationByHeaderSize("C19.allocbysize")},
		NotDecided: []string{
			"total running time; panics inside libraries",
			"explicit 'cannot happen' panics whose unreachability rests on library behaviour are inventoried (C19.panics) and their guards checked where structural, but not proved unreachable",
			"absence of all run-time panics: only index/slice/assertion safety by enumerated idioms, recursion bounds and blocking opens are decided",
		},
	})
}

// entryPoints: exported functions and methods of the module's packages.
func (p *Prog) entryPoints() []*ssa.Function {
	var out []*ssa.Function
	for _, fn := range p.Funcs {
		if fn.Parent() != nil || fn.Object() == nil || !fn.Object().Exported() {
			continue
		}
		if r := fn.Signature.Recv(); r != nil {
			if n, ok := types.Unalias(derefType(r.Type())).(*types.Named); ok && !n.Obj().Exported() {
				// ... unless a library calls it through an interface: the decoder finds UnmarshalJSON on the type
				// of a manifest field, fmt finds String and Error
				switch fn.Name() {
				case "UnmarshalJSON", "MarshalJSON", "UnmarshalText", "MarshalText", "String", "Error":
					// (the methods sort calls get indexes below Len: not entry points for arbitrary input)
				default:
					continue
				}
			}
		}
		out = append(out, fn)
	}
	return out
}

// ---------- C19.recursion ----------

// moduleCallEdges: f → g when f statically calls g, creates closure g, or
// passes g as a function value (callbacks run by libraries).
func (p *Prog) moduleCallEdges() map[*ssa.Function][]*ssa.Function {
	out := map[*ssa.Function][]*ssa.Function{}
	for _, f := range p.Funcs {
		for _, g := range p.succFuncs(f) {
			if p.InModule(g) {
				out[f] = append(out[f], g)
			}
		}
	}
	return out
}

func sccs(nodes []*ssa.Function, edges map[*ssa.Function][]*ssa.Function) [][]*ssa.Function {
	index := map[*ssa.Function]int{}
	low := map[*ssa.Function]int{}
	on := map[*ssa.Function]bool{}
	var stack []*ssa.Function
	var out [][]*ssa.Function
	n := 0
	var strong func(v *ssa.Function)
	strong = func(v *ssa.Function) {
		n++
		index[v], low[v] = n, n
		stack = append(stack, v)
		on[v] = true
		for _, w := range edges[v] {
			if index[w] == 0 {
				strong(w)
				if low[w] < low[v] {
					low[v] = low[w]
				}
			} else if on[w] && index[w] < low[v] {
				low[v] = index[w]
			}
		}
		if low[v] == index[v] {
			var comp []*ssa.Function
			for {
				w := stack[len(stack)-1]
				stack = stack[:len(stack)-1]
				on[w] = false
				comp = append(comp, w)
				if w == v {
					break
				}
			}
			out = append(out, comp)
		}
	}
	for _, v := range nodes {
		if index[v] == 0 {
			strong(v)
		}
	}
	return out
}

func ruleC19Recursion(c *Checker) {
	const R = "C19.recursion"
	c.rule(R, "Every call-graph cycle through module code (direct calls, closures, callbacks handed to libraries) has a recognised bound: (a) an int parameter compared with a constant on an edge that returns, the recursive call passing parameter+1; or (b) a slice parameter scanned by a loop with an error-return edge before the recursive call, which passes append(parameter…, x). Unbounded cycles overflow the stack on cyclic link structures.", 1)
	p := c.P
	edges := p.moduleCallEdges()
	comps := sccs(p.Funcs, edges)
	n := 0
	for _, comp := range comps {
		self := false
		if len(comp) == 1 {
			for _, g := range edges[comp[0]] {
				if g == comp[0] {
					self = true
				}
			}
			if !self {
				continue
			}
		}
		n++
		in := map[*ssa.Function]bool{}
		var names []string
		for _, f := range comp {
			in[f] = true
			names = append(names, p.FuncName(f))
		}
		sort.Strings(names)
		cyc := strings.Join(names, " <-> ")
		// every recursive call site (static call from a member to a member) must carry a bound
		nsites := 0
		allOK := true
		why := ""
		var pos string
		for _, f := range comp {
			for _, ci := range callsIn(f) {
				g := ci.Common().StaticCallee()
				if g == nil || !in[g] {
					continue
				}
				nsites++
				pos = p.Pos(ci.Pos())
				ok, w := recursionBound(p, ci, f, g, in)
				if !ok {
					allOK = false
					why = w
				}
			}
		}
		if nsites == 0 {
			// (c) structural descent: interface dispatch on a field of the own (value-typed) receiver
			desc := 0
			allOK = true
			for _, f := range comp {
				for _, ci := range callsIn(f) {
					if !ci.Common().IsInvoke() {
						continue
					}
					hits := false
					for _, t := range p.implementers(ci.Common()) {
						if in[t] {
							hits = true
						}
					}
					if !hits {
						continue
					}
					pos = p.Pos(ci.Pos())
					if isFieldOfOwnValueReceiver(ci.Common().Value, f) || p.isConstructionOnlyFieldOfReceiver(ci.Common().Value, f) {
						desc++
					} else {
						allOK = false
						why = "dynamic dispatch back into the cycle on a value that is not a field of the receiver"
					}
				}
			}
			if desc == 0 {
				allOK, why = false, "cycle through function values only; no static recursive call to attach a bound to"
			}
		}
		c.check(allOK, R, cyc, "cycle bound", pos, "every recursive call carries a recognised bound (counter, visited list, or structural descent into the receiver: a field of a value receiver, or a field of a pointer receiver that is only set where the struct is built)", "unbounded recursion: "+why)
	}
	// positive floor: the dereferencing code must still be recursive or iterative with a bound; if no cycle exists that is fine
	if n == 0 {
		c.passTrivial(R, "-", "no cycles", "-", "the module call graph is acyclic")
	}
}

func recursionBound(p *Prog, ci ssa.CallInstruction, f, g *ssa.Function, in map[*ssa.Function]bool) (bool, string) {
	args := ci.Common().Args
	for i, a := range args {
		if i >= len(g.Params) {
			break
		}
		prm := g.Params[i]
		switch t := prm.Type().Underlying().(type) {
		case *types.Basic:
			if t.Info()&types.IsInteger == 0 {
				continue
			}
			// (a) counter: a = own counter + const, and g tests prm against a constant with a returning edge
			bo, ok := a.(*ssa.BinOp)
			if !ok || bo.Op != token.ADD {
				// the first call from outside the cycle passes a constant: fine, not the recursive edge
				continue
			}
			k, isC := constInt(bo.Y)
			if !isC || k <= 0 {
				continue
			}
			if !derivesFromParamOf(bo.X, in) {
				continue
			}
			if hasCounterGuard(g, prm) {
				return true, ""
			}
		case *types.Slice:
			// (b) visited list
			cl, ok := a.(*ssa.Call)
			if !ok {
				continue
			}
			b, ok := cl.Call.Value.(*ssa.Builtin)
			if !ok || b.Name() != "append" {
				continue
			}
			if !derivesFromParamOf(cl.Call.Args[0], in) {
				continue
			}
			if hasVisitedScan(ci, cl.Call.Args[0]) {
				if !pushedIsCompared(ci, cl) {
					return false, fmt.Sprintf("the value pushed onto the visited list at %s is not the value the scan compares the list's elements with (e.g. an unresolved spelling is pushed while resolved paths are compared): the cycle test never matches", p.Pos(ci.Pos()))
				}
				if why := pushedUnresolved(p, cl); why != "" {
					return false, fmt.Sprintf("the directory pushed onto the visited list at %s is %s, not the result of filepath.EvalSymlinks: a directory reached through two different links has two spellings, the containment test compares spellings, and a cycle of links through a linked directory is not recognised — the walk never ends", p.Pos(ci.Pos()), why)
				}
				return true, ""
			}
		}
	}
	return false, fmt.Sprintf("call %s -> %s at %s passes no bounded counter or visited list", p.FuncName(f), p.FuncName(g), p.Pos(ci.Pos()))
}

// isFieldOfOwnValueReceiver: v is a field read from f's own receiver, and the
// receiver is a struct value (not a pointer): such wrappers nest finitely.
func isFieldOfOwnValueReceiver(v ssa.Value, f *ssa.Function) bool {
	if len(f.Params) == 0 || f.Signature.Recv() == nil {
		return false
	}
	recv := f.Params[0]
	if _, isPtr := recv.Type().Underlying().(*types.Pointer); isPtr {
		return false
	}
	v = canon(v)
	switch x := v.(type) {
	case *ssa.Field:
		return canon(x.X) == ssa.Value(recv)
	case *ssa.UnOp:
		if fa, ok := x.X.(*ssa.FieldAddr); ok && x.Op == token.MUL {
			if al, ok := fa.X.(*ssa.Alloc); ok {
				ws := cellWrites(al)
				return len(ws) == 1 && ws[0].Val == ssa.Value(recv)
			}
		}
	}
	return false
}

// isConstructionOnlyFieldOfReceiver: v is a field of f's pointer receiver, and
// that field is only ever stored where the struct is built (a composite
// literal: the store's base is an allocation of the same function). What it
// holds therefore existed before the struct did, so following it descends —
// the wrapped-error idiom `func (e *E) Error() string { return e.err.Error() }`.
func (p *Prog) isConstructionOnlyFieldOfReceiver(v ssa.Value, f *ssa.Function) bool {
	if len(f.Params) == 0 || f.Signature.Recv() == nil {
		return false
	}
	recv := f.Params[0]
	ld, ok := canon(v).(*ssa.UnOp)
	if !ok || ld.Op != token.MUL {
		return false
	}
	fa, ok := ld.X.(*ssa.FieldAddr)
	if !ok || canon(fa.X) != ssa.Value(recv) || fieldOf(fa) == nil {
		return false
	}
	fld := fieldOf(fa)
	okAll := true
	for _, g := range p.Funcs {
		eachInstr(g, func(in ssa.Instruction) {
			st, ok := in.(*ssa.Store)
			if !ok {
				return
			}
			f2, ok := st.Addr.(*ssa.FieldAddr)
			if !ok || fieldOf(f2) != fld {
				return
			}
			if al, isAlloc := f2.X.(*ssa.Alloc); !isAlloc || al.Parent() != g {
				okAll = false
			}
		})
	}
	return okAll
}

// derivesFromParamOf: v is (a load/slice of) a parameter of a function in the cycle.
func derivesFromParamOf(v ssa.Value, in map[*ssa.Function]bool) bool {
	for i := 0; i < 6; i++ {
		v = canon(v)
		switch x := v.(type) {
		case *ssa.Parameter:
			return in[x.Parent()]
		case *ssa.Slice:
			v = x.X
		case *ssa.UnOp:
			if x.Op != token.MUL {
				return false
			}
			root := rootCell(x.X)
			al, ok := root.(*ssa.Alloc)
			if !ok {
				return false
			}
			ws := cellWrites(al)
			if len(ws) != 1 {
				return false
			}
			v = ws[0].Val
		default:
			return false
		}
	}
	return false
}

// hasCounterGuard: g compares prm with a constant and the true edge returns
// without recursing.
func hasCounterGuard(g *ssa.Function, prm *ssa.Parameter) bool {
	t, _ := condEdges(g, func(v ssa.Value) bool {
		bo, ok := v.(*ssa.BinOp)
		if !ok || (bo.Op != token.GEQ && bo.Op != token.GTR && bo.Op != token.EQL) {
			return false
		}
		if canon(bo.X) != ssa.Value(prm) {
			return false
		}
		_, isC := constInt(bo.Y)
		return isC
	})
	for _, e := range t {
		b := e.To()
		if _, ok := b.Instrs[len(b.Instrs)-1].(*ssa.Return); ok {
			rec := false
			for _, in := range b.Instrs {
				if cl, ok := in.(ssa.CallInstruction); ok && cl.Common().StaticCallee() == g {
					rec = true
				}
			}
			if !rec {
				return true
			}
		}
	}
	return false
}

// hasVisitedScan: before the recursive call, a loop ranges over the visited
// list and has an edge to an error return; the call lies after that loop.
func hasVisitedScan(ci ssa.CallInstruction, list ssa.Value) bool {
	fn := ci.Parent()
	base := canon(list)
	if sl, ok := base.(*ssa.Slice); ok {
		base = canon(sl.X)
	}
	// the scan may live in a private boolean helper: if helper(x, list) { return error }
	for _, c2 := range callsIn(fn) {
		cl, ok := c2.(*ssa.Call)
		if !ok || gp == nil {
			continue
		}
		h := cl.Common().StaticCallee()
		if h == nil || !gp.InModule(h) || h.Signature.Results().Len() != 1 || !isBoolType(h.Signature.Results().At(0).Type()) {
			continue
		}
		li := -1
		for i, a := range cl.Call.Args {
			if sameLoc(a, base) || canon(a) == base {
				li = i
			}
		}
		if li < 0 || li >= len(h.Params) {
			continue
		}
		// the helper loops over that parameter and can return true from inside the loop
		loops := false
		for _, b := range h.Blocks {
			if !inLoop(b) {
				continue
			}
			for _, in := range b.Instrs {
				if ia, ok := in.(*ssa.IndexAddr); ok && canon(ia.X) == ssa.Value(h.Params[li]) {
					loops = true
				}
			}
		}
		if !loops {
			continue
		}
		t, _ := boolEdges(fn, cl)
		for _, e := range t {
			if okr, _ := returnsNonNilErrorFrom(e.To()); okr && blockDominates(cl.Block(), ci.Block()) {
				return true
			}
		}
	}
	for _, b := range fn.Blocks {
		if !inLoop(b) {
			continue
		}
		for _, in := range b.Instrs {
			ia, ok := in.(*ssa.IndexAddr)
			if !ok {
				continue
			}
			if !sameLoc(ia.X, base) && canon(ia.X) != base {
				continue
			}
			head := loopHeadOf(b)
			// an exit from the loop body to an error return
			found := false
			for _, lb := range fn.Blocks {
				if !(lb == head || (reaches(lb, head) && reaches(head, lb))) {
					continue
				}
				for _, s := range lb.Succs {
					if reaches(s, head) || s == head {
						continue
					}
					rb := s
					for hop := 0; hop < 3 && len(rb.Succs) == 1 && !reaches(rb.Succs[0], head); hop++ {
						if _, isJ := rb.Instrs[len(rb.Instrs)-1].(*ssa.Jump); !isJ {
							break
						}
						rb = rb.Succs[0] // the refusing exit shares its return block with other error exits
					}
					if r, ok := rb.Instrs[len(rb.Instrs)-1].(*ssa.Return); ok && !mayReturnNilErr(r) {
						// when the scan decides by path containment (filepath.Rel of a list element against the
						// value being entered), the refusing exit is the edge on which the ELEMENT was found
						// inside that value — not the other way round, and not the complement
						var inLoopK []Containment
						for _, k := range findContainments(fn) {
							if k.Kind != "rel" && k.Kind != "hasprefix" {
								continue
							}
							kb := k.At.Block()
							if kb == head || (reaches(kb, head) && reaches(head, kb)) {
								inLoopK = append(inLoopK, k)
							}
						}
						if len(inLoopK) == 0 {
							found = true
							continue
						}
						for _, k := range inLoopK {
							fromList := func(v ssa.Value) bool {
								if gp == nil {
									return false
								}
								for w := range gp.backSlice(v, 0) {
									if ia2, ok := w.(*ssa.IndexAddr); ok && (sameLoc(ia2.X, base) || canon(ia2.X) == base) {
										return true
									}
								}
								return false
							}
							if k.Sound && gp != nil && gp.established(k, s) && fromList(k.Subject) && k.Root != nil && !fromList(k.Root) {
								found = true
							}
						}
					}
				}
			}
			if found && blockDominates(head, ci.Block()) && !reaches(ci.Block(), head) {
				return true
			}
		}
	}
	return false
}

// ---------- C19.block ----------

// regularFlag decides whether a boolean value can only be true when an
// IsRegular() test on a file mode succeeded (flag-carried guard, DESIGN 3.3).
func (p *Prog) regularFlag(v ssa.Value, at *ssa.BasicBlock, seen map[ssa.Value]bool) (bool, string) {
	if seen[v] {
		return true, ""
	}
	seen[v] = true
	switch x := v.(type) {
	case *ssa.Const:
		if b, ok := constBool(x); ok && !b {
			return true, ""
		}
		// constant true: the block it arrives from must be guarded by IsRegular
		rt, _ := isRegularEdges(at.Parent(), nil)
		if guarded(at, rt) {
			return true, ""
		}
		return false, "the body flag is set to constant true on a path without an IsRegular() test (" + p.Pos(firstPos(at)) + ")"
	case *ssa.Phi:
		for i, e := range x.Edges {
			if ok, why := p.regularFlag(e, x.Block().Preds[i], seen); !ok {
				return false, why
			}
		}
		return true, ""
	case *ssa.Extract:
		cl, ok := x.Tuple.(*ssa.Call)
		if !ok {
			break
		}
		g := cl.Common().StaticCallee()
		if g == nil || !p.InModule(g) {
			break
		}
		// callee summary: result #Index may be true only on returns guarded by IsRegular of its mode argument
		rt, _ := isRegularEdges(g, nil)
		for _, r := range returnsOf(g) {
			if x.Index >= len(r.Results) {
				return false, "callee shape"
			}
			b, isC := constBool(r.Results[x.Index])
			if isC && !b {
				continue
			}
			if !guarded(r.Block(), rt) {
				return false, "classifier " + p.FuncName(g) + " can report a body for a non-regular mode"
			}
		}
		return true, ""
	case *ssa.Call:
		if isMethod(calleeObj(x), "io/fs", "FileMode", "IsRegular") {
			return true, ""
		}
	}
	return false, "unrecognised body flag " + v.String()
}

func firstPos(b *ssa.BasicBlock) token.Pos {
	for _, in := range b.Instrs {
		if in.Pos().IsValid() {
			return in.Pos()
		}
	}
	return token.NoPos
}

func ruleC19Block(c *Checker) {
	const R = "C19.block"
	c.rule(R, "Every os.Open / os.ReadFile reachable from Pack or the bundle builder on a path that may denote a special file is guarded, on every path, by an IsRegular() test on the info of the file that will actually be opened: either directly, through a boolean flag each of whose true values carries that test (including the file-mode classifier's summary), or through a Stat whose failure or IsRegular edge is the only way on (opening a fifo blocks forever).", 3)
	p := c.P
	pack := p.Fn("slug", "Packer.Pack")
	var roots []*ssa.Function
	roots = append(roots, pack)
	for _, n := range []string{"Builder.AddRemoteSource", "Builder.AddRegistrySource", "Builder.AddFinalRegistrySource"} {
		if f := p.Fn("sourcebundle", n); f != nil {
			roots = append(roots, f)
		}
	}
	if pack == nil {
		c.anchorMissing(R, "(*slug.Packer).Pack")
		return
	}
	for _, fn := range sortedFuncs(p.reach(roots...)) {
		for _, ci := range callsTo(fn, func(o *types.Func) bool {
			return isFunc(o, "os", "Open") || isFunc(o, "os", "ReadFile") || isFunc(o, "os", "OpenFile")
		}) {
			cl, ok := ci.(*ssa.Call)
			if !ok {
				continue
			}
			how, why := p.openGuardedAt(cl, cl.Call.Args[0], 3)
			c.check(how != "", R, p.FuncName(fn), "open of a possibly special file", p.Pos(cl.Pos()), how, "a file that may be a fifo/device is opened: "+why)
		}
	}
}

// openGuardedAt decides the three guard forms for an opening call at the given
// instruction (the open itself, or — when the open sits in a private helper
// and is unguarded there — each call site of that helper).
func (p *Prog) openGuardedAt(at *ssa.Call, arg ssa.Value, depth int) (string, string) {
	fn := at.Parent()
	// (1) direct IsRegular guard
	rt, _ := isRegularEdges(fn, nil)
	if guarded(at.Block(), rt) {
		return "the open lies past an IsRegular() true edge", ""
	}
	// (2) stat form: reachable only over {stat error edge, IsRegular true edge} of a Stat/Lstat of the same path
	for _, si := range callsTo(fn, func(o *types.Func) bool { return isFunc(o, "os", "Stat") || isFunc(o, "os", "Lstat") }) {
		scl, ok := si.(*ssa.Call)
		if !ok || !(sameLoc(scl.Call.Args[0], arg) || canon(scl.Call.Args[0]) == canon(arg)) {
			continue
		}
		_, errE := okEdgesOfCall(scl)
		fi := extractOf(scl, 0)
		frt, _ := isRegularEdges(fn, func(m ssa.Value) bool {
			mc, ok := m.(*ssa.Call)
			return ok && mc.Call.IsInvoke() && mc.Call.Method.Name() == "Mode" && canon(mc.Call.Value) == fi
		})
		if guarded(at.Block(), append(append([]Edge{}, errE...), frt...)) {
			return "the open is reachable only when Stat failed or reported a regular file", ""
		}
	}
	// (3) flag-carried guard
	why := "no IsRegular guard, Stat guard or body flag found on the way to the open"
	for _, b := range fn.Blocks {
		ifi, ok := b.Instrs[len(b.Instrs)-1].(*ssa.If)
		if !ok {
			continue
		}
		cond, neg := stripNot(ifi.Cond)
		succ := 0
		if neg {
			succ = 1
		}
		if !guarded(at.Block(), []Edge{{b, succ}}) {
			continue
		}
		// the flag may be a parameter of a private helper: judged at every call site
		if prm, isPrm := cond.(*ssa.Parameter); isPrm && fn.Parent() == nil && (fn.Object() == nil || !fn.Object().Exported()) {
			idx := -1
			for i, q := range fn.Params {
				if q == prm {
					idx = i
				}
			}
			sites := p.callersOf(fn)
			all := idx >= 0 && len(sites) > 0
			for _, s := range sites {
				if idx < 0 || idx >= len(s.Common().Args) {
					all = false
					continue
				}
				if ok3, w := p.regularFlag(s.Common().Args[idx], s.Block(), map[ssa.Value]bool{}); !ok3 {
					all = false
					why = w
				}
			}
			if all {
				return "the body flag is a parameter, and at every call site every way it can be true carries an IsRegular() test", ""
			}
			continue
		}
		if _, isPhi := cond.(*ssa.Phi); !isPhi {
			if _, isEx := cond.(*ssa.Extract); !isEx {
				continue
			}
		}
		ok2, w := p.regularFlag(cond, b, map[ssa.Value]bool{})
		if ok2 {
			return "every way the body flag can be true carries an IsRegular() test", ""
		}
		why = w
	}
	// (4) the open sits in a private helper: every call site must be guarded
	if depth > 0 && fn.Parent() == nil && (fn.Object() == nil || !fn.Object().Exported()) {
		sites := p.callersOf(fn)
		if len(sites) > 0 {
			// which parameter is the path
			idx := -1
			for i, prm := range fn.Params {
				if canon(arg) == ssa.Value(prm) {
					idx = i
				}
			}
			all := true
			for _, s := range sites {
				sc, ok := s.(*ssa.Call)
				if !ok {
					all = false
					continue
				}
				a2 := arg
				if idx >= 0 && idx < len(sc.Call.Args) {
					a2 = sc.Call.Args[idx]
				}
				if how, w := p.openGuardedAt(sc, a2, depth-1); how == "" {
					all = false
					why = w
				}
			}
			if all {
				return "the open sits in a private helper every call of which is guarded", ""
			}
		}
	}
	return "", why
}

// ---------- C19.panics (inventory) ----------

func ruleC19Panics(c *Checker) {
	const R = "C19.panics"
	c.rule(R, "Inventory of explicit panic statements reachable from exported entry points: each must be one of the documented misuse panics (closed Builder, Must* helpers, invalid sub-path handed to SourceAddr) or lie on the default arm of a type switch over a sealed interface / a 'cannot happen' edge whose guard is structural; a new panic on an input-dependent edge is reported.", 1)
	p := c.P
	reach := p.reach(p.entryPoints()...)
	for _, fn := range sortedFuncs(reach) {
		for _, b := range fn.Blocks {
			pn, ok := b.Instrs[len(b.Instrs)-1].(*ssa.Panic)
			if !ok {
				continue
			}
			name := p.FuncName(fn)
			pos := p.Pos(pn.Pos())
			kind := classifyPanic(p, fn, pn)
			c.check(kind != "", R, name, "panic", pos, kind, "an explicit panic on an edge that is not a documented misuse / sealed-type default / init-time check: input may reach it")
			if strings.HasPrefix(kind, "consistency check on the result of a third-party library call") {
				checkSplitFirst(c, R, fn, b)
			}
			// a constructor documented to panic on an argument its sanitiser refuses: module
			// callers must have put that very argument through the sanitiser (or a predicate
			// wrapping it) first — a weaker test (fs.ValidPath alone) lets input reach the panic
			if strings.HasPrefix(kind, "documented: panics when given an invalid argument") {
				checkPanicCallers(c, R, fn, pn)
			}
		}
	}
}

// checkPanicCallers: fn panics on the error edge of a sanitiser applied to one
// of its parameters; every module call site must pass a value the sanitiser
// has accepted.
func checkPanicCallers(c *Checker, R string, fn *ssa.Function, pn *ssa.Panic) {
	p := c.P
	var san *ssa.Function
	pidx := -1
	for _, ci := range callsIn(fn) {
		cl, ok := ci.(*ssa.Call)
		if !ok {
			continue
		}
		_, errE := okEdgesOfCall(cl)
		if len(errE) == 0 || !guarded(pn.Block(), errE) {
			continue
		}
		g := cl.Common().StaticCallee()
		if g == nil || !p.InModule(g) {
			continue
		}
		for _, a := range cl.Call.Args {
			if prm, ok := canon(a).(*ssa.Parameter); ok && prm.Parent() == fn {
				for i, q := range fn.Params {
					if q == prm {
						san, pidx = g, i
					}
				}
			}
		}
	}
	if san == nil {
		return
	}
	// predicates wrapping the sanitiser: module functions (string) bool that return err == nil of it
	isPred := func(h *ssa.Function) bool {
		if h == nil || !p.InModule(h) || h.Signature.Results().Len() != 1 || !isBoolType(h.Signature.Results().At(0).Type()) {
			return false
		}
		for _, ci := range callsIn(h) {
			if ci.Common().StaticCallee() == san {
				return true
			}
		}
		return false
	}
	for _, site := range p.callersOf(fn) {
		caller := site.Parent()
		if !p.InModule(caller) || pidx >= len(site.Common().Args) {
			continue
		}
		arg := site.Common().Args[pidx]
		ok := false
		why := ""
		if _, isC := canon(arg).(*ssa.Const); isC {
			ok = true
		}
		if !ok {
			if okv, w := p.subPathValueOK(arg, site, 3, map[ssa.Value]bool{}); okv {
				ok = true
			} else {
				why = w
			}
		}
		if !ok {
			// guarded by the true edge of a wrapping predicate on the same value
			tE, _ := condEdges(caller, func(v ssa.Value) bool {
				cl, isCall := v.(*ssa.Call)
				if !isCall || !isPred(cl.Common().StaticCallee()) || len(cl.Call.Args) == 0 {
					return false
				}
				if sameLoc(cl.Call.Args[0], arg) || canon(cl.Call.Args[0]) == canon(arg) || p.canonX(cl.Call.Args[0]) == p.canonX(arg) {
					return true
				}
				ka, oka := fieldPathKey(cl.Call.Args[0], site, 0)
				kb, okb := fieldPathKey(arg, site, 0)
				return oka && okb && ka == kb
			})
			if guarded(site.Block(), tE) {
				ok = true
			}
		}
		c.check(ok, R, p.FuncName(caller), "argument of panicking "+fn.Name(), p.Pos(site.Pos()), "the argument was accepted by "+p.FuncName(san)+" (or a predicate wrapping it) before the call", "calls "+p.FuncName(fn)+", which panics on an argument "+p.FuncName(san)+" refuses, with a value that was not put through it ("+why+"): input can reach the panic (e.g. a file name containing '?')")
	}
}

func classifyPanic(p *Prog, fn *ssa.Function, pn *ssa.Panic) string {
	outer := p.Outer(fn)
	oname := outer.Name()
	if strings.HasPrefix(oname, "init") {
		return "package initialisation check"
	}
	if strings.HasPrefix(oname, "Must") {
		return "documented Must* helper"
	}
	b := pn.Block()
	// default arm of a type switch: the block is reached only when several TypeAssert(commaok) failed
	nAssert := 0
	for d := idomOf(b); d != nil; d = idomOf(d) {
		if len(d.Instrs) == 0 {
			continue
		}
		if ifi, ok := d.Instrs[len(d.Instrs)-1].(*ssa.If); ok {
			if ex, ok := ifi.Cond.(*ssa.Extract); ok {
				if _, ok := ex.Tuple.(*ssa.TypeAssert); ok {
					nAssert++
				}
			}
		}
	}
	if nAssert >= 2 {
		return "default arm of a type switch over a sealed interface"
	}
	// closed builder: guarded by targetDir == ""
	tE, _ := condEdges(fn, func(v ssa.Value) bool {
		bo, ok := v.(*ssa.BinOp)
		if !ok || bo.Op != token.EQL {
			return false
		}
		s, ok := constString(bo.Y)
		if !ok || s != "" {
			return false
		}
		u, ok := bo.X.(*ssa.UnOp)
		if !ok {
			return false
		}
		fa, ok := u.X.(*ssa.FieldAddr)
		return ok && fieldOf(fa) != nil && fieldOf(fa).Name() == "targetDir"
	})
	if guarded(b, tE) {
		return "documented misuse panic: use of a closed/poisoned Builder"
	}
	// invalid sub-path handed to a constructor documented to panic (error edge of the sanitiser)
	for _, ci := range callsIn(fn) {
		cl, ok := ci.(*ssa.Call)
		if !ok {
			continue
		}
		_, errE := okEdgesOfCall(cl)
		if len(errE) > 0 && guarded(b, errE) && fn.Object() != nil && fn.Object().Exported() {
			if strings.Contains(docOf(p, fn), "panic") {
				return "documented: panics when given an invalid argument (error edge of " + shortCallee(fullName(calleeObj(cl))) + ")"
			}
		}
	}
	// a consistency check on the result of a library call (e.g. the post-split
	// registry address must have no sub-directory): listed, not proved.
	for d := b; d != nil; d = idomOf(d) {
		if len(d.Instrs) == 0 {
			continue
		}
		ifi, ok := d.Instrs[len(d.Instrs)-1].(*ssa.If)
		if !ok || d == b {
			continue
		}
		lib := false
		for v := range p.backSlice(ifi.Cond, 0) {
			if cl, ok := v.(*ssa.Call); ok {
				if g := cl.Common().StaticCallee(); g != nil && !p.InModule(g) && calleeObj(cl) != nil && objPkgPath(calleeObj(cl)) != "" && !strings.HasPrefix(objPkgPath(calleeObj(cl)), "strings") {
					if o := calleeObj(cl); o.Pkg() != nil && strings.Contains(o.Pkg().Path(), ".") {
						lib = true
					}
				}
			}
		}
		if lib {
			return "consistency check on the result of a third-party library call (stated 'cannot happen'; listed, not proved)"
		}
		break
	}
	return ""
}

func docOf(p *Prog, fn *ssa.Function) string {
	for _, pk := range p.Pkgs {
		for _, f := range pk.Syntax {
			for _, d := range f.Decls {
				if d.Pos() <= fn.Pos() && fn.Pos() <= d.End() {
					if fd, ok := d.(interface{ Pos() token.Pos }); ok {
						_ = fd
					}
					for _, cg := range f.Comments {
						if cg.End() <= d.Pos()+1 && d.Pos()-cg.End() < 3 {
							return cg.Text()
						}
					}
					// FuncDecl doc
					type docer interface{ End() token.Pos }
				}
			}
		}
	}
	// fallback: use ast doc through syntax of FuncDecl
	if fn.Syntax() != nil {
		for _, pk := range p.Pkgs {
			for _, f := range pk.Syntax {
				if f.Pos() <= fn.Pos() && fn.Pos() <= f.End() {
					for _, cg := range f.Comments {
						if cg.End() < fn.Syntax().Pos() && fn.Syntax().Pos()-cg.End() < 3 {
							return cg.Text()
						}
					}
				}
			}
		}
	}
	return ""
}

// pushedIsCompared: the element appended to the visited list for the
// recursive call is one of the values the scanning loop compares the list's
// elements against.
func pushedIsCompared(ci ssa.CallInstruction, ap *ssa.Call) bool {
	fn := ci.Parent()
	// pushed values
	var pushed []ssa.Value
	if sl, ok := ap.Call.Args[1].(*ssa.Slice); ok {
		if al, ok := sl.X.(*ssa.Alloc); ok {
			for _, w := range elemWrites(al) {
				pushed = append(pushed, canon(w.Val))
			}
		}
	}
	if len(pushed) == 0 {
		return false
	}
	base := canon(ap.Call.Args[0])
	if sl, ok := base.(*ssa.Slice); ok {
		base = canon(sl.X)
	}
	// values compared with elements of the list inside loops
	compared := map[ssa.Value]bool{}
	for _, b := range fn.Blocks {
		if !inLoop(b) {
			continue
		}
		for _, in := range b.Instrs {
			var ops []ssa.Value
			switch x := in.(type) {
			case *ssa.Call:
				ops = x.Call.Args
			case *ssa.BinOp:
				ops = []ssa.Value{x.X, x.Y}
			default:
				continue
			}
			hasElem := false
			for _, o := range ops {
				if ld, ok := canon(o).(*ssa.UnOp); ok {
					if ia, ok := ld.X.(*ssa.IndexAddr); ok && (sameLoc(ia.X, base) || canon(ia.X) == base) {
						hasElem = true
					}
				}
			}
			if hasElem {
				for _, o := range ops {
					compared[canon(o)] = true
				}
			}
		}
	}
	// a scanning helper called with the list: its other arguments are what the elements are compared with
	for _, c2 := range callsIn(fn) {
		cl, ok := c2.(*ssa.Call)
		if !ok {
			continue
		}
		takes := false
		for _, a := range cl.Call.Args {
			if sameLoc(a, base) || canon(a) == base {
				takes = true
			}
		}
		if takes && cl.Common().StaticCallee() != nil {
			for _, a := range cl.Call.Args {
				compared[canon(a)] = true
			}
		}
	}
	for _, pv := range pushed {
		if compared[pv] {
			return true
		}
	}
	return false
}

// fieldPathKey names a value by the chain of field selections that leads to
// it from a root (parameter, call result, fresh allocation), looking through
// struct copies (x := *p) — so p.f.g read twice, or read once directly and
// once from a copy of *p.f, get the same key. A store into the path that may
// happen before the site makes the value unnameable.
func fieldPathKey(v ssa.Value, site ssa.Instruction, depth int) (string, bool) {
	if depth > 8 {
		return "", false
	}
	storedBefore := func(base ssa.Value, field int) bool {
		fn := site.Parent()
		bad := false
		eachInstr(fn, func(in ssa.Instruction) {
			st, ok := in.(*ssa.Store)
			if !ok {
				return
			}
			fa, ok := st.Addr.(*ssa.FieldAddr)
			if !ok || fa.Field != field || canon(fa.X) != canon(base) {
				return
			}
			if mayPrecede(st, site) {
				bad = true // may execute before the site
			}
		})
		return bad
	}
	switch x := v.(type) {
	case *ssa.UnOp:
		if x.Op != token.MUL {
			return "", false
		}
		switch a := x.X.(type) {
		case *ssa.FieldAddr:
			base := a.X
			// a field of a local copy: x := *q  →  same as q's field
			if al, ok := base.(*ssa.Alloc); ok {
				ws := cellWrites(al)
				if len(ws) == 1 && !storedBefore(base, a.Field) {
					if ld, ok := ws[0].Val.(*ssa.UnOp); ok && ld.Op == token.MUL {
						k, ok := fieldPathKey(ld.X, site, depth+1)
						if ok {
							return k + "." + fieldOf(a).Name(), true
						}
					}
				}
				if storedBefore(base, a.Field) {
					return "", false
				}
				return fmt.Sprintf("%p.%s", al, fieldOf(a).Name()), true
			}
			if storedBefore(base, a.Field) {
				return "", false
			}
			k, ok := fieldPathKey(base, site, depth+1)
			if !ok {
				return "", false
			}
			return k + "." + fieldOf(a).Name(), true
		case *ssa.Alloc:
			ws := cellWrites(a)
			if len(ws) == 1 {
				return fieldPathKey(ws[0].Val, site, depth+1)
			}
			return "", false
		}
		return "", false
	case *ssa.Field:
		k, ok := fieldPathKey(x.X, site, depth+1)
		if !ok {
			return "", false
		}
		return k + "." + fieldOf(x).Name(), true
	case *ssa.Parameter, *ssa.Call, *ssa.Extract, *ssa.Alloc, *ssa.FreeVar:
		return fmt.Sprintf("%p", x), true
	}
	return "", false
}

// C19.libpanics — library calls known to panic on some input are only made
// where the panic is turned into an error.
var panickingLibCalls = map[string]string{
	"github.com/apparentlymart/go-versions/versions.ParseVersion":     "panics (strconv.ParseUint range error) on a number of 2^64 or more",
	"github.com/apparentlymart/go-versions/versions.MustParseVersion": "panics on any invalid version",
	"regexp.MustCompile": "panics on an invalid expression",
}

func ruleC19LibPanics(c *Checker) {
	const R = "C19.libpanics"
	c.rule(R, "Library functions known to panic on some argument (versions.ParseVersion on a number ≥ 2^64, the Must* constructors) are called with a value that is not a constant only from a function that recovers: a deferred closure calling recover() whose recovering path makes the function return a non-nil error. One line of reason per table entry; init-time calls on constants are exempt.", 2)
	p := c.P
	n := 0
	for _, fn := range p.Funcs {
		if !p.InModule(fn) || isInitFunc(fn) {
			continue
		}
		if fn.Object() != nil && strings.HasPrefix(fn.Name(), "Must") {
			continue // documented to panic
		}
		for _, ci := range callsIn(fn) {
			o := calleeObj(ci)
			if o == nil {
				continue
			}
			why, bad := panickingLibCalls[fullName(o)]
			if !bad || len(ci.Common().Args) == 0 {
				continue
			}
			if _, isC := canon(ci.Common().Args[0]).(*ssa.Const); isC {
				continue
			}
			n++
			// the enclosing function recovers
			recovers := false
			for _, a := range fn.AnonFuncs {
				isDeferred := false
				eachInstr(fn, func(in ssa.Instruction) {
					if d, ok := in.(*ssa.Defer); ok {
						if mc, ok := d.Call.Value.(*ssa.MakeClosure); ok && mc.Fn == ssa.Value(a) {
							isDeferred = true
						}
					}
				})
				if !isDeferred {
					continue
				}
				for _, c2 := range callsIn(a) {
					if b, ok := c2.Common().Value.(*ssa.Builtin); ok && b.Name() == "recover" {
						recovers = true
					}
				}
			}
			c.check(recovers, R, p.FuncName(fn), "call of "+shortCallee(fullName(o)), p.Pos(ci.Pos()), "inside a function whose deferred closure recovers", shortCallee(fullName(o))+" "+why+" and is handed text from outside in a function that does not recover: the caller of a parser or of OpenDir crashes instead of getting an error")
		}
	}
	c.check(n > 0, R, "-", "guarded library calls", "-", fmt.Sprintf("%d call(s) of panicking library functions on non-constant input", n), "no call of versions.ParseVersion on input found (versions are no longer parsed from text?)")
}

// C19.nilfield — a lazily initialised pointer field is not dereferenced
// before it is known to be set.
func ruleC19NilField(c *Checker) {
	const R = "C19.nilfield"
	c.rule(R, "Contradiction rule for lazily initialised fields: a pointer-typed field of a module struct that is compared with nil somewhere in the module (so it can be nil) is used as a method receiver or dereferenced only where it is known to be set — past the not-nil edge of a test of that field of the same object, or past the ok edge of a call to the initialiser (a method of the same object every successful return of which has stored a non-nil value into the field). A separate 'done' flag set before the initialiser has succeeded does not establish that.", 1)
	p := c.P
	// fields compared with nil somewhere
	nilChecked := map[*types.Var]bool{}
	fieldLoad := func(v ssa.Value) (*ssa.FieldAddr, bool) {
		ld, ok := canon(v).(*ssa.UnOp)
		if !ok || ld.Op != token.MUL {
			return nil, false
		}
		fa, ok := ld.X.(*ssa.FieldAddr)
		if !ok || fieldOf(fa) == nil {
			return nil, false
		}
		if _, isPtr := fieldOf(fa).Type().Underlying().(*types.Pointer); !isPtr {
			return nil, false
		}
		return fa, true
	}
	for _, fn := range p.Funcs {
		if !p.InModule(fn) {
			continue
		}
		eachInstr(fn, func(in ssa.Instruction) {
			bo, ok := in.(*ssa.BinOp)
			if !ok || (bo.Op != token.EQL && bo.Op != token.NEQ) {
				return
			}
			var other ssa.Value
			switch {
			case isNilConst(bo.X):
				other = bo.Y
			case isNilConst(bo.Y):
				other = bo.X
			default:
				return
			}
			if fa, ok := fieldLoad(other); ok && fieldOf(fa).Pkg() != nil && strings.HasPrefix(fieldOf(fa).Pkg().Path(), p.ModPath) {
				nilChecked[fieldOf(fa)] = true
			}
		})
	}
	// ... or set by a method of the object rather than where the object is built (lazy initialisation)
	for _, fn := range p.Funcs {
		if !p.InModule(fn) {
			continue
		}
		eachInstr(fn, func(in ssa.Instruction) {
			st, ok := in.(*ssa.Store)
			if !ok || isNilConst(st.Val) {
				return
			}
			fa, ok := st.Addr.(*ssa.FieldAddr)
			if !ok || fieldOf(fa) == nil {
				return
			}
			if _, isPtr := fieldOf(fa).Type().Underlying().(*types.Pointer); !isPtr {
				return
			}
			if prm, ok := canon(fa.X).(*ssa.Parameter); ok && len(fn.Params) > 0 && prm == fn.Params[0] && fn.Signature.Recv() != nil {
				if fieldOf(fa).Pkg() != nil && strings.HasPrefix(fieldOf(fa).Pkg().Path(), p.ModPath) {
					nilChecked[fieldOf(fa)] = true
				}
			}
		})
	}
	n := 0
	for _, fn := range p.Funcs {
		if !p.InModule(fn) {
			continue
		}
		for _, ci := range callsIn(fn) {
			cl, ok := ci.(*ssa.Call)
			if !ok || cl.Call.IsInvoke() || len(cl.Call.Args) == 0 {
				continue
			}
			g := cl.Common().StaticCallee()
			if g == nil || g.Signature.Recv() == nil {
				continue
			}
			if _, isPtrRecv := g.Signature.Recv().Type().(*types.Pointer); !isPtrRecv {
				continue
			}
			// the receiver: the field as loaded here, or — `re, err := r.compiled()` once the accessor is in
			// place — a choice between loads of it, each of which is judged where it was made
			type fuse struct {
				fa  *ssa.FieldAddr
				blk *ssa.BasicBlock
			}
			var uses []fuse
			if fa, ok := fieldLoad(cl.Call.Args[0]); ok {
				uses = append(uses, fuse{fa, cl.Block()})
			} else if ph, ok := canon(cl.Call.Args[0]).(*ssa.Phi); ok {
				for _, e := range ph.Edges {
					if fa, ok := fieldLoad(e); ok {
						if ld, ok := canon(e).(*ssa.UnOp); ok {
							uses = append(uses, fuse{fa, ld.Block()})
						}
					}
				}
			}
			for _, u := range uses {
				fa, useBlk := u.fa, u.blk
				if !nilChecked[fieldOf(fa)] {
					continue
				}
				n++
				F := fieldOf(fa)
				base := canon(fa.X)
				// not-nil edges of tests of this field of the same object
				tE, fE := condEdges(fn, func(v ssa.Value) bool {
					bo, ok := v.(*ssa.BinOp)
					if !ok || (bo.Op != token.EQL && bo.Op != token.NEQ) {
						return false
					}
					var other ssa.Value
					switch {
					case isNilConst(bo.X):
						other = bo.Y
					case isNilConst(bo.Y):
						other = bo.X
					default:
						return false
					}
					f2, ok := fieldLoad(other)
					return ok && fieldOf(f2) == F && canon(f2.X) == base
				})
				var cut []Edge
				for _, e := range tE {
					if ifi, ok := e.From.Instrs[len(e.From.Instrs)-1].(*ssa.If); ok {
						cnd, neg := stripNot(ifi.Cond)
						if bo, ok := cnd.(*ssa.BinOp); ok && (bo.Op == token.NEQ) != neg {
							cut = append(cut, e)
						}
					}
				}
				for _, e := range fE {
					if ifi, ok := e.From.Instrs[len(e.From.Instrs)-1].(*ssa.If); ok {
						cnd, neg := stripNot(ifi.Cond)
						if bo, ok := cnd.(*ssa.BinOp); ok && (bo.Op == token.EQL) != neg {
							cut = append(cut, e)
						}
					}
				}
				// ok edges of initialiser calls on the same object
				for _, c2 := range callsIn(fn) {
					ic, ok := c2.(*ssa.Call)
					if !ok || len(ic.Call.Args) == 0 || canon(ic.Call.Args[0]) != base {
						continue
					}
					h := ic.Common().StaticCallee()
					if h == nil || !p.InModule(h) || len(h.Params) == 0 {
						continue
					}
					recv := h.Params[0]
					sets := p.helperAlways(h, func(in ssa.Instruction) bool {
						st, ok := in.(*ssa.Store)
						if !ok || isNilConst(st.Val) {
							return false
						}
						f3, ok := st.Addr.(*ssa.FieldAddr)
						return ok && fieldOf(f3) == F && canon(f3.X) == ssa.Value(recv)
					}, 0)
					if !sets {
						continue
					}
					okE, _ := okEdgesOfCall(ic)
					cut = append(cut, okE...)
				}
				okG := len(cut) > 0 && p.guardedC(useBlk, cut)
				what := "use of " + F.Name() + " as receiver of " + shortCallee(fullName(calleeObj(cl)))
				if len(uses) > 1 {
					what += fmt.Sprintf(" (value read in block %d)", useBlk.Index)
				}
				c.check(okG, R, p.FuncName(fn), what, p.Pos(cl.Pos()), "reached only past a not-nil test of the field or a successful initialiser", "the field "+F.Name()+" is nil-checked elsewhere (it is set lazily) but is used here on a path where it is not known to be set — e.g. guarded by a flag that is raised before the initialiser has succeeded: after a failed initialisation the next call dereferences nil and panics")
			}
		}
	}
	c.check(n > 0, R, "-", "uses of lazily initialised fields", "-", fmt.Sprintf("%d use(s) examined", n), "no use of a nil-checked pointer field as a method receiver found (the rule has no instance)")
}

// checkSplitFirst backs the one structural fact the "cannot happen" panic
// after the registry-address library call rests on: the library splits its
// argument at the first "//", so the argument must have been cut at the FIRST
// "//" too. The private splitter feeding the library call is located by
// provenance; every search for "//" in it whose result bounds a slice must be
// a first-occurrence search (strings.Index / strings.Cut / SplitN(…, 2)).
func checkSplitFirst(c *Checker, R string, fn *ssa.Function, panicBlock *ssa.BasicBlock) {
	p := c.P
	var lib *ssa.Call
	for d := idomOf(panicBlock); d != nil && lib == nil; d = idomOf(d) {
		ifi, ok := d.Instrs[len(d.Instrs)-1].(*ssa.If)
		if !ok {
			continue
		}
		for v := range p.backSlice(ifi.Cond, 0) {
			if cl, ok := v.(*ssa.Call); ok {
				if g := cl.Common().StaticCallee(); g != nil && !p.InModule(g) && calleeObj(cl) != nil && calleeObj(cl).Pkg() != nil && strings.Contains(calleeObj(cl).Pkg().Path(), ".") {
					lib = cl
				}
			}
		}
		break
	}
	if lib == nil {
		return
	}
	name := p.FuncName(fn)
	var splitter *ssa.Function
	for _, a := range lib.Call.Args {
		for v := range p.backSlice(a, 0) {
			if cl, ok := v.(*ssa.Call); ok {
				if g := cl.Common().StaticCallee(); g != nil && p.InModule(g) && g.Signature.Results().Len() == 2 {
					splitter = g
				}
			}
		}
	}
	if splitter == nil {
		c.fail(R, name, "library argument was split off first", p.Pos(lib.Pos()), "the argument of "+fullName(calleeObj(lib))+" does not come from a module splitter: the 'cannot happen' panic behind it can be reached by any input that carries a sub-directory part")
		return
	}
	n, bad := 0, ""
	for g := range p.family(splitter) {
		eachInstr(g, func(in ssa.Instruction) {
			cl, ok := in.(*ssa.Call)
			if !ok || calleeObj(cl) == nil || objPkgPath(calleeObj(cl)) != "strings" {
				return
			}
			hasNeedle := false
			for _, a := range cl.Call.Args {
				if s2, ok := constString(a); ok && s2 == "//" {
					hasNeedle = true
				}
			}
			if !hasNeedle {
				return
			}
			n++
			switch calleeObj(cl).Name() {
			case "Index", "Cut", "SplitN", "Contains", "HasPrefix":
			default:
				bad = calleeObj(cl).Name()
			}
		})
	}
	c.check(n > 0 && bad == "", R, name, "package part is cut at the first //", p.Pos(lib.Pos()), fmt.Sprintf("%s looks for \"//\" with first-occurrence searches only (%d)", p.FuncName(splitter), n), "the splitter "+p.FuncName(splitter)+" locates the sub-path separator with strings."+bad+" (or not at all): the package part handed to "+shortCallee(fullName(calleeObj(lib)))+" can still contain a \"//\", the library reports a sub-directory, and the 'cannot happen' panic behind the call is reached by an address such as ns/name/sys//a//b")
}

// C19.hostlabel — a registry host with an over-long label is refused before
// an address that would panic when printed is handed out.
func ruleC19HostLabel(c *Checker) {
	const R = "C19.hostlabel"
	c.rule(R, "The registry-source parser splits the host name the library returned at \".\" (after cutting a port off at \":\") and, for every label, takes the error return when len(label) exceeds a constant of at most 63: the host type's display conversion panics for labels far longer than a DNS label can be, which the forward conversion lets through, and String() runs it. A split at anything but \".\" never sees a label boundary.", 3)
	p := c.P
	fn := p.Fn(addrPkg, "ParseRegistrySource")
	if fn == nil {
		c.anchorMissing(R, "ParseRegistrySource")
		return
	}
	name := p.FuncName(fn)
	var split *ssa.Call
	for _, ci := range callsTo(fn, func(o *types.Func) bool { return isFunc(o, "strings", "Split") || isFunc(o, "strings", "FieldsFunc") }) {
		if cl, ok := ci.(*ssa.Call); ok {
			for w := range p.backSlice(cl.Call.Args[0], 0) {
				if fa, ok := w.(*ssa.Field); ok && fieldOf(fa) != nil && fieldOf(fa).Name() == "Host" {
					split = cl
				}
				if fa, ok := w.(*ssa.FieldAddr); ok && fieldOf(fa) != nil && fieldOf(fa).Name() == "Host" {
					split = cl
				}
			}
		}
	}
	if split == nil {
		c.fail(R, name, "host split into labels", p.Pos(fn.Pos()), "the host name is not split into labels: an over-long label reaches the address, whose String() panics")
		return
	}
	// the text measured is the host's String() (the form that is kept): the display form is the conversion
	// that panics, and a Go-syntax form adds bytes
	for w := range p.backSlice(split.Call.Args[0], 0) {
		if cl, ok := w.(*ssa.Call); ok && !cl.Call.IsInvoke() {
			if g := cl.Common().StaticCallee(); g != nil && !p.InModule(g) && g.Signature.Recv() != nil && g.Pkg != nil && strings.Contains(g.Pkg.Pkg.Path(), "svchost") {
				c.check(g.Name() == "String", R, name, "labels measured on the host's String()", p.Pos(cl.Pos()), "Host.String()", "the host name is measured in its "+g.Name()+"() form, not as it is kept: ForDisplay is the very conversion that panics on an over-long label, GoString adds quotes and a type name to the first and last label")
			}
		}
	}
	// every label is measured: the split result is ranged over as it is, not a slice of it
	if refs := split.Referrers(); refs != nil {
		for _, r := range *refs {
			if sl, ok := r.(*ssa.Slice); ok && sl.X == ssa.Value(split) {
				c.fail(R, name, "all labels measured", p.Pos(sl.Pos()), "only a part of the split result (labels[lo:hi]) is looked at: the labels left out — the first, the last — are not measured, and a 5000-byte first label is accepted; String() then panics")
			}
		}
	}
	sep, _ := constString(split.Call.Args[1])
	c.check(sep == ".", R, name, "host split at \".\"", p.Pos(split.Pos()), "strings.Split(host, \".\")", "the host name is split at "+strconv.Quote(sep)+", not at \".\": no label boundary is ever found, the length test sees single characters (or the whole name), and a 2000-character label is accepted — String() then panics")
	for w := range p.backSlice(split.Call.Args[0], 0) {
		if cl, ok := w.(*ssa.Call); ok && isFunc(calleeObj(cl), "strings", "Cut") {
			k, _ := constString(cl.Call.Args[1])
			c.check(k == ":", R, name, "port cut off at \":\"", p.Pos(cl.Pos()), "strings.Cut(host, \":\")", "the port is cut off at "+strconv.Quote(k)+" instead of \":\": with an empty separator the host name examined is empty and no label is ever measured")
		}
	}
	// the length test
	okLen := false
	for _, b := range fn.Blocks {
		ifi, ok := b.Instrs[len(b.Instrs)-1].(*ssa.If)
		if !ok {
			continue
		}
		cnd, neg := stripNot(ifi.Cond)
		bo, ok := cnd.(*ssa.BinOp)
		if !ok || (bo.Op != token.GTR && bo.Op != token.GEQ) {
			continue
		}
		lc, ok := bo.X.(*ssa.Call)
		if !ok {
			continue
		}
		if bi, ok := lc.Call.Value.(*ssa.Builtin); !ok || bi.Name() != "len" {
			continue
		}
		fromSplit := false
		for w := range p.backSlice(lc.Call.Args[0], 0) {
			if w == ssa.Value(split) {
				fromSplit = true
			}
		}
		k, isC := constInt(bo.Y)
		if !fromSplit || !isC || k > 64 {
			continue
		}
		succ := 0
		if neg {
			succ = 1
		}
		if rej, _ := returnsNonNilErrorFrom(b.Succs[succ]); rej {
			okLen = true
		}
		// … and the refusal does not itself run the conversion it is there to keep away from: nothing
		// reached from the too-long edge calls the host type's display conversion
		for blk := range reachFromEdge(Edge{b, succ}) {
			for _, in := range blk.Instrs {
				cl, ok := in.(*ssa.Call)
				if !ok || cl.Call.IsInvoke() {
					continue
				}
				g := cl.Common().StaticCallee()
				if g == nil || p.InModule(g) || g.Signature.Recv() == nil || g.Pkg == nil || !strings.Contains(g.Pkg.Pkg.Path(), "svchost") {
					continue
				}
				if g.Name() == "ForDisplay" {
					c.fail(R, name, "display conversion on the refusing path", p.Pos(cl.Pos()), "the branch that refuses an over-long label calls the host's "+g.Name()+"() (to word the error): that is the conversion that panics for such a label, so the parser panics while composing its refusal")
				}
			}
		}
	}
	c.check(okLen, R, name, "over-long label refused", p.Pos(split.Pos()), "len(label) > 63 leads to an error return", "no label of the host name is measured against the 63-byte limit with an error return behind it")
}

// C19.okuse — a pointer or interface result of a call that also returns an
// error is not dereferenced before that error was looked at.
func ruleC19OkUse(c *Checker) {
	const R = "C19.okuse"
	c.rule(R, "For every call in the module whose results are (…, T, …, error) with T a pointer, interface or map type: an instruction that dereferences the T result (a method call on it, a field access, a load through it, a store into it) is reached only past the edge on which the call's error is nil, or past a not-nil test of the result itself; likewise the value of a comma-ok map lookup or type assertion of such a type is dereferenced only past its ok edge. Two statements swapped so that `x.Field` comes before `if err != nil { return }` compile and pass every test that does not make the call fail — and panic with a nil dereference on the first input that does (a corrupt tar block, an unparsable URL, a failing Lstat).", 20)
	p := c.P
	n := 0
	for _, fn := range p.Funcs {
		if !p.InModule(fn) {
			continue
		}
		eachInstr(fn, func(in ssa.Instruction) {
			var tup ssa.Value
			switch x := in.(type) {
			case *ssa.Lookup:
				if x.CommaOk {
					tup = x
				}
			case *ssa.TypeAssert:
				if x.CommaOk {
					tup = x
				}
			}
			if tup == nil || tup.Referrers() == nil {
				return
			}
			var val, okv ssa.Value
			for _, r := range *tup.Referrers() {
				if ex, isEx := r.(*ssa.Extract); isEx {
					if ex.Index == 0 {
						val = ex
					} else {
						okv = ex
					}
				}
			}
			if val == nil || okv == nil || val.Referrers() == nil {
				return
			}
			switch val.Type().Underlying().(type) {
			case *types.Pointer, *types.Interface:
			default:
				return
			}
			okT, okF := boolEdges(fn, okv)
			for _, r := range *val.Referrers() {
				if mu, isMU := r.(*ssa.MapUpdate); isMU && mu.Value == val && len(okF) > 0 && guarded(r.Block(), okF) {
					c.fail(R, p.FuncName(fn), "comma-ok value stored back on the not-found edge", p.Pos(r.Pos()), "on the edge where the lookup found nothing, the (nil) value it returned is itself put into a table: the entry then exists and is nil — the next lookup succeeds and the value is dereferenced (two versions of one registry package: writeManifest panics)")
					continue
				}
				ci2, isCall := r.(ssa.CallInstruction)
				deref := isCall && ci2.Common().IsInvoke() && ci2.Common().Value == val
				if fa, isFA := r.(*ssa.FieldAddr); isFA && fa.X == val {
					deref = true
				}
				if !deref {
					continue
				}
				n++
				safe := len(okT) > 0 && guarded(r.Block(), okT)
				// or past a not-nil test of the value
				for _, b2 := range fn.Blocks {
					ifi, ok := b2.Instrs[len(b2.Instrs)-1].(*ssa.If)
					if !ok {
						continue
					}
					cnd, neg := stripNot(ifi.Cond)
					bo, ok := cnd.(*ssa.BinOp)
					if !ok || (bo.Op != token.EQL && bo.Op != token.NEQ) || !((bo.X == val && isNilConst(bo.Y)) || (bo.Y == val && isNilConst(bo.X))) {
						continue
					}
					nn := 0
					if (bo.Op == token.EQL) != neg {
						nn = 1
					}
					if guarded(r.Block(), []Edge{{b2, nn}}) {
						safe = true
					}
				}
				c.check(safe, R, p.FuncName(fn), fmt.Sprintf("comma-ok value used past its ok edge#%d", n), p.Pos(r.Pos()), "past the ok edge", "the value of a comma-ok lookup / type assertion is used (a method is called on it) on a path where ok may be false: the zero value is nil and this panics — e.g. an unknown source type")
			}
		})
		for _, ci := range callsIn(fn) {
			cl, ok := ci.(*ssa.Call)
			if !ok {
				continue
			}
			res := cl.Call.Signature().Results()
			if res.Len() < 2 || !isErrorType(res.At(res.Len()-1).Type()) {
				continue
			}
			ev := extractOf(cl, res.Len()-1)
			for ri := 0; ri < res.Len()-1; ri++ {
				switch res.At(ri).Type().Underlying().(type) {
				case *types.Pointer, *types.Interface, *types.Map:
				default:
					continue
				}
				rv := extractOf(cl, ri)
				if rv == nil || rv.Referrers() == nil {
					continue
				}
				// the edges on which the call is known to have succeeded, or the value known not to be nil
				var looked []Edge
				isCmp := func(v ssa.Value, x ssa.Value) bool {
					bo, ok := v.(*ssa.BinOp)
					if !ok || (bo.Op != token.EQL && bo.Op != token.NEQ) {
						return false
					}
					return (canon(bo.X) == x && isNilConst(bo.Y)) || (canon(bo.Y) == x && isNilConst(bo.X))
				}
				_ = ev
				okE, _ := okEdgesOfCall(cl)
				looked = append(looked, okE...)
				// value != nil (true edge) / value == nil (false edge)
				for _, b2 := range fn.Blocks {
					ifi, ok := b2.Instrs[len(b2.Instrs)-1].(*ssa.If)
					if !ok {
						continue
					}
					cnd, neg := stripNot(ifi.Cond)
					if !isCmp(cnd, rv) {
						continue
					}
					nn := 0
					if (cnd.(*ssa.BinOp).Op == token.EQL) != neg {
						nn = 1
					}
					looked = append(looked, Edge{b2, nn})
				}
				for _, r := range *rv.Referrers() {
					deref := false
					switch x := r.(type) {
					case *ssa.FieldAddr:
						deref = x.X == rv
					case *ssa.UnOp:
						deref = x.Op == token.MUL && x.X == rv
					case *ssa.Lookup:
						deref = false // a nil map may be read
					case *ssa.MapUpdate:
						deref = x.Map == rv
					case ssa.CallInstruction:
						cc := x.Common()
						if cc.IsInvoke() && cc.Value == rv {
							deref = true
						}
						if !cc.IsInvoke() && len(cc.Args) > 0 && cc.Args[0] == rv && cc.StaticCallee() != nil && cc.StaticCallee().Signature.Recv() != nil {
							// a method on a pointer receiver: most tolerate nil badly; (*os.File).Close and friends return ErrInvalid
							if o := calleeObj(x); o != nil && o.Name() == "Close" {
								deref = false
							} else {
								deref = true
							}
						}
					}
					if !deref {
						continue
					}
					n++
					okU := len(looked) > 0
					if okU {
						okU = false
						for _, e := range looked {
							if guarded(r.Block(), []Edge{e}) {
								okU = true
							}
						}
						// same block as a test cannot be (a test ends its block); a use in the block right after counts via guarded
					}
					c.check(okU, R, p.FuncName(fn), fmt.Sprintf("result of %s used after its error was looked at#%d", shortCallee(fullName(calleeObj(cl))), n), p.Pos(r.Pos()), "every dereference lies past the error-is-nil edge (or a not-nil test of the value)", "the "+res.At(ri).Type().String()+" result of "+fullName(calleeObj(cl))+" is dereferenced on a path where the call is not yet known to have succeeded: when it fails the result is nil and this panics")
				}
			}
		}
	}
}

// pushedUnresolved: for a visited list of path strings, every pushed element is
// the result of filepath.EvalSymlinks (directly, or of a module helper whose
// success returns hand one out). Returns what it is instead, or "".
func pushedUnresolved(p *Prog, ap *ssa.Call) string {
	sl, ok := ap.Call.Args[1].(*ssa.Slice)
	if !ok {
		return ""
	}
	al, ok := sl.X.(*ssa.Alloc)
	if !ok {
		return ""
	}
	var resolved func(v ssa.Value, depth int) bool
	resolved = func(v ssa.Value, depth int) bool {
		v = canon(v)
		var cl *ssa.Call
		switch x := v.(type) {
		case *ssa.Extract:
			if x.Index != 0 {
				return false
			}
			cl, _ = x.Tuple.(*ssa.Call)
		case *ssa.Call:
			cl = x
		}
		if cl == nil {
			return false
		}
		if isFunc(calleeObj(cl), "path/filepath", "EvalSymlinks") {
			return true
		}
		g := cl.Common().StaticCallee()
		if g == nil || !p.InModule(g) || depth == 0 {
			return false
		}
		rets := returnsOf(g)
		n := 0
		for _, r := range rets {
			if len(r.Results) > 1 && !mayReturnNilErr(r) {
				continue
			}
			n++
			if len(r.Results) == 0 || !resolved(r.Results[0], depth-1) {
				return false
			}
		}
		return n > 0
	}
	for _, w := range elemWrites(al) {
		if bt, ok := w.Val.Type().Underlying().(*types.Basic); !ok || bt.Kind() != types.String {
			return ""
		}
		if !resolved(w.Val, 2) {
			v := canon(w.Val)
			if ex, ok := v.(*ssa.Extract); ok {
				if cl, ok := ex.Tuple.(*ssa.Call); ok && calleeObj(cl) != nil {
					return "the result of " + calleeObj(cl).FullName()
				}
			}
			return "a value of another origin (" + v.String() + ")"
		}
	}
	return ""
}

// mayPrecede: some execution runs a before b (a earlier in b's block, or a path
// leads from a's block to b's).
func mayPrecede(a, b ssa.Instruction) bool {
	if a.Block() == b.Block() && instrIndex(a) < instrIndex(b) {
		return true
	}
	for _, s := range a.Block().Succs {
		if reachFromBlock(s)[b.Block()] {
			return true
		}
	}
	return false
}
