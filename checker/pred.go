package main

import (
	"go/constant"
	"go/token"
	"strings"

	"golang.org/x/tools/go/ssa"
)

// Containment is one path-containment decision found in the code: "is subject
// inside root?". Inside is established in a block iff the block is guarded by
// every edge group in Conj (each group is a disjunction of edges).
type Containment struct {
	Fn      *ssa.Function
	Kind    string // rel | hasprefix | islocal
	Subject ssa.Value
	Root    ssa.Value
	Conj    [][]Edge
	Sound   bool
	Why     string
	At      ssa.Instruction
	ViaFlag bool // the result is stored in a boolean variable instead of being branched on
}

func isSepString(s string) bool { return s == "/" || s == `\` }

func endsWithSep(s string) bool {
	return strings.HasSuffix(s, "/") || strings.HasSuffix(s, `\`)
}

// sepTerminated decides whether a string value ends in a path separator on
// every path: a constant ending in one; x + const-ending-in-sep; a phi whose
// every incoming value is such, or arrives over the true edge of
// HasSuffix(thatValue, sep).
func sepTerminated(v ssa.Value, seen map[ssa.Value]bool) (bool, string) {
	if seen[v] {
		return true, "cycle"
	}
	seen[v] = true
	switch x := v.(type) {
	case *ssa.Const:
		if s, ok := constString(x); ok && endsWithSep(s) {
			return true, "constant ends in separator"
		}
		return false, "constant prefix does not end in a separator"
	case *ssa.BinOp:
		if x.Op == token.ADD {
			if s, ok := constString(x.Y); ok && endsWithSep(s) {
				return true, "separator appended"
			}
			if ok, why := sepTerminated(x.Y, seen); ok {
				return true, why
			}
		}
		return false, "prefix is not separator-terminated"
	case *ssa.Phi:
		for i, e := range x.Edges {
			if ok, _ := sepTerminated(e, seen); ok {
				continue
			}
			pred := x.Block().Preds[i]
			if !edgeImpliesHasSuffixSep(pred, x.Block(), e) {
				return false, "a value reaches the prefix test without a trailing separator on some path"
			}
		}
		return true, "separator appended unless HasSuffix says it is there"
	}
	return false, "prefix operand is not known to end in a separator (sibling directories sharing the name prefix would pass)"
}

// edgeImpliesHasSuffixSep: control reaches `to` from `pred` only when
// strings.HasSuffix(v, sep) was true.
func edgeImpliesHasSuffixSep(pred, to *ssa.BasicBlock, v ssa.Value) bool {
	if len(pred.Instrs) == 0 {
		return false
	}
	ifi, ok := pred.Instrs[len(pred.Instrs)-1].(*ssa.If)
	if !ok {
		// a straight-line block: look one block up
		if len(pred.Preds) == 1 && len(pred.Succs) == 1 {
			return edgeImpliesHasSuffixSep(pred.Preds[0], pred, v)
		}
		return false
	}
	c, neg := stripNot(ifi.Cond)
	call, ok := c.(*ssa.Call)
	if !ok || !isFunc(calleeObj(call), "strings", "HasSuffix") {
		return false
	}
	if canon(call.Call.Args[0]) != canon(v) {
		return false
	}
	if s, ok := constString(call.Call.Args[1]); !ok || !isSepString(s) {
		return false
	}
	trueSucc := 0
	if neg {
		trueSucc = 1
	}
	return pred.Succs[trueSucc] == to && pred.Succs[1-trueSucc] != to
}

// rootFormsOf: the values a prefix operand was made from by appending a
// separator, choosing between the two, or cleaning — the spellings of the
// same root an equality test may name.
func rootFormsOf(root ssa.Value) map[ssa.Value]bool {
	out := map[ssa.Value]bool{}
	var walk func(v ssa.Value, d int)
	walk = func(v ssa.Value, d int) {
		if v == nil || d > 8 {
			return
		}
		if out[v] {
			return
		}
		out[v] = true
		if cv := canon(v); cv != v {
			walk(cv, d+1)
		}
		switch x := v.(type) {
		case *ssa.Phi:
			for _, e := range x.Edges {
				walk(e, d+1)
			}
		case *ssa.BinOp:
			if x.Op == token.ADD {
				if k, ok := x.Y.(*ssa.Const); ok && k.Value != nil && k.Value.Kind() == constant.String && isSepString(constant.StringVal(k.Value)) {
					walk(x.X, d+1)
				}
			}
		case *ssa.Call:
			o := calleeObj(x)
			if (isFunc(o, "path/filepath", "Clean") || isFunc(o, "path", "Clean")) && len(x.Call.Args) == 1 {
				walk(x.Call.Args[0], d+1)
			}
			if (isFunc(o, "strings", "TrimSuffix") || isFunc(o, "strings", "TrimRight")) && len(x.Call.Args) == 2 {
				if k, ok := x.Call.Args[1].(*ssa.Const); ok && k.Value != nil && k.Value.Kind() == constant.String && isSepString(constant.StringVal(k.Value)) {
					walk(x.Call.Args[0], d+1)
				}
			}
		}
	}
	walk(root, 0)
	return out
}

// findContainments enumerates the containment decisions of fn.
func findContainments(fn *ssa.Function) []Containment {
	var out []Containment
	for _, ci := range callsIn(fn) {
		call, ok := ci.(*ssa.Call)
		if !ok {
			continue
		}
		o := calleeObj(call)
		switch {
		case isFunc(o, "strings", "HasPrefix"):
			if _, isConst := call.Call.Args[1].(*ssa.Const); isConst {
				continue // a syntactic test (./, github.com/ …), not a containment decision
			}
			subj, root := call.Call.Args[0], call.Call.Args[1]
			tE, _ := boolEdges(fn, call)
			k := Containment{Fn: fn, Kind: "hasprefix", Subject: subj, Root: root, At: call}
			grp := append([]Edge{}, tE...)
			// an equality test of the same subject against the same root (or the
			// root without separator) counts as an alternative way in; an equality
			// with anything else (an allow-list entry, say) is a decision of its own
			rootForms := rootFormsOf(root)
			eqT, _ := condEdges(fn, func(c ssa.Value) bool {
				bo, ok := c.(*ssa.BinOp)
				if !ok || bo.Op != token.EQL {
					return false
				}
				if bo.X.Type() != subj.Type() {
					return false
				}
				return (canon(bo.X) == canon(subj) && rootForms[canon(bo.Y)]) || (canon(bo.Y) == canon(subj) && rootForms[canon(bo.X)])
			})
			// NEQ form
			_, neF := condEdges(fn, func(c ssa.Value) bool {
				bo, ok := c.(*ssa.BinOp)
				if !ok || bo.Op != token.NEQ {
					return false
				}
				return (canon(bo.X) == canon(subj) && rootForms[canon(bo.Y)]) || (canon(bo.Y) == canon(subj) && rootForms[canon(bo.X)])
			})
			grp = append(grp, eqT...)
			grp = append(grp, neF...)
			k.Conj = [][]Edge{grp}
			k.Sound, k.Why = sepTerminated(root, map[ssa.Value]bool{})
			if len(tE) == 0 {
				if feedsBoolPhi(call) {
					// the decision is carried in a boolean variable: it cannot be established by edges,
					// only through flagReasons; soundness of the test itself is judged as usual
					k.Conj = nil
					k.ViaFlag = true
				} else {
					k.Sound, k.Why = false, "result of the prefix test is not used as a branch condition"
				}
			}
			out = append(out, k)
		case isFunc(o, "path/filepath", "IsLocal"):
			tE, _ := boolEdges(fn, call)
			k := Containment{Fn: fn, Kind: "islocal", Subject: call.Call.Args[0], At: call, Conj: [][]Edge{tE}, Sound: len(tE) > 0, Why: "filepath.IsLocal"}
			if len(tE) == 0 {
				k.Why = "IsLocal result not branched on"
			}
			out = append(out, k)
		case isFunc(o, "path/filepath", "Rel"):
			rel := extractOf(call, 0)
			if rel == nil {
				continue
			}
			// tests on the result
			notDotDot, hpF := dotDotEdges(fn, func(v ssa.Value) bool { return v == rel })
			// segment-wise form: the first element of the result split at the separator is not ".."
			isFirstSeg := func(v ssa.Value) bool {
				switch x := v.(type) {
				case *ssa.UnOp:
					if x.Op != token.MUL {
						return false
					}
					ia, ok := x.X.(*ssa.IndexAddr)
					if !ok {
						return false
					}
					if k, ok := constInt(ia.Index); !ok || k != 0 {
						return false
					}
					cl, ok := ia.X.(*ssa.Call)
					if !ok || !(isFunc(calleeObj(cl), "strings", "Split") || isFunc(calleeObj(cl), "strings", "SplitN")) || cl.Call.Args[0] != rel {
						return false
					}
					sp, ok := constString(cl.Call.Args[1])
					return ok && isSepString(sp)
				case *ssa.Extract:
					cl, ok := x.Tuple.(*ssa.Call)
					if !ok || x.Index != 0 || !isFunc(calleeObj(cl), "strings", "Cut") || cl.Call.Args[0] != rel {
						return false
					}
					sp, ok := constString(cl.Call.Args[1])
					return ok && isSepString(sp)
				}
				return false
			}
			_, segEqF := condEdges(fn, func(c ssa.Value) bool {
				bo, ok := c.(*ssa.BinOp)
				if !ok || bo.Op != token.EQL {
					return false
				}
				s, ok1 := constString(bo.Y)
				return ok1 && s == ".." && isFirstSeg(bo.X)
			})
			segNeT, _ := condEdges(fn, func(c ssa.Value) bool {
				bo, ok := c.(*ssa.BinOp)
				if !ok || bo.Op != token.NEQ {
					return false
				}
				s, ok1 := constString(bo.Y)
				return ok1 && s == ".." && isFirstSeg(bo.X)
			})
			if seg := append(segEqF, segNeT...); len(seg) > 0 {
				okE2, _ := okEdgesOfCall(call)
				k := Containment{Fn: fn, Kind: "rel", Subject: call.Call.Args[1], Root: call.Call.Args[0], At: call, Conj: [][]Edge{okE2, seg}}
				if len(okE2) == 0 {
					k.Why = "error of filepath.Rel is not tested"
				} else {
					k.Sound, k.Why = true, `first path element of the filepath.Rel result is not ".."`
				}
				out = append(out, k)
				continue
			}
			// joined form: the Rel result (position below the root) joined with something else is tested
			// for "..": where x leads from the root
			var joined ssa.Value
			if refs := rel.Referrers(); refs != nil {
				for _, r := range *refs {
					// variadic Join: the extract is stored into the argument array
					if st, ok := r.(*ssa.Store); ok {
						if ia, ok := st.Addr.(*ssa.IndexAddr); ok {
							if al, ok := ia.X.(*ssa.Alloc); ok {
								if ar := al.Referrers(); ar != nil {
									for _, q := range *ar {
										if sl, ok := q.(*ssa.Slice); ok {
											if sr := sl.Referrers(); sr != nil {
												for _, u := range *sr {
													if jc, ok := u.(*ssa.Call); ok && isFunc(calleeObj(jc), "path/filepath", "Join") {
														joined = jc
													}
												}
											}
										}
									}
								}
							}
						}
					}
				}
			}
			if joined != nil {
				jnd, jHpF := dotDotEdges(fn, func(v ssa.Value) bool { return v == joined })
				if len(jnd) > 0 || len(jHpF) > 0 {
					okE2, _ := okEdgesOfCall(call)
					k := Containment{Fn: fn, Kind: "reljoin", Subject: joined, Root: call.Call.Args[0], At: call, Conj: [][]Edge{okE2, jnd, jHpF}}
					dirOK := false
					if dc := callOf(canon(call.Call.Args[1])); dc != nil && isFunc(calleeObj(dc), "path/filepath", "Dir") {
						dirOK = true
					}
					// what is joined onto the position is the link's target as written, not a path already made
					// absolute from it (joining an absolute path only re-roots it: nothing climbs any more)
					rawOK := true
					if jc, ok := joined.(*ssa.Call); ok {
						for _, a := range joinArgs(jc) {
							if canon(a) == ssa.Value(rel) {
								continue
							}
							if _, isPrm := canon(a).(*ssa.Parameter); !isPrm {
								rawOK = false
							}
						}
					}
					switch {
					case len(okE2) == 0:
						k.Why = "error of filepath.Rel is not tested"
					case !rawOK:
						k.Why = "what is joined onto the link's directory is not the target as written (a parameter) but something computed from it: an absolute form never climbs, so the test is vacuous"
					case !dirOK:
						k.Why = "the target is joined onto the position of the link itself, not onto its directory (filepath.Rel(root, Dir(position))): one \"..\" too many is absorbed, so a top-level link ../<name of root>/f counts as inside"
					case len(jnd) == 0:
						k.Why = `the path from the root is not compared with ".."`
					case len(jHpF) == 0:
						k.Why = `the path from the root is not tested for the "../" prefix`
					default:
						k.Sound, k.Why = true, `the path from the root (Rel result joined with the target) is neither ".." nor starts with "../"`
					}
					out = append(out, k)
					continue
				}
			}
			if len(notDotDot) == 0 && len(hpF) == 0 {
				continue // Rel used to compute a name, not to decide containment
			}
			okE2, _ := okEdgesOfCall(call)
			k := Containment{Fn: fn, Kind: "rel", Subject: call.Call.Args[1], Root: call.Call.Args[0], At: call,
				Conj: [][]Edge{okE2, notDotDot, hpF}}
			switch {
			case len(okE2) == 0:
				k.Why = "error of filepath.Rel is not tested"
			case len(notDotDot) == 0:
				k.Why = `result of filepath.Rel is not compared with ".."`
			case len(hpF) == 0:
				k.Why = `result of filepath.Rel is not tested for the "../" prefix`
			default:
				k.Sound, k.Why = true, `filepath.Rel result is neither ".." nor starts with "../"`
			}
			out = append(out, k)
		}
	}
	return out
}

// dotDotEdges finds, in fn, the edges on which a subject string (any value for
// which isSubj holds) is known not to be ".." (nd) and not to start with "../"
// (np): the false edge of `subj == ".."`, the true edge of `subj != ".."`, the
// false edge of strings.HasPrefix(subj, "../"), and the false edge of a call
// to a module helper func(…string…) bool whose result is true whenever the
// corresponding test of its parameter is true (helperImplies).
func dotDotEdges(fn *ssa.Function, isSubj func(ssa.Value) bool) (nd, np []Edge) {
	isDD := func(v ssa.Value, subj func(ssa.Value) bool) (eq, ne bool) {
		bo, ok := v.(*ssa.BinOp)
		if !ok || (bo.Op != token.EQL && bo.Op != token.NEQ) {
			return
		}
		x, y := bo.X, bo.Y
		if _, isC := x.(*ssa.Const); isC {
			x, y = y, x
		}
		s, ok1 := constString(y)
		if !ok1 || s != ".." || !subj(x) {
			return
		}
		return bo.Op == token.EQL, bo.Op == token.NEQ
	}
	isHP := func(v ssa.Value, subj func(ssa.Value) bool) bool {
		cl, ok := v.(*ssa.Call)
		if !ok || !isFunc(calleeObj(cl), "strings", "HasPrefix") || !subj(cl.Call.Args[0]) {
			return false
		}
		s, ok1 := constString(cl.Call.Args[1])
		return ok1 && (s == "../" || s == `..\`)
	}
	_, eqF := condEdges(fn, func(c ssa.Value) bool { eq, _ := isDD(c, isSubj); return eq })
	neT, _ := condEdges(fn, func(c ssa.Value) bool { _, ne := isDD(c, isSubj); return ne })
	nd = append(eqF, neT...)
	_, np = condEdges(fn, func(c ssa.Value) bool { return isHP(c, isSubj) })
	// boolean helpers
	for _, wantHP := range []bool{false, true} {
		_, hF := condEdges(fn, func(c ssa.Value) bool {
			cl, ok := c.(*ssa.Call)
			if !ok {
				return false
			}
			h := cl.Call.StaticCallee()
			if h == nil || len(h.Blocks) == 0 || h.Signature.Results().Len() != 1 || !isBoolType(h.Signature.Results().At(0).Type()) {
				return false
			}
			for i, a := range cl.Call.Args {
				if i >= len(h.Params) || !isSubj(a) {
					continue
				}
				prm := h.Params[i]
				onPrm := func(v ssa.Value) bool { return v == ssa.Value(prm) }
				atom := func(v ssa.Value) bool {
					if wantHP {
						return isHP(v, onPrm)
					}
					eq, _ := isDD(v, onPrm)
					return eq
				}
				if helperImplies(h, atom) {
					return true
				}
			}
			return false
		})
		if wantHP {
			np = append(np, hF...)
		} else {
			nd = append(nd, hF...)
		}
	}
	return
}

// helperImplies: the boolean function h returns true whenever the test `atom`
// (a condition over h's parameters) is true. Decided structurally on every
// return value: the atom itself; a constant true; a phi each of whose incoming
// values is such or arrives from a block only reachable with the atom false.
func helperImplies(h *ssa.Function, atom func(ssa.Value) bool) bool {
	_, atomFalse := condEdges(h, atom)
	var imp func(v ssa.Value, at *ssa.BasicBlock, seen map[ssa.Value]bool) bool
	imp = func(v ssa.Value, at *ssa.BasicBlock, seen map[ssa.Value]bool) bool {
		if b, isB := constBool(v); isB && b {
			return true
		}
		if atom(v) {
			return true
		}
		if at != nil && len(atomFalse) > 0 && guarded(at, atomFalse) {
			return true
		}
		ph, ok := v.(*ssa.Phi)
		if !ok || seen[v] {
			return false
		}
		seen[v] = true
		for i, e := range ph.Edges {
			pred := ph.Block().Preds[i]
			if imp(e, pred, seen) {
				continue
			}
			// the edge pred -> phi block itself may be an atom-false edge
			isAF := false
			for _, af := range atomFalse {
				if af.From == pred && pred.Succs[af.Succ] == ph.Block() && pred.Succs[1-af.Succ] != ph.Block() {
					isAF = true
				}
			}
			if !isAF {
				return false
			}
		}
		return true
	}
	rets := returnsOf(h)
	if len(rets) == 0 {
		return false
	}
	for _, r := range rets {
		if len(r.Results) != 1 || !imp(r.Results[0], r.Block(), map[ssa.Value]bool{}) {
			return false
		}
	}
	return true
}

// established: inside-ness of k holds whenever block b executes.
func (p *Prog) established(k Containment, b *ssa.BasicBlock) bool {
	if len(k.Conj) == 0 {
		return false
	}
	for _, g := range k.Conj {
		if !p.guardedC(b, g) {
			return false
		}
	}
	return true
}

// sameModuloClean: a and b denote the same path up to lexical cleaning.
func sameModuloClean(a, b ssa.Value) bool {
	strip := func(v ssa.Value) ssa.Value {
		for i := 0; i < 4; i++ {
			v = canon(v)
			c := callOf(v)
			if c == nil {
				return v
			}
			o := calleeObj(c)
			if isFunc(o, "path/filepath", "Clean") || isFunc(o, "path", "Clean") {
				v = c.Call.Args[0]
				continue
			}
			return v
		}
		return v
	}
	return strip(a) == strip(b)
}

// rulePredSound — every path-containment decision in the module uses a sound
// predicate (C01.pred, shared by C04/C05/C10).
func rulePredSound(id string) func(*Checker) {
	return func(c *Checker) {
		c.rule(id, "Every path-containment decision in module code (strings.HasPrefix with a non-constant prefix, filepath.Rel followed by a '..' test, filepath.IsLocal) is a sound predicate: a prefix comparison only counts when the prefix is separator-terminated on every path (or paired with equality); Rel needs its error, the \"..\" and the \"../\" tests.", 3)
		p := c.P
		for _, fn := range p.Funcs {
			for _, k := range findContainments(fn) {
				c.check(k.Sound, id, p.FuncName(fn), k.Kind+" containment", p.Pos(k.At.Pos()), k.Why, "unsound containment predicate: "+k.Why)
			}
		}
	}
}

// feedsBoolPhi: the boolean value flows (directly or through short-circuit
// lowering) into a phi.
func feedsBoolPhi(v ssa.Value) bool {
	refs := v.Referrers()
	if refs == nil {
		return false
	}
	for _, r := range *refs {
		if _, ok := r.(*ssa.Phi); ok {
			return true
		}
	}
	return false
}

// flagReason is one way a boolean flag can have become true.
type flagReason struct {
	Cond ssa.Value // a HasPrefix call, a string equality, ...
}

// flagReasons lists the conditions whose truth can make the boolean value v
// true: v itself when it is a test; for a phi, the incoming values, where a
// constant true that arrives over the true edge of a condition stands for
// that condition (short-circuit lowering), recursively. ok is false when some
// way of becoming true cannot be attributed to a test.
func flagReasons(v ssa.Value, seen map[ssa.Value]bool) (out []flagReason, ok bool) {
	if seen[v] {
		return nil, true
	}
	seen[v] = true
	switch x := v.(type) {
	case *ssa.Const:
		if b, isB := constBool(x); isB && !b {
			return nil, true
		}
		return nil, false
	case *ssa.Call, *ssa.BinOp:
		return []flagReason{{Cond: v}}, true
	case *ssa.Phi:
		ok = true
		for i, e := range x.Edges {
			pred := x.Block().Preds[i]
			if b, isB := constBool(e); isB {
				if !b {
					continue
				}
				// true arriving from pred: pred's branch condition holds on that edge
				ifi, isIf := pred.Instrs[len(pred.Instrs)-1].(*ssa.If)
				if !isIf {
					return nil, false
				}
				cond, neg := stripNot(ifi.Cond)
				onTrue := pred.Succs[0] == x.Block()
				if onTrue == neg {
					return nil, false // arrives when the condition is false
				}
				rs, ok2 := flagReasons(cond, seen)
				if !ok2 {
					return nil, false
				}
				out = append(out, rs...)
				continue
			}
			rs, ok2 := flagReasons(e, seen)
			if !ok2 {
				return nil, false
			}
			out = append(out, rs...)
		}
		return out, ok
	}
	return nil, false
}

// anyTrueEdges: the edges on which at least one condition satisfying match is
// known to be true — the true edge of an If on such a condition, and the true
// edge of an If on a boolean built from such conditions alone by || (a phi all
// of whose ways of becoming true are matching tests, see flagReasons).
func anyTrueEdges(fn *ssa.Function, match func(ssa.Value) bool) []Edge {
	var out []Edge
	for _, b := range fn.Blocks {
		if len(b.Instrs) == 0 {
			continue
		}
		ifi, ok := b.Instrs[len(b.Instrs)-1].(*ssa.If)
		if !ok {
			continue
		}
		cond, neg := stripNot(ifi.Cond)
		okc := match(cond)
		if !okc {
			if _, isPhi := cond.(*ssa.Phi); isPhi {
				rs, okF := flagReasons(cond, map[ssa.Value]bool{})
				okc = okF && len(rs) > 0
				for _, r := range rs {
					if !match(r.Cond) {
						okc = false
					}
				}
			}
		}
		if !okc {
			continue
		}
		t := 0
		if neg {
			t = 1
		}
		out = append(out, Edge{b, t})
	}
	return out
}
