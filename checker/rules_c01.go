package main

import (
	"fmt"
	"go/token"
	"go/types"
	"io/fs"
	"sort"
	"strings"

	"golang.org/x/tools/go/ssa"
)

func init() {
	register("C01", &propDef{
		Title:           "Unpack never touches anything outside the destination directory",
		ConfigSensitive: true,
		Rules:           []func(*Checker){ruleC01Sinks, ruleC01Ctor, ruleC01Guards, rulePredSound("C01.pred"), ruleC01Walk, ruleC01NoFollow, ruleC01Replace, ruleLinkRestore("C01.linkrestore"), rulePackerWriters("C01.percall"), ruleC04Relative("C01.relative")},
		NotDecided: []string{
			"whether a lexically accepted link resolves physically inside dst (depends on other links; see C04)",
			"the bound of the parent walk (it stops before the final component; the final component is covered by C01.nofollow)",
			"behaviour of os.MkdirAll itself and concurrent modification of dst by other processes",
			"the arithmetic inside the recognised containment predicates (filepath.Rel / prefix comparison are trusted library semantics)",
		},
	})
}

// unpackCtx gathers the role-anchored constructs of the unpack side.
type unpackCtx struct {
	Unpack   *ssa.Function
	Reach    map[*ssa.Function]bool
	ReachL   []*ssa.Function
	PathVar  *types.Var
	Ctor     *ssa.Function // the function that validates a header and builds UnpackInfo
	CtorCall *ssa.Call     // its call in Unpack
	Info     ssa.Value     // the UnpackInfo result in Unpack
	CtorOK   []Edge        // edges on which the constructor's error is nil
	CtorErr  []Edge
	VCalls   []vsite // calls Unpack makes directly or through private helpers
}

// siteOf: the call instruction in Unpack through which the given call (in
// Unpack or a private helper) is made.
func (u *unpackCtx) siteOf(in ssa.CallInstruction) ssa.CallInstruction {
	for _, v := range u.VCalls {
		if v.Inner == in {
			return v.Site
		}
	}
	return nil
}

func getUnpackCtx(c *Checker, rule string) *unpackCtx {
	p := c.P
	u := &unpackCtx{}
	u.Unpack = p.Fn("slug", "Packer.Unpack")
	if u.Unpack == nil {
		c.anchorMissing(rule, "(*slug.Packer).Unpack")
		return nil
	}
	u.PathVar = p.FieldVar("unpackinfo", "UnpackInfo", "Path")
	if u.PathVar == nil {
		c.anchorMissing(rule, "unpackinfo.UnpackInfo.Path")
		return nil
	}
	u.Reach = p.reach(u.Unpack)
	u.ReachL = sortedFuncs(u.Reach)
	// constructor: the functions that store to UnpackInfo.Path
	writers := pathWriters(p, u.PathVar)
	for _, ci := range callsIn(u.Unpack) {
		call, ok := ci.(*ssa.Call)
		if !ok {
			continue
		}
		g := call.Common().StaticCallee()
		if g != nil && writers[g] {
			u.Ctor, u.CtorCall = g, call
			break
		}
	}
	if u.Ctor == nil {
		c.anchorMissing(rule, "a call in Unpack to the function that builds UnpackInfo.Path")
		return nil
	}
	u.Info = extractOf(u.CtorCall, 0)
	u.CtorOK, u.CtorErr = okEdgesOfCall(u.CtorCall)
	u.VCalls = p.vcalls(u.Unpack, 3)
	return u
}

func pathWriters(p *Prog, pathVar *types.Var) map[*ssa.Function]bool {
	out := map[*ssa.Function]bool{}
	for _, fn := range p.Funcs {
		eachInstr(fn, func(in ssa.Instruction) {
			if st, ok := in.(*ssa.Store); ok {
				if fa, ok := st.Addr.(*ssa.FieldAddr); ok && fieldOf(fa) == pathVar {
					if s, isC := constString(st.Val); isC && s == "" {
						return
					}
					out[fn] = true
				}
			}
		})
	}
	return out
}

func leafDesc(p *Prog, l Leaf) string {
	switch l.Kind {
	case "field":
		if l.Field != nil {
			return "field " + l.Field.Name()
		}
		return "field ?"
	case "call":
		return "result of " + shortCallee(fullName(l.Callee))
	case "param":
		return "parameter " + l.V.Name() + " of " + p.FuncName(l.V.Parent())
	case "const":
		return "constant " + l.V.String()
	case "global":
		return "global " + l.V.Name()
	}
	if l.V != nil {
		return l.Kind + " " + l.V.String()
	}
	return l.Kind
}

// C01.sinks — provenance of every filesystem-mutating call reachable from Unpack.
func ruleC01Sinks(c *Checker) {
	const R = "C01.sinks"
	c.rule(R, "Every filesystem-mutating call reachable from (*Packer).Unpack takes its path only from the Path field of an UnpackInfo (or filepath.Dir of it). Calls into os/syscall/unix that take a string and are in neither the sink nor the read-only table are refused as unclassified.", 5)
	u := getUnpackCtx(c, R)
	if u == nil {
		return
	}
	p := c.P
	roles := map[string]int{}
	for _, s := range fsSinkSites(u.ReachL) {
		fnName := p.FuncName(s.Fn)
		pos := p.Pos(s.Call.Pos())
		if s.Class == "unknown" {
			c.fail(R, fnName, shortCallee(s.Name), pos, "unclassified library call taking a string reachable from Unpack: "+s.Name+" (add it to the sink or read-only table after reading its documentation)")
			continue
		}
		roles[s.Sink.Class]++
		for _, ai := range s.Sink.PathArgs {
			args := s.Call.Common().Args
			if ai >= len(args) {
				continue
			}
			var bad []string
			leaves := p.origins(args[ai], 3)
			for _, l := range leaves {
				if l.Kind == "field" && l.Field == u.PathVar {
					continue
				}
				bad = append(bad, leafDesc(p, l))
			}
			sort.Strings(bad)
			bad = uniq(bad)
			c.check(len(bad) == 0 && len(leaves) > 0, R, fnName, fmt.Sprintf("%s(arg%d)", shortCallee(s.Name), ai), pos,
				"path originates only from UnpackInfo.Path",
				"path of a mutating call does not come (only) from a validated UnpackInfo.Path; other origins: "+strings.Join(bad, ", "))
			// the parent of an entry's path is only ever made (MkdirAll, a no-op where it exists): for an entry
			// that names the root of the slug the parent is the destination's parent, outside it
			if s.Sink.Class != "mkdir" {
				viaDir := false
				for w := range p.backSlice(args[ai], 3) {
					if cl, ok := w.(*ssa.Call); ok {
						if o := calleeObj(cl); isFunc(o, "path/filepath", "Dir") || isFunc(o, "path", "Dir") {
							viaDir = true
						}
					}
				}
				c.check(!viaDir, R, fnName, fmt.Sprintf("%s(arg%d) not the parent", shortCallee(s.Name), ai), pos,
					"the path is the entry's own, not filepath.Dir of it",
					"a call that changes what is at its path is given filepath.Dir of an entry's path: for an entry that names the slug's root (./, ., a/..) that is the parent of the destination, whose mode, times or contents are then changed")
			}
		}
	}
	for _, role := range []string{"mkdir", "create", "symlink", "chmod", "chtimes"} {
		c.check(roles[role] > 0, R, "-", "role:"+role, "-", fmt.Sprintf("%d %s sink(s) reachable from Unpack", roles[role], role),
			"no "+role+" sink is reachable from Unpack any more: the sink enumeration is incomplete or Unpack no longer materialises this kind")
	}
}

func uniq(s []string) []string {
	var out []string
	for i, x := range s {
		if i == 0 || x != s[i-1] {
			out = append(out, x)
		}
	}
	return out
}

// C01.ctor — a single validated constructor for UnpackInfo.Path.
func ruleC01Ctor(c *Checker) {
	const R = "C01.ctor"
	c.rule(R, "UnpackInfo.Path is stored in exactly one function, the validator that Unpack calls for every header; so 'comes from UnpackInfo.Path' means 'went through that function'.", 1)
	u := getUnpackCtx(c, R)
	if u == nil {
		return
	}
	p := c.P
	for _, fn := range sortedFuncs(pathWriters(p, u.PathVar)) {
		c.check(fn == u.Ctor, R, p.FuncName(fn), "store UnpackInfo.Path", p.Pos(fn.Pos()),
			"the only writer is the validator called by Unpack",
			"UnpackInfo.Path is also written in "+p.FuncName(fn)+", outside the validating constructor "+p.FuncName(u.Ctor))
	}
	// the constructor is called on the header obtained from the tar reader, for every entry:
	// its call must not be skippable other than by the empty-name continue (checked in C12.whole/C15).
	hdrOK := false
	for _, a := range u.CtorCall.Call.Args {
		if cl := callOf(canon(a)); cl != nil && isMethod(calleeObj(cl), "archive/tar", "Reader", "Next") {
			hdrOK = true
		}
	}
	c.check(hdrOK, R, p.FuncName(u.Unpack), "ctor argument", p.Pos(u.CtorCall.Pos()),
		"constructor receives the header returned by (*tar.Reader).Next", "the validating constructor is not applied to the header read from the archive")
	// every use of header.Name/Linkname as a path must go through it: covered by C01.sinks.
}

// C01.guards — the success return of the constructor is guarded by a sound
// containment test; in Unpack every sink follows the constructor's ok edge.
func ruleC01Guards(c *Checker) {
	const R = "C01.guards"
	c.rule(R, "In the UnpackInfo constructor every success return is guarded by the inside-edge of a containment decision between the joined entry path and dst, the outside edge returning an error; in Unpack the constructor's error edge returns a non-nil error and every mutating call (in any callee, on every route) executes only after the constructor's ok edge.", 3)
	u := getUnpackCtx(c, R)
	if u == nil {
		return
	}
	p := c.P
	F := u.Ctor
	fname := p.FuncName(F)
	// values stored to Path
	var pathVals []ssa.Value
	eachInstr(F, func(in ssa.Instruction) {
		if st, ok := in.(*ssa.Store); ok {
			if fa, ok := st.Addr.(*ssa.FieldAddr); ok && fieldOf(fa) == u.PathVar {
				if s, isC := constString(st.Val); isC && s == "" {
					return
				}
				pathVals = append(pathVals, st.Val)
			}
		}
	})
	ks := findContainments(F)
	var rel []Containment
	for _, k := range ks {
		for _, pv := range pathVals {
			if sameModuloClean(k.Subject, pv) {
				rel = append(rel, k)
				break
			}
		}
	}
	if len(rel) == 0 {
		c.fail(R, fname, "containment", p.Pos(F.Pos()), "no containment decision on the value stored in UnpackInfo.Path was found in the constructor")
	}
	succ := successReturns(F)
	if len(succ) == 0 {
		c.anchorMissing(R, "a success return in "+fname)
	}
	for _, k := range rel {
		// root must be (derived from) a parameter that also feeds the path
		rootOK := k.Kind == "islocal"
		if k.Root != nil {
			for _, l := range p.origins(k.Root, 0) {
				if l.Kind == "param" {
					for _, pv := range pathVals {
						if p.backSlice(pv, 0)[l.V] {
							rootOK = true
						}
					}
				}
			}
		}
		c.check(rootOK, R, fname, "containment root", p.Pos(k.At.Pos()), "containment is decided against the destination parameter that the path was joined onto",
			"the containment test does not compare against the destination directory the entry path was joined onto")
		for i, r := range succ {
			c.check(p.established(k, r.Block()), R, fname, fmt.Sprintf("success return %d", i), p.Pos(r.Pos()),
				"guarded by the inside-edge(s) of the "+k.Kind+" containment test", "a success return is reachable without passing the inside-edge of the containment test")
		}
		// outside edges return errors
		for _, g := range k.Conj {
			for _, e := range g {
				other := Edge{e.From, 1 - e.Succ}
				if isAlternativeIn(other, k) {
					continue
				}
				okr, r := returnsNonNilErrorOrRejoins(other, k)
				pos := p.Pos(e.From.Instrs[len(e.From.Instrs)-1].Pos())
				if r != nil {
					pos = p.Pos(r.Pos())
				}
				c.check(okr, R, fname, "outside edge", pos, "the outside edge leads to a non-nil error", "the outside edge of the containment test can reach a return without error")
			}
		}
	}
	// In Unpack: error edge of the constructor returns non-nil
	if len(u.CtorErr) == 0 {
		c.fail(R, p.FuncName(u.Unpack), "ctor error test", p.Pos(u.CtorCall.Pos()), "the constructor's error result is not tested")
	}
	for _, e := range u.CtorErr {
		okr, _ := returnsNonNilErrorFrom(e.To())
		c.check(okr, R, p.FuncName(u.Unpack), "ctor error edge", p.Pos(u.CtorCall.Pos()), "error edge returns a non-nil error", "the constructor's error edge can continue or return nil")
	}
	// every sink on every route after the ok edge
	for _, s := range fsSinkSites(u.ReachL) {
		ok, why := p.guardedOnEveryRoute(s.Call, u.Unpack, func(in ssa.Instruction) bool {
			if p.guardedC(in.Block(), u.CtorOK) {
				return true
			}
			// a deferred use of recorded entries: every recording append must be guarded
			if cl, isCall := in.(*ssa.Call); isCall && argFromSliceElem(cl) {
				n, all := 0, true
				eachInstr(u.Unpack, func(x ssa.Instruction) {
					if ap, ok := x.(*ssa.Call); ok {
						if b, ok := ap.Call.Value.(*ssa.Builtin); ok && b.Name() == "append" && isUnpackInfoSlice(ap.Type()) {
							n++
							if !p.guardedC(ap.Block(), u.CtorOK) {
								all = false
							}
						}
					}
				})
				return n > 0 && all
			}
			return false
		}, 4)
		c.check(ok, R, p.FuncName(s.Fn), shortCallee(s.Name)+" after validation", p.Pos(s.Call.Pos()),
			"executes only after the constructor's ok edge (on every route from Unpack)", "a mutating call can execute before/without a successful validation: "+why)
	}
}

// isAlternativeIn: the "other" edge of a test that is itself one of the
// alternatives to get in (e.g. the false edge of `p == root` leads on to the
// HasPrefix test).
func isAlternativeIn(e Edge, k Containment) bool { return false }

// returnsNonNilErrorOrRejoins: from an outside edge, every return carries a
// non-nil error; for disjunctive groups (equal || hasprefix) the outside edge
// of the first test may lead to the second test, which is fine as long as it
// cannot reach a success return without passing another edge of the group.
func returnsNonNilErrorOrRejoins(e Edge, k Containment) (bool, *ssa.Return) {
	fn := e.From.Parent()
	// cut all inside edges; from e.To(), any return reachable must be an error
	var cut []Edge
	for _, g := range k.Conj {
		cut = append(cut, g...)
	}
	seen := map[*ssa.BasicBlock]bool{e.To(): true}
	work := []*ssa.BasicBlock{e.To()}
	isCut := func(b *ssa.BasicBlock, i int) bool {
		for _, x := range cut {
			if x.From == b && x.Succ == i {
				return true
			}
		}
		return false
	}
	_ = fn
	for len(work) > 0 {
		b := work[len(work)-1]
		work = work[:len(work)-1]
		if r, ok := b.Instrs[len(b.Instrs)-1].(*ssa.Return); ok && len(r.Results) > 0 {
			li := len(r.Results) - 1
			if isErrorType(r.Results[li].Type()) {
				for _, v := range returnValues(r, li) {
					if v == nil || isNilConst(v) {
						return false, r
					}
				}
			} else if isBoolType(r.Results[0].Type()) {
				// (bool, error) validators: outside must not return true
				if bv, ok := constBool(r.Results[0]); !ok || bv {
					return false, r
				}
			}
		}
		for i, s := range b.Succs {
			if isCut(b, i) {
				continue
			}
			if !seen[s] {
				seen[s] = true
				work = append(work, s)
			}
		}
	}
	return true, nil
}

func isBoolType(t types.Type) bool {
	b, ok := t.Underlying().(*types.Basic)
	return ok && b.Kind() == types.Bool
}

// definitelyNonNilErr: the value is a freshly made error (errors.New,
// fmt.Errorf, a concrete value converted to the error interface).
func definitelyNonNilErr(v ssa.Value) bool {
	switch x := v.(type) {
	case *ssa.MakeInterface:
		return true
	case *ssa.Call:
		o := calleeObj(x)
		return isFunc(o, "errors", "New") || isFunc(o, "fmt", "Errorf")
	case *ssa.UnOp:
		// exported sentinel errors of libraries (filepath.ErrBadPattern, io.EOF, filepath.SkipDir) are non-nil
		if g, ok := x.X.(*ssa.Global); ok && x.Op == token.MUL {
			n := g.Name()
			return strings.HasPrefix(n, "Err") || strings.HasPrefix(n, "err") || n == "EOF" || n == "SkipDir" || n == "SkipAll"
		}
	case *ssa.Phi:
		for _, e := range x.Edges {
			if !definitelyNonNilErr(e) {
				return false
			}
		}
		return true
	}
	return false
}

// mayReturnNilErr: can the Return yield a nil error as its last result?
func mayReturnNilErr(r *ssa.Return) bool {
	if len(r.Results) == 0 {
		return true
	}
	li := len(r.Results) - 1
	if !isErrorType(r.Results[li].Type()) {
		return true
	}
	fn := r.Parent()
	for _, v := range returnValues(r, li) {
		if v == nil || isNilConst(v) {
			return true
		}
		if definitelyNonNilErr(v) {
			continue
		}
		// a merge of several error returns (what `return helper(…)` or several `return …, err` become
		// when they share a block): each incoming value is judged where it comes from
		if ph, ok := v.(*ssa.Phi); ok && ph.Block() == r.Block() && instrIndex(ph) < instrIndex(r) {
			all := true
			for i, e := range ph.Edges {
				if definitelyNonNilErr(e) {
					continue
				}
				nn, _ := errCheckEdges(fn, e)
				if len(nn) > 0 && guarded(ph.Block().Preds[i], nn) {
					continue
				}
				// … or the incoming edge is itself the non-nil edge of the test
				onEdge := false
				for _, ne := range nn {
					if ne.From == ph.Block().Preds[i] && ne.To() == ph.Block() {
						onEdge = true
					}
				}
				if onEdge {
					continue
				}
				all = false
			}
			if all {
				continue
			}
		}
		// a variable: non-nil only if this return sits on its non-nil edge
		nn, _ := errCheckEdges(fn, v)
		if guarded(r.Block(), nn) {
			continue
		}
		// a load of a cell (captured variable / named result): tested through another load of the
		// same cell, with no store to the cell between the test and this return
		if ld, ok := v.(*ssa.UnOp); ok && ld.Op == token.MUL {
			if cellNonNilAt(fn, ld.X, r.Block()) {
				continue
			}
			// or every store that can reach this load puts a fresh error there
			if vals, ok := cellValuesAt(ld); ok && len(vals) > 0 {
				all := true
				for _, sv := range vals {
					if sv == nil || isNilConst(sv) || !definitelyNonNilErr(sv) {
						all = false
					}
				}
				if all {
					continue
				}
			}
		}
		// or it is the error of a (bool, error) validator returned on its false edge
		if ex, ok := v.(*ssa.Extract); ok {
			if cl, ok := ex.Tuple.(*ssa.Call); ok {
				if b0 := extractOf(cl, 0); b0 != nil && isBoolType(b0.Type()) {
					_, fE := boolEdges(fn, b0)
					if guarded(r.Block(), fE) && validatorFalseMeansErr(cl) {
						continue
					}
				}
			}
		}
		return true
	}
	return false
}

// cellValuesAt: the values a load of a local cell can see — the nearest store
// on every path back from the load (nil for the zero value at entry). Only for
// cells nothing but this function writes: closures that capture the cell may
// read it, not store to it.
func cellValuesAt(ld *ssa.UnOp) ([]ssa.Value, bool) {
	cell, ok := ld.X.(*ssa.Alloc)
	if !ok {
		return nil, false
	}
	if refs := cell.Referrers(); refs != nil {
		for _, r := range *refs {
			switch x := r.(type) {
			case *ssa.Store:
				if x.Addr != ssa.Value(cell) {
					return nil, false // the address itself is stored somewhere
				}
			case *ssa.UnOp, *ssa.DebugRef:
			case *ssa.MakeClosure:
				cfn, _ := x.Fn.(*ssa.Function)
				if cfn == nil {
					return nil, false
				}
				for i, b := range x.Bindings {
					if b != ssa.Value(cell) || i >= len(cfn.FreeVars) {
						continue
					}
					if fr := cfn.FreeVars[i].Referrers(); fr != nil {
						for _, u := range *fr {
							switch y := u.(type) {
							case *ssa.UnOp, *ssa.DebugRef:
							default:
								_ = y
								return nil, false
							}
						}
					}
				}
			default:
				return nil, false
			}
		}
	}
	var out []ssa.Value
	seen := map[*ssa.BasicBlock]bool{}
	var walk func(b *ssa.BasicBlock, from int)
	walk = func(b *ssa.BasicBlock, from int) {
		for i := from; i >= 0; i-- {
			if st, ok := b.Instrs[i].(*ssa.Store); ok && st.Addr == ssa.Value(cell) {
				// a copy of the cell onto itself (`return "", err` with a named result) is what it held before
				if l2, ok := st.Val.(*ssa.UnOp); ok && l2.Op == token.MUL && l2.X == ssa.Value(cell) && l2.Block() == b && instrIndex(l2) < i {
					i = instrIndex(l2)
					continue
				}
				out = append(out, st.Val)
				return
			}
		}
		if len(b.Preds) == 0 {
			out = append(out, nil)
			return
		}
		for _, p := range b.Preds {
			if !seen[p] {
				seen[p] = true
				walk(p, len(p.Instrs)-1)
			}
		}
	}
	walk(ld.Block(), instrIndex(ld)-1)
	return out, true
}

// validatorFalseMeansErr: the static callee returns a non-nil error on every
// return whose first (bool) result may be false.
func validatorFalseMeansErr(cl *ssa.Call) bool {
	g := cl.Common().StaticCallee()
	if g == nil || g.Blocks == nil {
		return false
	}
	for _, r := range returnsOf(g) {
		if len(r.Results) != 2 {
			return false
		}
		bv, isC := constBool(r.Results[0])
		if isC && bv {
			continue
		}
		for _, v := range returnValues(r, 1) {
			if v == nil || isNilConst(v) || !definitelyNonNilErr(v) {
				return false
			}
		}
	}
	return true
}

// successReturns: returns whose error (last) result may be nil.
func successReturns(fn *ssa.Function) []*ssa.Return {
	var out []*ssa.Return
	for _, r := range returnsOf(fn) {
		if mayReturnNilErr(r) {
			out = append(out, r)
		}
	}
	return out
}

// guardedOnEveryRoute: the instruction satisfies pred in its own function if
// that function is `top`; otherwise every call site (in module code) of its
// function must, recursively, satisfy it. Closures are handled through their
// creation site. depth bounds the chain.
func (p *Prog) guardedOnEveryRoute(in ssa.Instruction, top *ssa.Function, pred func(ssa.Instruction) bool, depth int) (bool, string) {
	fn := in.Parent()
	if fn == top {
		if pred(in) {
			return true, ""
		}
		return false, "unguarded at " + p.Pos(in.Pos())
	}
	if depth == 0 {
		return false, "call chain too deep at " + p.FuncName(fn)
	}
	var sites []ssa.Instruction
	for _, cs := range p.callersOf(fn) {
		sites = append(sites, cs)
	}
	for _, mc := range closureSites(fn) {
		sites = append(sites, mc)
	}
	// method values / interface dispatch: look for invoke sites that may reach fn
	if len(sites) == 0 {
		for _, g := range p.Funcs {
			for _, cs := range callsIn(g) {
				if cs.Common().IsInvoke() {
					for _, t := range p.implementers(cs.Common()) {
						if t == fn {
							sites = append(sites, cs)
						}
					}
				}
			}
		}
	}
	if len(sites) == 0 {
		return false, "no call site of " + p.FuncName(fn) + " found"
	}
	reachTop := p.reach(top)
	n := 0
	for _, s := range sites {
		if !reachTop[s.Parent()] {
			continue // a caller that Unpack cannot reach is not a route from top
		}
		n++
		if ok, why := p.guardedOnEveryRoute(s, top, pred, depth-1); !ok {
			return false, why
		}
	}
	if n == 0 {
		return false, "no route from " + p.FuncName(top)
	}
	return true, ""
}

// C01.walk — the components the symlink walk inspects are those of the
// effective (cleaned) path.
func ruleC01Walk(c *Checker) {
	const R = "C01.walk"
	c.rule(R, "The constructor contains a loop that os.Lstat()s path prefixes (Lstat, not Stat) built from dst and the components of the cleaned entry path; a symlink on the way leads to an error return; the path walked is derived from the cleaned join, not from the raw header name.", 3)
	u := getUnpackCtx(c, R)
	if u == nil {
		return
	}
	p := c.P
	F := u.Ctor
	fname := p.FuncName(F)
	var lstats []*ssa.Call
	for H := range p.family(F) {
		for _, ci := range callsTo(H, func(o *types.Func) bool { return isFunc(o, "os", "Lstat") }) {
			if call, ok := ci.(*ssa.Call); ok && inLoop(call.Block()) {
				lstats = append(lstats, call)
			}
		}
	}
	sort.Slice(lstats, func(i, j int) bool { return lstats[i].Pos() < lstats[j].Pos() })
	if len(lstats) == 0 {
		c.fail(R, fname, "lstat walk", p.Pos(F.Pos()), "no os.Lstat call inside a loop in the constructor (or its private helpers): the per-component symlink walk is missing (os.Stat follows links and does not count)")
		return
	}
	succ := successReturns(F)
	vc := p.vcalls(F, 3)
	for _, ls := range lstats {
		H := ls.Parent()
		pos := p.Pos(ls.Pos())
		// (1) walked path is sound
		ok, why := walkSound(ls.Call.Args[0], H, map[ssa.Value]bool{})
		c.check(ok, R, fname, "walked path", pos, "Lstat argument is dst joined with components split from the cleaned relative path", "the walked path is not derived from the cleaned entry path: "+why)
		// (1b) ... and lies below the destination: what is examined is a join made in this round (dst or a
		// prefix with one more component on top), or a value the loop has just found different from the root
		// it climbs towards. The destination itself is not the slug's: it may be a link to the directory the
		// caller wants filled, and a walk that examines it refuses every entry.
		{
			arg := canon(ls.Call.Args[0])
			below := ""
			if cl := callOf(arg); cl != nil && isFunc(calleeObj(cl), "path/filepath", "Join") && len(cl.Call.Args) >= 1 {
				below = "a join made in the same round"
			}
			if below == "" {
				neT, _ := condEdges(H, func(v ssa.Value) bool {
					bo, ok := v.(*ssa.BinOp)
					return ok && bo.Op == token.NEQ && (canon(bo.X) == arg || canon(bo.Y) == arg)
				})
				_, eqF := condEdges(H, func(v ssa.Value) bool {
					bo, ok := v.(*ssa.BinOp)
					return ok && bo.Op == token.EQL && (canon(bo.X) == arg || canon(bo.Y) == arg)
				})
				if guarded(ls.Block(), append(neT, eqF...)) {
					below = "past a test that it differs from the root the loop climbs to"
				}
			}
			c.check(below != "", R, fname, "walked path below the destination", pos, below, "the value examined can be the destination directory itself (the loop's start value, or the parent of a value that was not compared with the root first): a destination that is a symlink to the directory to fill makes every entry fail with 'through symlink'")
		}
		// (2) symlink edge -> error
		fi := extractOf(ls, 0)
		found := false
		if fi != nil {
			tE, _ := symlinkEdges(H, fi)
			for _, e := range tE {
				found = true
				okr, r := returnsNonNilErrorFrom(e.To())
				rp := pos
				if r != nil {
					rp = p.Pos(r.Pos())
				}
				c.check(okr, R, fname, "symlink edge", rp, "a symlink component leads to a non-nil error", "the symlink edge of the walk can reach a non-error return")
			}
		}
		if !found {
			c.fail(R, fname, "symlink edge", pos, "the Lstat result is not tested for ModeSymlink")
		}
		// (3) the walk precedes every success return of the constructor
		if H == F {
			for i, r := range succ {
				c.check(dominatesBlock(loopHeadOf(ls.Block()), r.Block()), R, fname, fmt.Sprintf("walk before success %d", i), p.Pos(r.Pos()),
					"the walk loop dominates the success return", "a success return can be reached without entering the symlink walk")
			}
		} else {
			var site *ssa.Call
			for _, v := range vc {
				if v.Inner == ssa.CallInstruction(ls) {
					site, _ = v.Site.(*ssa.Call)
				}
			}
			if site == nil {
				c.fail(R, fname, "walk helper call", pos, "the helper containing the symlink walk is not called from the constructor")
			} else {
				okE, errE := okEdgesOfCall(site)
				okErr := len(errE) > 0
				for _, e := range errE {
					if r2, _ := returnsNonNilErrorFrom(e.To()); !r2 {
						okErr = false
					}
				}
				c.check(okErr, R, fname, "walk helper error returned", p.Pos(site.Pos()), "a failed walk makes the constructor fail", "the result of the symlink walk helper is ignored")
				for i, r := range succ {
					c.check(guarded(r.Block(), okE), R, fname, fmt.Sprintf("walk before success %d", i), p.Pos(r.Pos()), "the success return lies past the walk helper's ok edge", "a success return can be reached without the symlink walk having succeeded")
				}
			}
		}
		// (4) an Lstat error other than not-exist returns an error
		if ev := extractOf(ls, 1); ev != nil {
			nn, _ := errCheckEdges(H, ev)
			for _, e := range nn {
				okr, _ := returnsNonNilErrorFrom(e.To())
				c.check(okr, R, fname, "lstat error edge", pos, "an Lstat failure returns an error", "an Lstat failure does not lead to an error return")
			}
		}
	}
}

func dominatesBlock(a, b *ssa.BasicBlock) bool {
	if a == nil || b == nil {
		return false
	}
	return a == b || blockDominates(a, b)
}

// loopHeadOf: the outermost dominator of b that is in the same cycle.
func loopHeadOf(b *ssa.BasicBlock) *ssa.BasicBlock {
	head := b
	for d := idomOf(b); d != nil; d = idomOf(d) {
		if inLoop(d) && reaches(b, d) && reaches(d, b) {
			head = d
		}
	}
	return head
}

func reaches(a, b *ssa.BasicBlock) bool {
	seen := map[*ssa.BasicBlock]bool{}
	work := []*ssa.BasicBlock{a}
	for len(work) > 0 {
		x := work[len(work)-1]
		work = work[:len(work)-1]
		for _, s := range x.Succs {
			if s == b {
				return true
			}
			if !seen[s] {
				seen[s] = true
				work = append(work, s)
			}
		}
	}
	return false
}

// symlinkTest recognises the spellings of "is this a symbolic link" on a mode
// obtained from a FileInfo's Mode():  m&ModeSymlink != 0 (== 0),
// m.Type() == ModeSymlink (!=), m&ModeType == ModeSymlink (!=), m.Type()&ModeSymlink != 0 (== 0).
// It returns the FileInfo value and whether the comparison being TRUE means "is a link".
func symlinkTest(v ssa.Value) (fi ssa.Value, trueIsLink bool, ok bool) {
	const modeSymlink = 1 << 27
	const modeType = int64(fs.ModeType)
	bo, isBo := v.(*ssa.BinOp)
	if !isBo || (bo.Op != token.NEQ && bo.Op != token.EQL) {
		return nil, false, false
	}
	// the mode value: Mode() of something, possibly through Type()
	modeOf := func(x ssa.Value) (ssa.Value, bool) {
		x = canon(x)
		if cl, isCall := x.(*ssa.Call); isCall && !cl.Call.IsInvoke() {
			if o := calleeObj(cl); o != nil && o.Name() == "Type" && objPkgPath(o) == "io/fs" && len(cl.Call.Args) == 1 {
				x = canon(cl.Call.Args[0])
			}
		}
		cl, isCall := x.(*ssa.Call)
		if !isCall || !cl.Call.IsInvoke() || cl.Call.Method.Name() != "Mode" {
			// a mode handed over as a value (the classifier's parameter) stands for itself
			if n, isN := types.Unalias(x.Type()).(*types.Named); isN && n.Obj().Name() == "FileMode" && n.Obj().Pkg() != nil && n.Obj().Pkg().Path() == "io/fs" {
				return x, true
			}
			return nil, false
		}
		return cl.Call.Value, true
	}
	lhs, rhs := bo.X, bo.Y
	if _, isC := constInt(lhs); isC {
		lhs, rhs = rhs, lhs
	}
	k, isC := constInt(rhs)
	if !isC {
		return nil, false, false
	}
	if and, isAnd := lhs.(*ssa.BinOp); isAnd && and.Op == token.AND {
		m, isM := constInt(and.Y)
		x := and.X
		if !isM {
			m, isM = constInt(and.X)
			x = and.Y
		}
		if !isM {
			return nil, false, false
		}
		f, okf := modeOf(x)
		if !okf {
			return nil, false, false
		}
		switch {
		case m == modeSymlink && k == 0:
			return f, bo.Op == token.NEQ, true
		case m == modeSymlink && k == modeSymlink:
			return f, bo.Op == token.EQL, true
		case m == modeType && k == modeSymlink:
			return f, bo.Op == token.EQL, true
		}
		return nil, false, false
	}
	// m.Type() == ModeSymlink
	if k != modeSymlink {
		return nil, false, false
	}
	if cl, isCall := canon(lhs).(*ssa.Call); isCall && !cl.Call.IsInvoke() {
		if o := calleeObj(cl); o != nil && o.Name() == "Type" && objPkgPath(o) == "io/fs" {
			if f, okf := modeOf(cl); okf {
				return f, bo.Op == token.EQL, true
			}
		}
	}
	return nil, false, false
}

// isSymlinkModeTest: v is one of those tests, on the given FileInfo value (any, when fi is nil).
func isSymlinkModeTest(v ssa.Value, fi ssa.Value) bool {
	f, _, ok := symlinkTest(v)
	return ok && (fi == nil || canon(f) == canon(fi))
}

// symlinkEdges: the edges on which a symlink test of fi's mode says "is a link" / "is not".
func symlinkEdges(fn *ssa.Function, fi ssa.Value) (isLink, notLink []Edge) {
	tE, fE := condEdges(fn, func(v ssa.Value) bool { return isSymlinkModeTest(v, fi) })
	pol := func(e Edge) bool { // true: the matched comparison being true means "is a link"
		ifi := e.From.Instrs[len(e.From.Instrs)-1].(*ssa.If)
		cnd, _ := stripNot(ifi.Cond)
		_, t, _ := symlinkTest(cnd)
		return t
	}
	for _, e := range tE {
		if pol(e) {
			isLink = append(isLink, e)
		} else {
			notLink = append(notLink, e)
		}
	}
	for _, e := range fE {
		if pol(e) {
			notLink = append(notLink, e)
		} else {
			isLink = append(isLink, e)
		}
	}
	return
}

// cleanedValue: the value is the result of a lexically cleaning library call
// (or a slice / prefix-trim / phi of such).
func cleanedValue(v ssa.Value, seen map[ssa.Value]bool) bool {
	v = cx(v)
	if seen[v] {
		return true
	}
	seen[v] = true
	switch x := v.(type) {
	case *ssa.Phi:
		for _, e := range x.Edges {
			if !cleanedValue(e, seen) {
				return false
			}
		}
		return true
	case *ssa.Slice:
		return cleanedValue(x.X, seen)
	}
	if cl := callOf(v); cl != nil {
		o := calleeObj(cl)
		for _, n := range []string{"Clean", "Join", "Rel", "Abs", "EvalSymlinks", "Dir"} {
			if isFunc(o, "path/filepath", n) {
				return true
			}
		}
		// result of a module function: every value it can return (on success) is cleaned
		if g := cl.Common().StaticCallee(); g != nil && gp != nil && gp.InModule(g) && len(seen) < 64 {
			idx := 0
			if ex, ok := v.(*ssa.Extract); ok {
				idx = ex.Index
			}
			all, n := true, 0
			for _, r := range successReturns(g) {
				for _, rv := range returnValues(r, idx) {
					n++
					if rv == nil || !cleanedValue(rv, seen) {
						all = false
					}
				}
			}
			if all && n > 0 {
				return true
			}
		}
		if isFunc(o, "strings", "TrimPrefix") || isFunc(o, "strings", "TrimSuffix") {
			return cleanedValue(cl.Call.Args[0], seen)
		}
	}
	return false
}

// walkSound: the Lstat argument is dst, or Join of walk-sound values and
// components split from a cleaned value, or Dir/Clean of a cleaned value.
func walkSound(v ssa.Value, F *ssa.Function, seen map[ssa.Value]bool) (bool, string) {
	v = cx(v)
	if seen[v] {
		return true, ""
	}
	seen[v] = true
	switch x := v.(type) {
	case *ssa.Parameter:
		return true, ""
	case *ssa.Phi:
		for _, e := range x.Edges {
			if ok, why := walkSound(e, F, seen); !ok {
				return false, why
			}
		}
		return true, ""
	case *ssa.UnOp:
		if x.Op == token.MUL {
			if ia, ok := x.X.(*ssa.IndexAddr); ok {
				// element of a slice: must be Split(cleaned, sep)
				base := canon(ia.X)
				if sl, ok := base.(*ssa.Slice); ok {
					base = canon(sl.X) // components[:len-1]
				}
				if cl := callOf(base); cl != nil && (isFunc(calleeObj(cl), "strings", "Split") || isFunc(calleeObj(cl), "strings", "SplitN")) {
					if !cleanedValue(cl.Call.Args[0], map[ssa.Value]bool{}) {
						return false, "the components are split from a value that is not the cleaned path (e.g. the raw header name: 'x/../link/f' would never inspect 'link')"
					}
					if ok, why := relValue(cl.Call.Args[0], map[ssa.Value]bool{}); !ok {
						return false, why
					}
					return true, ""
				}
				return false, "component slice of unknown origin"
			}
		}
	case *ssa.Slice:
		// Join's variadic slice: check the stored elements
		if al, ok := x.X.(*ssa.Alloc); ok {
			okAll := true
			why := ""
			eachInstr(al.Parent(), func(in ssa.Instruction) {
				if st, ok := in.(*ssa.Store); ok {
					if ia, ok := st.Addr.(*ssa.IndexAddr); ok && ia.X == al {
						if ok2, w := walkSound(st.Val, F, seen); !ok2 {
							okAll, why = false, w
						}
					}
				}
			})
			return okAll, why
		}
	}
	if cl := callOf(v); cl != nil {
		o := calleeObj(cl)
		if isFunc(o, "path/filepath", "Join") {
			for _, a := range cl.Call.Args {
				if ok, why := walkSound(a, F, seen); !ok {
					return false, why
				}
			}
			return true, ""
		}
		if isFunc(o, "path/filepath", "Dir") || isFunc(o, "path/filepath", "Clean") {
			if cleanedValue(cl.Call.Args[0], map[ssa.Value]bool{}) {
				return true, ""
			}
			return walkSound(cl.Call.Args[0], F, seen)
		}
	}
	if sl, ok := v.(*ssa.Slice); ok && sl.High != nil && isStringType(sl.X.Type()) {
		return false, "a textual prefix of the joined path is inspected: which prefixes those are depends on index arithmetic over the destination as the caller spelled it, not on the components of the cleaned relative path"
	}
	if cleanedValue(v, map[ssa.Value]bool{}) {
		return true, ""
	}
	return false, "unrecognised derivation of the walked path (" + v.String() + ")"
}

// relValue: the value whose components are walked is the entry's path RELATIVE to the destination — the result of
// filepath.Rel, possibly cleaned or trimmed. A prefix cut off textually counts only when what is cut off is itself a
// cleaned value (the joined path starts with the CLEANED destination, not with the destination as spelled); the
// directory part of the relative path does not count (for a top-level entry it is ".", and the walk would inspect
// the destination itself, which may be a link).
func relValue(v ssa.Value, seen map[ssa.Value]bool) (bool, string) {
	v = cx(v)
	if seen[v] {
		return true, ""
	}
	seen[v] = true
	switch x := v.(type) {
	case *ssa.Phi:
		for _, e := range x.Edges {
			if ok, why := relValue(e, seen); !ok {
				return false, why
			}
		}
		return true, ""
	case *ssa.Slice:
		return relValue(x.X, seen)
	}
	if cl := callOf(v); cl != nil {
		o := calleeObj(cl)
		switch {
		case isFunc(o, "path/filepath", "Rel"):
			return true, ""
		case isFunc(o, "path/filepath", "Clean"), isFunc(o, "path/filepath", "ToSlash"), isFunc(o, "path/filepath", "FromSlash"):
			return relValue(cl.Call.Args[0], seen)
		case isFunc(o, "path/filepath", "Dir"):
			return false, "the components walked are those of the DIRECTORY part of the relative path: for a top-level entry that is \".\", and the walk inspects the destination itself — a destination that is a link to a directory is refused"
		case isFunc(o, "strings", "TrimPrefix"), isFunc(o, "strings", "TrimSuffix"):
			ok0, why0 := relValue(cl.Call.Args[0], seen)
			if ok0 {
				return true, ""
			}
			if _, isC := cl.Call.Args[1].(*ssa.Const); isC {
				return false, why0
			}
			if cleanedValue(cl.Call.Args[1], map[ssa.Value]bool{}) {
				return true, ""
			}
			return false, "the relative path is obtained by cutting the destination off the joined path textually: the joined path starts with the cleaned destination, the prefix cut is the destination as the caller spelled it (./out, a//b): nothing is cut, and the walk runs over the wrong components"
		}
		if g := cl.Common().StaticCallee(); g != nil && gp != nil && gp.InModule(g) && len(seen) < 64 {
			idx := 0
			if ex, ok := v.(*ssa.Extract); ok {
				idx = ex.Index
			}
			n := 0
			for _, r := range successReturns(g) {
				for _, rv := range returnValues(r, idx) {
					n++
					if rv == nil {
						return false, "a helper result of unknown origin"
					}
					if ok, why := relValue(rv, seen); !ok {
						return false, why
					}
				}
			}
			if n > 0 {
				return true, ""
			}
		}
	}
	if _, isP := v.(*ssa.Parameter); isP {
		// a helper's parameter: what it holds is decided at the call site, which the inlined form shows
		return false, "the components walked are those of a helper's parameter, and nothing here shows that it holds the path relative to the destination"
	}
	return false, "the components walked are not those of the entry's path relative to the destination (filepath.Rel)"
}

// C01.nofollow — a file or directory entry must not be written / chmod'ed /
// timestamped through a symlink in its own final component.
func ruleC01NoFollow(c *Checker) {
	const R = "C01.nofollow"
	c.rule(R, "In Unpack every call that follows a symlink in the final component of an entry path (Create, OpenFile without O_EXCL/O_NOFOLLOW, MkdirAll, Chmod, Chtimes, WriteFile, and RestoreInfo of a file/directory) executes only after the ok edge of a link-remover helper on that same entry path (a helper whose every nil return lies past an IsNotExist edge, a not-a-symlink edge, or the ok edge of os.Remove of its argument), or after a creating call that is itself so guarded; deferred directory restores take their elements only from appends so guarded.", 3)
	u := getUnpackCtx(c, R)
	if u == nil {
		return
	}
	p := c.P
	U := u.Unpack
	uname := p.FuncName(U)
	// safe points: ok edges of link-remover calls on info.Path
	var safe []Edge
	nrem := 0
	for _, ci := range callsIn(U) {
		call, ok := ci.(*ssa.Call)
		if !ok {
			continue
		}
		g := call.Common().StaticCallee()
		if g == nil || !p.InModule(g) || len(call.Call.Args) != 1 {
			continue
		}
		if !p.isLinkRemover(g) {
			continue
		}
		if !pathOfInfo(p, call.Call.Args[0], u) {
			continue
		}
		okE, _ := okEdgesOfCall(call)
		safe = append(safe, okE...)
		nrem++
	}
	// the remover written out in Unpack itself: os.Lstat of the entry path, and behind it the three ways on —
	// nothing there, not a link, or a link that os.Remove took away
	inlineRemove := map[ssa.Instruction]bool{}
	if nrem == 0 {
		for _, ci := range callsTo(U, func(o *types.Func) bool { return isFunc(o, "os", "Lstat") }) {
			lst, ok := ci.(*ssa.Call)
			if !ok || !pathOfInfo(p, lst.Call.Args[0], u) {
				continue
			}
			fi, ev := extractOf(lst, 0), extractOf(lst, 1)
			if fi == nil || ev == nil {
				continue
			}
			t1, _ := condEdges(U, func(v ssa.Value) bool {
				cl, ok := v.(*ssa.Call)
				return ok && osErrTest(cl) == "IsNotExist" && cl.Call.Args[0] == ev
			})
			symT, symF := symlinkEdges(U, fi)
			if len(symF) == 0 {
				continue
			}
			var rmOK []Edge
			for _, c2 := range callsTo(U, func(o *types.Func) bool { return isFunc(o, "os", "Remove") }) {
				rm, ok := c2.(*ssa.Call)
				if !ok || !pathOfInfo(p, rm.Call.Args[0], u) || !guarded(rm.Block(), symT) {
					continue
				}
				okE, _ := okEdgesOfCall(rm)
				rmOK = append(rmOK, okE...)
				inlineRemove[rm] = true
			}
			if len(rmOK) == 0 {
				continue
			}
			safe = append(safe, t1...)
			safe = append(safe, symF...)
			safe = append(safe, rmOK...)
			nrem++
		}
	}
	c.check(nrem > 0, R, uname, "link remover", p.Pos(U.Pos()), fmt.Sprintf("%d link-remover call(s) on the entry path", nrem),
		"no call to a link-remover helper on the entry path found in Unpack: a later file or directory entry is written through an earlier symlink of the same name")
	// the destination itself is not an entry the slug created: where the entry path equals dst
	// (an entry named ./) following dst is following the caller's own destination
	_, eqDst, _ := dstCompareEdges(p, u)
	safe = append(safe, eqDst...)
	isSafe := func(in ssa.Instruction) bool { return p.guardedC(in.Block(), safe) }

	// calls (direct or through private helpers) that follow a link on the entry's own path
	for _, v := range u.VCalls {
		o := calleeObj(v.Inner)
		cls, s := classifyFS(o)
		if cls != "sink" || !s.Follows {
			continue
		}
		site, _ := v.Site.(*ssa.Call)
		if site == nil {
			continue
		}
		for _, ai := range s.PathArgs {
			if ai >= len(v.Args) || !isExactlyInfoPath(p, v.Args[ai], u) {
				continue // e.g. MkdirAll(filepath.Dir(info.Path)): parents are covered by the walk
			}
			if in, ok := v.Inner.(*ssa.Call); ok && fullName(o) == "os.OpenFile" && openFlagsNoFollow(in) {
				c.pass(R, uname, "OpenFile(O_EXCL|O_NOFOLLOW)", p.Pos(v.Inner.Pos()), "flags refuse an existing link")
				continue
			}
			c.check(isSafe(site), R, uname, shortCallee(fullName(o))+"(entry path)", p.Pos(v.Inner.Pos()),
				"after the ok edge of the link remover on the same path", "follows a symlink left under the entry's own name by an earlier entry (write/chmod/chtimes lands outside dst)")
		}
	}
	for _, ci := range callsIn(U) {
		call, ok := ci.(*ssa.Call)
		if !ok {
			continue
		}
		// calls to module functions that reach follow-sinks on the receiver's Path
		g := call.Common().StaticCallee()
		if g == nil || !p.InModule(g) {
			continue
		}
		if !p.reachesFollowSinkOnPath(g, u) {
			continue
		}
		// receiver/argument must be the info value
		recvIsInfo := false
		var fromSlice ssa.Value
		for _, a := range call.Call.Args {
			ca := canon(a)
			if ca == u.Info {
				recvIsInfo = true
			}
			if ex, ok := ca.(*ssa.Extract); ok {
				if _, isNext := ex.Tuple.(*ssa.Next); isNext {
					fromSlice = ca
				}
			}
			if u2, ok := ca.(*ssa.UnOp); ok && u2.Op == token.MUL {
				if ia, ok := u2.X.(*ssa.IndexAddr); ok {
					fromSlice = ia.X
				}
			}
		}
		name := p.FuncName(g)
		switch {
		case recvIsInfo:
			// feasible kinds at this site: if the site is guarded by the true edge of a
			// pure predicate under which the callee cannot reach a follow sink, it is exempt.
			if p.siteOnlyNoFollowKinds(call, g, u) {
				c.pass(R, uname, "call "+name+" (link kind)", p.Pos(call.Pos()), "at this site the entry is a symlink: partial evaluation of the callee over Typeflag reaches no link-following call")
				continue
			}
			c.check(isSafe(call), R, uname, "call "+name, p.Pos(call.Pos()), "after the ok edge of the link remover on the same entry", "restores mode/times through a possible symlink under the entry's name")
		case fromSlice != nil:
			// deferred restore: all appends to the slice must be safe
			okAll, n := true, 0
			eachInstr(U, func(in ssa.Instruction) {
				cl, ok := in.(*ssa.Call)
				if !ok {
					return
				}
				if b, ok := cl.Call.Value.(*ssa.Builtin); ok && b.Name() == "append" && types.Identical(cl.Type(), sliceTypeOf(fromSlice)) {
					n++
					if !isSafe(cl) {
						okAll = false
					}
				}
			})
			c.check(okAll && n > 0, R, uname, "deferred "+name, p.Pos(call.Pos()), fmt.Sprintf("all %d append(s) feeding the deferred restore are past the link remover's ok edge", n),
				"an element can reach the deferred restore without the link remover having run on its path")
		default:
			c.fail(R, uname, "call "+name, p.Pos(call.Pos()), "a call reaching a link-following sink takes an UnpackInfo of unrecognised origin")
		}
	}
}

func sliceTypeOf(v ssa.Value) types.Type {
	t := v.Type()
	if pt, ok := t.Underlying().(*types.Pointer); ok {
		t = pt.Elem()
	}
	return t
}

func openFlagsNoFollow(call *ssa.Call) bool {
	if len(call.Call.Args) < 2 {
		return false
	}
	f, ok := constInt(call.Call.Args[1])
	if !ok {
		return false
	}
	const oEXCL, oNOFOLLOW = 0x80, 0x20000
	return f&oEXCL != 0 || f&oNOFOLLOW != 0
}

// pathOfInfo: v originates only from the Path field of the current entry's info.
func pathOfInfo(p *Prog, v ssa.Value, u *unpackCtx) bool {
	ls := p.origins(v, 0)
	if len(ls) == 0 {
		return false
	}
	for _, l := range ls {
		if l.Kind != "field" || l.Field != u.PathVar {
			return false
		}
	}
	return true
}

// isExactlyInfoPath: v is info.Path itself (not Dir of it).
func isExactlyInfoPath(p *Prog, v ssa.Value, u *unpackCtx) bool {
	v = p.canonX(v)
	switch x := v.(type) {
	case *ssa.UnOp:
		if fa, ok := x.X.(*ssa.FieldAddr); ok && x.Op == token.MUL {
			return fieldOf(fa) == u.PathVar
		}
	case *ssa.Field:
		return fieldOf(x) == u.PathVar
	}
	return false
}

// isLinkRemover verifies the wrapper summary of DESIGN 5.1: func(path string)
// (…, error) whose every nil-error return is past an IsNotExist edge of an Lstat on the
// argument, a not-a-symlink edge on that Lstat's result, or the ok edge of
// os.Remove(argument).
func (p *Prog) isLinkRemover(g *ssa.Function) bool {
	nres := g.Signature.Results().Len()
	if len(g.Params) != 1 || nres < 1 || !isErrorType(g.Signature.Results().At(nres-1).Type()) {
		return false
	}
	li := nres - 1 // the error; a remover may also report whether it removed something
	arg := g.Params[0]
	var lst *ssa.Call
	for _, ci := range callsTo(g, func(o *types.Func) bool { return isFunc(o, "os", "Lstat") }) {
		if cl, ok := ci.(*ssa.Call); ok && canon(cl.Call.Args[0]) == ssa.Value(arg) {
			lst = cl
		}
	}
	if lst == nil {
		return false
	}
	fi, ev := extractOf(lst, 0), extractOf(lst, 1)
	if fi == nil || ev == nil {
		return false
	}
	var good []Edge
	// IsNotExist(err) true edge
	t1, _ := condEdges(g, func(v ssa.Value) bool {
		cl, ok := v.(*ssa.Call)
		return ok && osErrTest(cl) == "IsNotExist" && cl.Call.Args[0] == ev
	})
	good = append(good, t1...)
	// not a symlink
	_, f2 := symlinkEdges(g, fi)
	good = append(good, f2...)
	// Remove(arg) ok edge, or "return os.Remove(arg)" directly
	directReturn := map[*ssa.Return]bool{}
	for _, ci := range callsTo(g, func(o *types.Func) bool { return isFunc(o, "os", "Remove") }) {
		cl, ok := ci.(*ssa.Call)
		if !ok || canon(cl.Call.Args[0]) != ssa.Value(arg) {
			continue
		}
		okE, _ := okEdgesOfCall(cl)
		good = append(good, okE...)
		for _, r := range returnsOf(g) {
			if len(r.Results) == 1 && r.Results[0] == ssa.Value(cl) {
				directReturn[r] = true
			}
		}
	}
	if len(f2) == 0 {
		return false
	}
	for _, r := range returnsOf(g) {
		if directReturn[r] {
			continue
		}
		maybeNil := false
		for _, v := range returnValues(r, li) {
			if v == nil || isNilConst(v) {
				maybeNil = true
			} else if _, isC := v.(*ssa.Const); !isC {
				nn, _ := errCheckEdges(g, v)
				if !guarded(r.Block(), nn) {
					maybeNil = true
				}
			}
		}
		if maybeNil && !guarded(r.Block(), good) {
			return false
		}
	}
	return true
}

// reachesFollowSinkOnPath: g (a function taking an UnpackInfo) can reach a
// link-following sink whose path is the UnpackInfo's Path.
func (p *Prog) reachesFollowSinkOnPath(g *ssa.Function, u *unpackCtx) bool {
	takesInfo := false
	for _, prm := range g.Params {
		if named, ok := types.Unalias(derefType(prm.Type())).(*types.Named); ok && named.Obj().Name() == "UnpackInfo" {
			takesInfo = true
		}
	}
	if !takesInfo {
		return false
	}
	for _, s := range fsSinkSites(sortedFuncs(p.reach(g))) {
		if s.Sink.Follows {
			return true
		}
	}
	return false
}

func derefType(t types.Type) types.Type {
	if pt, ok := t.Underlying().(*types.Pointer); ok {
		return types.Unalias(pt.Elem())
	}
	return types.Unalias(t)
}

// argFromSliceElem: some argument of the call is an element of a slice
// (range value or indexed load).
func argFromSliceElem(cl *ssa.Call) bool {
	for _, a := range cl.Call.Args {
		ca := canon(a)
		if u2, ok := ca.(*ssa.UnOp); ok && u2.Op == token.MUL {
			if _, ok := u2.X.(*ssa.IndexAddr); ok {
				return true
			}
		}
		if ex, ok := ca.(*ssa.Extract); ok {
			if _, ok := ex.Tuple.(*ssa.Next); ok {
				return true
			}
		}
	}
	return false
}

func isUnpackInfoSlice(t types.Type) bool {
	sl, ok := t.Underlying().(*types.Slice)
	if !ok {
		return false
	}
	n, ok := types.Unalias(sl.Elem()).(*types.Named)
	return ok && n.Obj().Name() == "UnpackInfo"
}

// C01.replace — nothing but the verified link remover deletes or renames an
// entry path during Unpack.
func ruleC01Replace(c *Checker) {
	const R = "C01.replace"
	c.rule(R, "During Unpack an existing entry path is only ever deleted by the verified link-remover helper (which removes symlinks and nothing else) and that helper is called only for file and directory entries: every remove/rename-class call reachable from Unpack lies inside such a helper. A bare os.Remove of an entry path can delete an (empty) directory already recorded for the deferred restore and let a later symlink entry take its place, through which the restore then changes mode and times outside dst.", 1)
	u := getUnpackCtx(c, R)
	if u == nil {
		return
	}
	p := c.P
	n := 0
	var inlineRm []*ssa.Call
	for _, s := range fsSinkSites(u.ReachL) {
		if s.Sink.Class != "remove" && s.Sink.Class != "rename" {
			continue
		}
		n++
		ok := p.isLinkRemover(s.Fn)
		if !ok && s.Fn == u.Unpack {
			// the remover written out in Unpack: os.Remove of the entry path behind the is-a-link edge of its own Lstat
			if rm, isCall := s.Call.(*ssa.Call); isCall && isFunc(calleeObj(rm), "os", "Remove") && pathOfInfo(p, rm.Call.Args[0], u) {
				for _, ci := range callsTo(u.Unpack, func(o *types.Func) bool { return isFunc(o, "os", "Lstat") }) {
					if lst, isL := ci.(*ssa.Call); isL && pathOfInfo(p, lst.Call.Args[0], u) {
						if fi := extractOf(lst, 0); fi != nil {
							symT, _ := symlinkEdges(u.Unpack, fi)
							if len(symT) > 0 && guarded(rm.Block(), symT) {
								ok = true
								inlineRm = append(inlineRm, rm)
							}
						}
					}
				}
			}
		}
		c.check(ok, R, p.FuncName(s.Fn), shortCallee(s.Name)+" of an entry path", p.Pos(s.Call.Pos()), "inside the link remover (removes only symlinks)", "an entry path is removed outside the link-remover helper: files or directories materialised earlier (and possibly recorded for the deferred restore) can be replaced by a later entry")
	}
	// the helper is applied only to file/directory entries, never before creating a link
	for _, ci := range callsIn(u.Unpack) {
		cl, ok := ci.(*ssa.Call)
		if !ok {
			continue
		}
		g := cl.Common().StaticCallee()
		isInline := false
		for _, rm := range inlineRm {
			if rm == cl {
				isInline = true
			}
		}
		if !isInline && (g == nil || !p.InModule(g) || !p.isLinkRemover(g)) {
			continue
		}
		n++
		// by partial evaluation: the call is not reachable for the symlink kind
		ki := getKinds(c, u)
		reachSym := ki.Eval['2'] != nil && ki.Eval['2'].Calls[cl]
		// ... and never to the destination itself: an entry whose name cleans to the root ("./", ".", "/")
		// has Path == dst, and when dst is a symlink that link lives in dst's parent, outside the slug
		differ, _, dstParam := dstCompareEdges(p, u)
		notDst := false
		if dstParam != nil {
			notDst = guarded(cl.Block(), differ)
			// or: the destination was resolved physically first, so it is not a link
			for w := range p.backSlice(u.CtorCall.Call.Args[0], 0) {
				if c2, ok := w.(*ssa.Call); ok && isFunc(calleeObj(c2), "path/filepath", "EvalSymlinks") {
					notDst = true
				}
			}
		}
		c.check(notDst, R, p.FuncName(u.Unpack), "link remover not applied to the destination itself", p.Pos(cl.Pos()), "the remover call is past a test that the entry path differs from dst (or dst was resolved with EvalSymlinks)", "the link remover can be applied to dst itself: an entry named ./ (as written by tar -C dir .) has Path == dst, and when dst is a symlink to the real destination that link — which lives in dst's parent, outside the slug — is deleted and replaced by a new directory")
		c.check(!reachSym, R, p.FuncName(u.Unpack), "link remover not applied to link entries", p.Pos(cl.Pos()), "under Typeflag = TypeSymlink the remover call is unreachable", "a symlink entry removes what is under its name before being created: a later link can replace an earlier one (or a recorded directory)")
	}
	c.check(n > 0, R, p.FuncName(u.Unpack), "removal sites", p.Pos(u.Unpack.Pos()), fmt.Sprintf("%d removal/remover site(s)", n), "no removal site found (the link remover is gone: see C01.nofollow)")
}

// dstCompareEdges: edges of string comparisons between the entry's path and
// Unpack's destination parameter — those on which the two differ and those on
// which they are equal.
func dstCompareEdges(p *Prog, u *unpackCtx) (differ, equal []Edge, dstParam *ssa.Parameter) {
	for _, ca := range u.CtorCall.Call.Args {
		if prm, ok := canon(ca).(*ssa.Parameter); ok && prm.Parent() == u.Unpack && isStringType(prm.Type()) {
			dstParam = prm
		}
	}
	if dstParam == nil {
		return
	}
	dep := func(v ssa.Value, want func(ssa.Value) bool) bool {
		for w := range p.backSlice(v, 0) {
			if want(w) {
				return true
			}
		}
		return false
	}
	isPath := func(w ssa.Value) bool {
		switch x := w.(type) {
		case *ssa.Field:
			return fieldOf(x) == u.PathVar
		case *ssa.FieldAddr:
			return fieldOf(x) == u.PathVar
		}
		return false
	}
	isDst := func(w ssa.Value) bool { return w == ssa.Value(dstParam) }
	tE, fE := condEdges(u.Unpack, func(v ssa.Value) bool {
		bo, ok := v.(*ssa.BinOp)
		if !ok || (bo.Op != token.NEQ && bo.Op != token.EQL) || !isStringType(bo.X.Type()) {
			return false
		}
		return (dep(bo.X, isPath) && dep(bo.Y, isDst) && !dep(bo.Y, isPath)) || (dep(bo.Y, isPath) && dep(bo.X, isDst) && !dep(bo.X, isPath))
	})
	classify := func(es []Edge, onTrue bool) {
		for _, e := range es {
			ifi, ok := e.From.Instrs[len(e.From.Instrs)-1].(*ssa.If)
			if !ok {
				continue
			}
			cnd, neg := stripNot(ifi.Cond)
			bo, ok := cnd.(*ssa.BinOp)
			if !ok {
				continue
			}
			isNeq := (bo.Op == token.NEQ) != neg
			// "differ" is only meaningful between two lexically normalised spellings: the entry path is built
			// with filepath.Join, so a destination compared as the caller spelled it (dst/, dst/., a/../dst)
			// differs from it as a string while naming the same directory
			// ... and of the two paths themselves: Clean / Abs / EvalSymlinks of the entry path or of dst, not
			// Dir or Base of them (a cleaned value, but of another path)
			var norm func(v ssa.Value) bool
			norm = func(v ssa.Value) bool {
				switch x := cx(v).(type) {
				case *ssa.Field:
					return fieldOf(x) == u.PathVar
				case *ssa.UnOp:
					if fa, ok := x.X.(*ssa.FieldAddr); ok {
						return fieldOf(fa) == u.PathVar
					}
				case *ssa.Phi:
					for _, e := range x.Edges {
						if !norm(e) {
							return false
						}
					}
					return true
				}
				if cl := callOf(cx(v)); cl != nil {
					o := calleeObj(cl)
					if isFunc(o, "path/filepath", "Clean") || isFunc(o, "path/filepath", "Abs") || isFunc(o, "path/filepath", "EvalSymlinks") {
						a := cl.Common().Args[0]
						return a == ssa.Value(dstParam) || canon(a) == ssa.Value(dstParam) || norm(a)
					}
				}
				return false
			}
			// on the true edge the (possibly negated) condition holds
			if (isNeq && onTrue) || (!isNeq && !onTrue) {
				if !norm(bo.X) || !norm(bo.Y) {
					continue
				}
				differ = append(differ, e)
			} else {
				equal = append(equal, e)
			}
		}
	}
	classify(tE, true)
	classify(fE, false)
	return
}

// cellNonNilAt: block b is only reached over the non-nil edge of a test of a
// load of the cell, and the cell is not stored to in the region that edge
// dominates.
func cellNonNilAt(fn *ssa.Function, cell ssa.Value, b *ssa.BasicBlock) bool {
	for _, blk := range fn.Blocks {
		if len(blk.Instrs) == 0 {
			continue
		}
		ifi, ok := blk.Instrs[len(blk.Instrs)-1].(*ssa.If)
		if !ok {
			continue
		}
		c, neg := stripNot(ifi.Cond)
		bo, ok := c.(*ssa.BinOp)
		if !ok || (bo.Op != token.NEQ && bo.Op != token.EQL) || !isNilConst(bo.Y) {
			continue
		}
		ld, ok := bo.X.(*ssa.UnOp)
		if !ok || ld.Op != token.MUL || ld.X != cell {
			continue
		}
		// no store to the cell between the load and the branch
		clean := ld.Block() == blk
		if clean {
			for i := instrIndex(ld); i < len(blk.Instrs); i++ {
				if st, ok := blk.Instrs[i].(*ssa.Store); ok && st.Addr == cell {
					clean = false
				}
				if _, ok := blk.Instrs[i].(*ssa.Call); ok {
					clean = clean && true
				}
			}
		}
		if !clean {
			continue
		}
		edge := 0
		if bo.Op == token.EQL {
			edge = 1
		}
		if neg {
			edge = 1 - edge
		}
		tgt := blk.Succs[edge]
		if !guarded(b, []Edge{{blk, edge}}) {
			continue
		}
		// no store to the cell in the region dominated by the edge target, up to b
		stored := false
		for _, x := range fn.Blocks {
			if x == tgt || blockDominates(tgt, x) {
				for _, in := range x.Instrs {
					if st, ok := in.(*ssa.Store); ok && st.Addr == cell {
						// a store of a fresh non-nil error keeps it non-nil
						if !definitelyNonNilErr(st.Val) {
							stored = true
						}
					}
				}
			}
		}
		if !stored {
			return true
		}
	}
	return false
}

// guardedSomewhereOnEveryRoute: on every call route from top to the
// instruction, pred holds at the instruction itself or at some call site on
// the way (a guard inside an intermediate helper counts).
func (p *Prog) guardedSomewhereOnEveryRoute(in ssa.Instruction, top *ssa.Function, pred func(ssa.Instruction) bool, depth int) bool {
	if pred(in) {
		return true
	}
	fn := in.Parent()
	if fn == top || depth == 0 {
		return false
	}
	var sites []ssa.Instruction
	for _, cs := range p.callersOf(fn) {
		sites = append(sites, cs)
	}
	for _, mc := range closureSites(fn) {
		sites = append(sites, mc)
	}
	reachTop := p.reach(top)
	n := 0
	for _, s := range sites {
		if !reachTop[s.Parent()] {
			continue
		}
		n++
		if !p.guardedSomewhereOnEveryRoute(s, top, pred, depth-1) {
			return false
		}
	}
	return n > 0
}
