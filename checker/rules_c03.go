package main

import (
	"fmt"
	"go/constant"
	"go/token"
	"go/types"
	"regexp/syntax"
	"sort"
	"strconv"
	"strings"

	"golang.org/x/tools/go/ssa"
)

func init() {
	register("C03", &propDef{
		Title: "What is shipped is decided by .terraformignore semantics on archive paths",
		Rules: []func(*Checker){ruleC03Emit, ruleC03Bundle, ruleLoadedRulesReachTheWalk("C03.loadedrules"), ruleC03Prune, ruleC03Arg, ruleC03Meta, ruleC03Glob, ruleC03LastWins, ruleC03Parse, ruleC03Off, ruleC03Shared, ruleC03RuleFile, ruleWalkRoles("C03.roles"), ruleBundleWalkChain("C03.bundlechain"), ruleC03MatchErr, ruleMatchByRegexpOnly("C03.byregexp"), rulePackerWriters("C03.percall"), ruleRuleFileRefusals("C03.readfails"), ruleDefaultRulesOrder("C03.defaults")},
		NotDecided: []string{
			"the meaning of a whole pattern: composition of the translated fragments, the '**' forms beyond 'can cross separators', anchoring arithmetic (properties of run-time strings); C03.glob decides only the constant fragments emitted for '?', '*' and ordinary characters",
			"the content of the built-in default rule table",
			"re-inclusion below a directory the bundle walk already removed (known finding F6)",
		},
	})
}

// bundleWalk finds the preparation walk callback of the bundle builder: the
// closure handed to filepath.Walk in sourcebundle that evaluates ignore rules.
func bundleWalks(p *Prog) []*ssa.Function {
	var out []*ssa.Function
	for _, fn := range p.Funcs {
		if fn.Parent() == nil {
			continue
		}
		outer := p.Outer(fn)
		if outer.Package() == nil || outer.Package().Pkg.Path() != p.PkgPath("sourcebundle") {
			continue
		}
		if len(findExclCalls(fn)) > 0 {
			out = append(out, fn)
		}
	}
	return out
}

func ruleC03Emit(c *Checker) {
	const R = "C03.emit"
	c.rule(R, "In the Pack walk every WriteHeader is guarded by the not-excluded edge of an ignore-rule evaluation of the entry's path, and — for directories — no path through the excluded edge of the 'path + separator' evaluation reaches WriteHeader; the directory form is evaluated for every directory (it dominates all paths from the IsDir edge to the header write).", 3)
	pc := getPackCtx(c, R)
	if pc == nil {
		return
	}
	p := c.P
	for _, w := range pc.Walks {
		wname := p.FuncName(w.Fn)
		var plain, dirForm []exclCall
		for _, e := range w.Excl {
			if bo, ok := e.Arg.(*ssa.BinOp); ok && bo.Op == token.ADD {
				if s, ok := constString(bo.Y); ok && isSepString(s) {
					dirForm = append(dirForm, e)
					continue
				}
			}
			plain = append(plain, e)
		}
		c.check(len(plain) > 0, R, wname, "plain path evaluation", p.Pos(w.Fn.Pos()), fmt.Sprintf("%d evaluation(s) of the entry path", len(plain)), "the walk never evaluates ignore rules on the entry's own path")
		c.check(len(dirForm) > 0, R, wname, "directory form evaluation", p.Pos(w.Fn.Pos()), fmt.Sprintf("%d evaluation(s) of path+separator", len(dirForm)), "the walk never evaluates ignore rules on 'path + separator' (a trailing-slash rule would not select a directory)")
		for i, wh := range w.WriteHeaders {
			pos := p.Pos(wh.Pos())
			var exF []Edge
			for _, e := range plain {
				exF = append(exF, e.ExF...)
			}
			c.check(guarded(wh.Block(), exF), R, wname, fmt.Sprintf("WriteHeader %d guarded by not-excluded", i), pos, "only after the not-excluded edge of the entry's path evaluation", "an entry can be written without its path having been tested against the ignore rules")
			for _, e := range append(append([]exclCall{}, plain...), dirForm...) {
				for _, te := range e.ExT {
					reach := p.reachFromEdgeC(te)
					c.check(!reach[wh.Block()], R, wname, fmt.Sprintf("excluded edge cannot reach WriteHeader %d", i), p.Pos(e.Call.Pos()), "the excluded edge leads away from the header write", "an excluded path can still reach the header write")
				}
			}
			// directory form evaluated for every directory
			for _, e := range dirForm {
				isDirT, _ := condEdges(w.Fn, func(v ssa.Value) bool {
					cl, ok := v.(*ssa.Call)
					return ok && cl.Call.IsInvoke() && cl.Call.Method.Name() == "IsDir" && canon(cl.Call.Value) == ssa.Value(w.InfoParam)
				})
				var dom []Edge
				for _, de := range isDirT {
					if de.To() == e.Call.Block() || blockDominates(de.To(), e.Call.Block()) {
						dom = append(dom, de)
					}
				}
				okAll := len(dom) > 0
				for _, de := range dom {
					r := reachAvoiding(de.To(), map[*ssa.BasicBlock]bool{e.Call.Block(): true})
					if de.To() != e.Call.Block() && r[wh.Block()] {
						okAll = false
					}
				}
				c.check(okAll, R, wname, fmt.Sprintf("directory form precedes WriteHeader %d for directories", i), p.Pos(e.Call.Pos()), "on the IsDir edge every path to the header write passes the path+separator evaluation", "a directory can reach the header write without the path+separator evaluation")
			}
		}
	}
}

func ruleC03Bundle(c *Checker) {
	const R = "C03.bundle"
	c.rule(R, "In the bundle preparation walk a file (anything but a directory) whose own path is excluded is removed on every path from the excluded edge; a directory is removed with everything in it on the excluded-and-Dominating edge of the path+separator evaluation; every 'keep' exit (nil return not preceded by a removal) is reached only over the not-excluded edge of the entry's own evaluation, or for a directory (whose content is judged entry by entry); a failing rule evaluation returns an error.", 3)
	p := c.P
	ws := bundleWalks(p)
	if len(ws) == 0 {
		c.anchorMissing(R, "the bundle preparation walk callback (closure in sourcebundle evaluating ignore rules)")
		return
	}
	for _, fn := range ws {
		name := p.FuncName(fn)
		ex := findExclCalls(fn)
		var pathParam *ssa.Parameter
		for _, prm := range fn.Params {
			if isStringType(prm.Type()) && pathParam == nil {
				pathParam = prm
			}
		}
		isRemove := func(in ssa.Instruction) bool { return p.removesPath(in, pathParam) }
		var infoParam *ssa.Parameter
		for _, prm := range fn.Params {
			if n, ok := types.Unalias(prm.Type()).(*types.Named); ok && n.Obj().Name() == "FileInfo" {
				infoParam = prm
			}
		}
		isDirT, _ := condEdges(fn, func(v ssa.Value) bool {
			cl, ok := v.(*ssa.Call)
			return ok && cl.Call.IsInvoke() && cl.Call.Method.Name() == "IsDir" && infoParam != nil && canon(cl.Call.Value) == ssa.Value(infoParam)
		})
		var allExF []Edge
		for i, e := range ex {
			pos := p.Pos(e.Call.Pos())
			if i == 0 || !isDirFormArg(e.Arg) {
				allExF = append(allExF, e.ExF...)
			}
			if !isDirFormArg(e.Arg) {
				// the entry's own path is excluded: a file (anything but a directory) is removed; a directory is
				// left to the directory-form evaluation, because what lies below it is judged by its own path
				for _, te := range e.ExT {
					first := te.To().Instrs[0]
					ok := isRemove(first)
					var off ssa.Instruction
					if !ok {
						ok, off = mustPass(first, isRemove, isDirT)
					}
					rp := pos
					if off != nil {
						rp = p.Pos(off.Pos())
					}
					c.check(ok, R, name, fmt.Sprintf("excluded edge %d removes the entry", i), rp, "every path from the excluded edge that is not a directory's passes the removal of the entry", "an excluded file can be kept in the package directory")
				}
			} else {
				// path + separator is excluded and the exclusion dominates: the whole subtree goes
				for _, de := range e.DomT {
					if !guarded(de.From, e.ExT) && !guarded(de.To(), e.ExT) {
						continue
					}
					first := de.To().Instrs[0]
					ok, off := mustPassFromBlock(first, isRemove)
					rp := pos
					if off != nil {
						rp = p.Pos(off.Pos())
					}
					c.check(ok, R, name, fmt.Sprintf("dominating exclusion %d removes the subtree", i), rp, "every path from the excluded-and-dominating edge passes the removal of the directory", "an excluded subtree that no later rule can re-include is kept in the package directory")
				}
			}
			if e.ErrV != nil {
				nn, _ := errCheckEdges(fn, e.ErrV)
				okr := len(nn) > 0
				for _, ee := range nn {
					if r, _ := returnsNonNilErrorFrom(ee.To()); !r {
						okr = false
					}
				}
				c.check(okr, R, name, fmt.Sprintf("evaluation %d error", i), pos, "an invalid rule aborts the walk with an error", "an error from evaluating the ignore rules is not reported")
			}
		}
		// keep exits
		for i, r := range returnsOf(fn) {
			if !mayReturnNilErr(r) {
				continue
			}
			if guarded(r.Block(), rootEdges(fn)) {
				continue
			}
			// exits after a removal are 'removed' exits
			removed := false
			if ok, _ := mustPassBackward(r, isRemove); ok {
				removed = true
			}
			if removed {
				continue
			}
			// kept: the entry's own path is not excluded — or it is a directory, whose content is judged entry
			// by entry (an excluded directory that is not dominated stays for what may be re-included below it)
			okKeep := p.guardedC(r.Block(), allExF) || p.guardedC(r.Block(), isDirT)
			c.check(okKeep, R, name, fmt.Sprintf("keep exit %d", i), p.Pos(r.Pos()), "reached only over the not-excluded edge, or for a directory", "a file can be kept without having been tested against the ignore rules (or although its own path is excluded)")
		}
	}
}

// mustPassBackward: every path from the function entry to r passes an
// instruction satisfying pass (r is only reachable through one).
func mustPassBackward(r *ssa.Return, pass func(ssa.Instruction) bool) (bool, ssa.Instruction) {
	fn := r.Parent()
	// forward search from the entry that stops at passing instructions: r must be unreachable
	seen := map[*ssa.BasicBlock]bool{}
	var work []*ssa.BasicBlock
	work = append(work, fn.Blocks[0])
	seen[fn.Blocks[0]] = true
	for len(work) > 0 {
		b := work[len(work)-1]
		work = work[:len(work)-1]
		stopped := false
		for _, in := range b.Instrs {
			if pass(in) {
				stopped = true
				break
			}
			if in == ssa.Instruction(r) {
				return false, in
			}
		}
		if stopped {
			continue
		}
		for _, s := range b.Succs {
			if !seen[s] {
				seen[s] = true
				work = append(work, s)
			}
		}
	}
	return true, nil
}

func isDirFormArg(v ssa.Value) bool {
	bo, ok := v.(*ssa.BinOp)
	if !ok || bo.Op != token.ADD {
		return false
	}
	s, ok := constString(bo.Y)
	return ok && isSepString(s)
}

func mustPassFromBlock(first ssa.Instruction, pass func(ssa.Instruction) bool) (bool, ssa.Instruction) {
	if pass(first) {
		return true, nil
	}
	// the starting instruction is itself on the path: a return there has passed nothing
	if r, ok := first.(*ssa.Return); ok && r.Block() != r.Parent().Recover {
		return false, r
	}
	return mustPass(first, pass, nil)
}

func isSkipDirValue(v ssa.Value) bool {
	u, ok := v.(*ssa.UnOp)
	if !ok || u.Op != token.MUL {
		return false
	}
	g, ok := u.X.(*ssa.Global)
	return ok && (g.Name() == "SkipDir" || g.Name() == "SkipAll")
}

func ruleC03Prune(c *Checker) {
	const R = "C03.prune"
	c.rule(R, "Pruning a whole directory after a directory match (returning filepath.SkipDir, or os.RemoveAll of an entry that may be a directory) is only allowed on the Dominating edge of that match: otherwise a later '!' rule that re-includes something below is ignored. Sibling cross-check between the Pack walk and the bundle walk.", 2)
	p := c.P
	var fns []*ssa.Function
	if pc := getPackCtx(c, R); pc != nil {
		for _, w := range pc.Walks {
			fns = append(fns, w.Fn)
		}
	}
	fns = append(fns, bundleWalks(p)...)
	for _, fn := range fns {
		name := p.FuncName(fn)
		ex := findExclCalls(fn)
		var domT []Edge
		for _, e := range ex {
			domT = append(domT, e.DomT...)
		}
		var infoParam *ssa.Parameter
		var pathParam *ssa.Parameter
		for _, prm := range fn.Params {
			if n, ok := types.Unalias(prm.Type()).(*types.Named); ok && n.Obj().Name() == "FileInfo" {
				infoParam = prm
			}
			if isStringType(prm.Type()) && pathParam == nil {
				pathParam = prm
			}
		}
		_, notDir := condEdges(fn, func(v ssa.Value) bool {
			cl, ok := v.(*ssa.Call)
			return ok && cl.Call.IsInvoke() && cl.Call.Method.Name() == "IsDir" && infoParam != nil && canon(cl.Call.Value) == ssa.Value(infoParam)
		})
		isDirT, _ := condEdges(fn, func(v ssa.Value) bool {
			cl, ok := v.(*ssa.Call)
			return ok && cl.Call.IsInvoke() && cl.Call.Method.Name() == "IsDir" && infoParam != nil && canon(cl.Call.Value) == ssa.Value(infoParam)
		})
		// the ok edge of a non-recursive os.Remove of the entry: the directory was empty and is gone
		var emptyGone []Edge
		for _, ci := range callsIn(fn) {
			cl, ok := ci.(*ssa.Call)
			if !ok || !isFunc(calleeObj(cl), "os", "Remove") || pathParam == nil || canon(cl.Call.Args[0]) != ssa.Value(pathParam) {
				continue
			}
			okE, _ := okEdgesOfCall(cl)
			emptyGone = append(emptyGone, okE...)
		}
		// a directory that a dominating rule excludes is not read at all: the Pack walk prunes it
		if len(domT) > 0 && len(bundleWalkSet(p)[fn]) == 0 {
			pruned := false
			for _, r := range returnsOf(fn) {
				for _, v := range returnValues(r, 0) {
					if v != nil && isSkipDirValue(v) && guarded(r.Block(), domT) {
						pruned = true
					}
				}
			}
			c.check(pruned, R, name, "excluded subtree not entered", p.Pos(fn.Pos()), "filepath.SkipDir returned on the Dominating edge", "a directory excluded with everything below it is still walked: a subtree nobody wanted (.git, .terraform) that cannot be read — permissions, a path too long — makes Pack fail although none of it would be shipped")
		}
		// filepath.SkipAll ends the whole walk with a success: everything that sorts after the entry is
		// left out although no rule matches it
		skipAllAt := token.NoPos
		for _, r := range returnsOf(fn) {
			for _, v := range returnValues(r, 0) {
				if u, ok := v.(*ssa.UnOp); ok && u.Op == token.MUL {
					if g, ok := u.X.(*ssa.Global); ok && g.Name() == "SkipAll" && g.Pkg != nil && (g.Pkg.Pkg.Path() == "path/filepath" || g.Pkg.Pkg.Path() == "io/fs") {
						skipAllAt = r.Pos()
					}
				}
			}
		}
		c.check(skipAllAt == token.NoPos, R, name, "the walk is never ended early", p.Pos(fn.Pos()), "the callback does not return filepath.SkipAll", "the callback returns filepath.SkipAll at "+p.Pos(skipAllAt)+": filepath.Walk stops there and reports success, so every entry that sorts after this one is missing from the result although no rule excludes it")
		for _, r := range returnsOf(fn) {
			for _, v := range returnValues(r, 0) {
				if v != nil && isSkipDirValue(v) {
					c.check(guarded(r.Block(), domT) || guarded(r.Block(), emptyGone), R, name, "return SkipDir", p.Pos(r.Pos()), "only on the Dominating edge of the directory match", "a directory is pruned on a match that later negations may override (re-included files below it are lost)")
					c.check(guarded(r.Block(), isDirT), R, name, "SkipDir only for directories", p.Pos(r.Pos()), "returned only when the walked entry itself is a directory", "filepath.SkipDir can be returned for an entry that is not a directory (e.g. a symlink to one): filepath.Walk then skips the remaining entries of the containing directory, which are neither filtered nor validated nor shipped")
				}
			}
		}
		for _, ci := range callsIn(fn) {
			cl, ok := ci.(*ssa.Call)
			if !ok || pathParam == nil || !p.removesPath(cl, pathParam) {
				continue
			}
			if isFunc(calleeObj(cl), "os", "Remove") {
				continue // not recursive: removes a directory only when it is empty
			}
			okp := guarded(cl.Block(), domT) || p.guardedC(cl.Block(), notDir)
			c.check(okp, R, name, "RemoveAll of a possibly-directory entry", p.Pos(cl.Pos()), "only on the Dominating edge (or for non-directories)", "a directory subtree is removed on a match that later negations may override (re-included files below it are lost)")
		}
	}
}

func ruleC03Arg(c *Checker) {
	const R = "C03.arg"
	c.rule(R, "The string matched against the ignore rules in the Pack walk is the entry's archive path: the evaluated value is the same filepath.Rel result that becomes the entry name (so inside a dereferenced directory rules see the path inside the slug, not the path on disk); in the bundle walk it is the path relative to the package root.", 2)
	p := c.P
	if pc := getPackCtx(c, R); pc != nil {
		for _, w := range pc.Walks {
			wname := p.FuncName(w.Fn)
			nameSlice := map[ssa.Value]bool{}
			for _, wh := range w.WriteHeaders {
				for _, ns := range headerFieldStores(w.Fn, headerAlloc(wh), "Name") {
					for v := range p.backSlice(ns.Val, 0) {
						nameSlice[v] = true
					}
				}
			}
			for i, e := range w.Excl {
				arg := e.Arg
				if bo, ok := arg.(*ssa.BinOp); ok && isDirFormArg(arg) {
					arg = bo.X
				}
				c.check(nameSlice[canon(arg)] && callOf(canon(arg)) != nil, R, wname, fmt.Sprintf("evaluation %d argument", i), p.Pos(e.Call.Pos()), "the matched string is the value the entry name is made from", "ignore rules are matched against a path that is not the entry's archive path")
			}
		}
	}
	for _, fn := range bundleWalks(p) {
		name := p.FuncName(fn)
		for i, e := range findExclCalls(fn) {
			arg := e.Arg
			if bo, ok := arg.(*ssa.BinOp); ok && isDirFormArg(arg) {
				arg = bo.X
			}
			cl := callOf(canon(arg))
			okr := cl != nil && isFunc(calleeObj(cl), "path/filepath", "Rel")
			c.check(okr, R, name, fmt.Sprintf("evaluation %d argument", i), p.Pos(e.Call.Pos()), "the matched string is filepath.Rel(package root, entry)", "ignore rules are matched against something other than the package-relative path")
		}
	}
}

// ruleC03Meta: H6 over the pattern rune.
func ruleC03Meta(c *Checker) {
	const R = "C03.meta"
	c.rule(R, "Partial evaluation of the pattern-to-regexp translator over the pattern rune: a rune that is a regexp operator without glob meaning (+ ( ) | { } . $) never reaches the 'append the rune raw' outcome; the glob operators * ? \\ are translated, never appended raw; ordinary runes and the character-class runes [ ] ^ are appended raw.", 10)
	p := c.P
	var comp *ssa.Function
	for _, fn := range p.Funcs {
		if fn.Package() == nil || fn.Package().Pkg.Path() != p.PkgPath("ignorefiles") {
			continue
		}
		callsCompile := len(callsTo(fn, func(o *types.Func) bool { return isFunc(o, "regexp", "Compile") || isFunc(o, "regexp", "MustCompile") })) > 0
		usesScanner := len(callsTo(fn, func(o *types.Func) bool { return isMethod(o, "text/scanner", "Scanner", "Next") })) > 0
		if callsCompile && usesScanner {
			comp = fn
		}
	}
	if comp == nil {
		c.anchorMissing(R, "the pattern translator (function in ignorefiles using text/scanner and regexp.Compile)")
		return
	}
	name := p.FuncName(comp)
	isNext := func(v ssa.Value) bool {
		cl, ok := v.(*ssa.Call)
		return ok && isMethod(calleeObj(cl), "text/scanner", "Scanner", "Next")
	}
	// raw append sites: acc + string(rune from Next), acc non-constant
	var raw []*ssa.BinOp
	eachInstr(comp, func(in ssa.Instruction) {
		bo, ok := in.(*ssa.BinOp)
		if !ok || bo.Op != token.ADD {
			return
		}
		cv, ok := bo.Y.(*ssa.Convert)
		if !ok || !isNext(cv.X) {
			return
		}
		if _, isEsc := escPrefix(bo.X); isEsc {
			return
		}
		raw = append(raw, bo)
	})
	c.check(len(raw) > 0, R, name, "raw append site", p.Pos(comp.Pos()), fmt.Sprintf("%d raw append site(s)", len(raw)), "no 'append rune verbatim' site found (ordinary characters could not be matched)")
	// escape sites: constant + string(rune) — the constant is the one backslash that makes the rune literal
	nEsc := 0
	eachInstr(comp, func(in ssa.Instruction) {
		bo, ok := in.(*ssa.BinOp)
		if !ok || bo.Op != token.ADD {
			return
		}
		cv, ok := bo.Y.(*ssa.Convert)
		if !ok || !isNext(cv.X) {
			return
		}
		k, isC := escPrefix(bo.X)
		if !isC {
			return
		}
		nEsc++
		c.check(k == "\\", R, name, fmt.Sprintf("escape prefix %d", nEsc), p.Pos(bo.Pos()), "a single backslash in front of the rune", "the rune is preceded by "+strconv.Quote(k)+" instead of a backslash: a '.' in a rule matches any character (foo.txt excludes fooXtxt, the built-in .git/ rule excludes xgit/)")
	})
	c.check(nEsc > 0, R, name, "escape site", p.Pos(comp.Pos()), fmt.Sprintf("%d escape site(s)", nEsc), "no site puts a backslash in front of a rune: the regexp operators cannot be made literal")
	must := "+()|{}.$*?\\"
	mayRaw := "[]^a/-_ 0"
	for _, r := range must + mayRaw {
		kv := absConst(constant.MakeInt64(int64(r)))
		first := true
		ev := p.newEvaluator(func(fn *ssa.Function, v ssa.Value) (absVal, bool) {
			if fn == comp && isNext(v) {
				_ = first
				return kv, true
			}
			return absVal{}, false
		})
		res := ev.evalFunc(comp, []absVal{absTop})
		reachRaw := false
		for _, s := range raw {
			if res.Blocks[s.Block()] {
				reachRaw = true
			}
		}
		construct := fmt.Sprintf("rune %q", r)
		if strings.ContainsRune(must, r) {
			c.check(!reachRaw, R, name, construct, p.Pos(comp.Pos()), "never appended raw (escaped or translated)", "a regexp operator with no glob meaning is copied into the regular expression verbatim (e.g. rule a+b.txt would match aab.txt and not a+b.txt)")
		} else {
			c.check(reachRaw, R, name, construct, p.Pos(comp.Pos()), "appended raw", "an ordinary / character-class rune no longer reaches the raw append")
		}
	}
}

// escPrefix: the constant that stands directly in front of what is appended to v: v is that constant, or
// v is `acc + constant` (the backslash appended in a statement of its own, the rune in the next).
func escPrefix(v ssa.Value) (string, bool) {
	if k, ok := constString(v); ok {
		return k, true
	}
	if bo, ok := v.(*ssa.BinOp); ok && bo.Op == token.ADD {
		if k, ok := constString(bo.Y); ok && k != "" {
			return k[len(k)-1:], true
		}
	}
	return "", false
}

// C03.glob: what the translator emits for the glob operators, decided on the
// constant fragments (regexp/syntax on constants; nothing is run).
func ruleC03Glob(c *Checker) {
	const R = "C03.glob"
	c.rule(R, "Partial evaluation of the pattern-to-regexp translator with the accumulated expression replaced by a marker: the fragment appended for '?' is a constant that is exactly one character class excluding the path separator (not optional, not repeated); the fragments appended for '*' are either a star of such a class (single '*': any run of non-separator characters, possibly empty) or, for the '**' forms, expressions that can match the separator. The fragments are parsed with regexp/syntax.", 3)
	p := c.P
	var comp *ssa.Function
	for _, fn := range p.Funcs {
		if fn.Package() == nil || fn.Package().Pkg.Path() != p.PkgPath("ignorefiles") {
			continue
		}
		callsCompile := len(callsTo(fn, func(o *types.Func) bool { return isFunc(o, "regexp", "Compile") || isFunc(o, "regexp", "MustCompile") })) > 0
		usesScanner := len(callsTo(fn, func(o *types.Func) bool { return isMethod(o, "text/scanner", "Scanner", "Next") })) > 0
		if callsCompile && usesScanner {
			comp = fn
		}
	}
	if comp == nil {
		c.anchorMissing(R, "the pattern translator (function in ignorefiles using text/scanner and regexp.Compile)")
		return
	}
	name := p.FuncName(comp)
	isNext := func(v ssa.Value) bool {
		cl, ok := v.(*ssa.Call)
		return ok && isMethod(calleeObj(cl), "text/scanner", "Scanner", "Next")
	}
	// the accumulator: a string phi fed by concatenations
	var acc *ssa.Phi
	eachInstr(comp, func(in ssa.Instruction) {
		ph, ok := in.(*ssa.Phi)
		if !ok || !isStringType(ph.Type()) {
			return
		}
		// at a loop header (a predecessor it dominates), and concatenated onto inside the loop
		hdr := false
		for _, pr := range ph.Block().Preds {
			if blockDominates(ph.Block(), pr) {
				hdr = true
			}
		}
		if !hdr {
			return
		}
		grows := false
		if refs := ph.Referrers(); refs != nil {
			for _, r := range *refs {
				if bo, ok := r.(*ssa.BinOp); ok && bo.Op == token.ADD && bo.X == ssa.Value(ph) {
					grows = true
				}
			}
		}
		if grows {
			acc = ph
		}
	})
	if acc == nil {
		c.anchorMissing(R, "the accumulated expression (a string carried round the translator's loop)")
		return
	}
	const marker = "\x00"
	peekAs := rune(-2) // -2: leave Peek to the evaluator (unknown)
	fragments := func(r rune) ([]string, bool) {
		ev := p.newEvaluator(func(fn *ssa.Function, v ssa.Value) (absVal, bool) {
			if fn == comp && isNext(v) {
				return absConst(constant.MakeInt64(int64(r))), true
			}
			if cl, ok := v.(*ssa.Call); ok && fn == comp && peekAs != -2 && isMethod(calleeObj(cl), "text/scanner", "Scanner", "Peek") {
				return absConst(constant.MakeInt64(int64(peekAs))), true
			}
			if fn == comp && v == ssa.Value(acc) {
				return absConst(constant.MakeString(marker)), true
			}
			return absVal{}, false
		})
		res := ev.evalFunc(comp, []absVal{absTop})
		set := map[string]bool{}
		for i, pr := range acc.Block().Preds {
			if !res.Blocks[pr] || !res.Edges[[2]*ssa.BasicBlock{pr, acc.Block()}] {
				continue
			}
			if canon(acc.Edges[i]) == ssa.Value(acc) {
				continue
			}
			if _, isC := acc.Edges[i].(*ssa.Const); isC {
				continue // the initial value
			}
			v := res.Eval(acc.Edges[i])
			if v.isTop() || len(v.vals) == 0 {
				return nil, false
			}
			for _, k := range v.vals {
				if k.Kind() != constant.String {
					return nil, false
				}
				s := constant.StringVal(k)
				if !strings.HasPrefix(s, marker) {
					return nil, false
				}
				set[s[len(marker):]] = true
			}
		}
		var out []string
		for s := range set {
			out = append(out, s)
		}
		sort.Strings(out)
		return out, true
	}
	// the flags the whole expression is compiled with: the constant the accumulator starts from
	prefix := ""
	for _, e := range acc.Edges {
		if sv, ok := constString(e); ok {
			if i := strings.Index(sv, "^"); i > 0 && strings.HasPrefix(sv, "(?") {
				prefix = sv[:i]
			}
		}
	}
	sep := '/'
	oneClass := func(re *syntax.Regexp) bool {
		return re.Op == syntax.OpCharClass && !canMatchAny(re, sep) && canMatchAny(re, 'a') && canMatchAny(re, '.')
	}
	// '?'
	fr, ok := fragments('?')
	if !ok {
		c.fail(R, name, "fragment for '?'", p.Pos(comp.Pos()), "what is appended for '?' is not a constant the partial evaluator can compute: the translation cannot be checked")
	} else {
		good := len(fr) == 1
		why := fmt.Sprintf("appends %q", fr)
		if good {
			re, err := syntax.Parse(prefix+fr[0], syntax.Perl)
			good = err == nil && oneClass(re)
		}
		c.check(good, R, name, "fragment for '?'", p.Pos(comp.Pos()), why+": exactly one non-separator character", "'?' is not translated to exactly one non-separator character ("+why+"): a rule such as notes?.md then also matches notes.md (or a path with a separator)")
	}
	// '*'
	fr, ok = fragments('*')
	if !ok {
		c.fail(R, name, "fragments for '*'", p.Pos(comp.Pos()), "what is appended for '*' is not a constant the partial evaluator can compute: the translation cannot be checked")
	} else {
		single := 0
		bad := ""
		for _, f := range fr {
			re, err := syntax.Parse(prefix+f, syntax.Perl)
			if err != nil {
				bad = fmt.Sprintf("%q does not parse", f)
				continue
			}
			switch {
			case re.Op == syntax.OpStar && len(re.Sub) == 1 && oneClass(re.Sub[0]):
				single++
			case canMatchAny(re, sep):
				// a '**' form: it spans whatever a path may contain, a line feed included (the
				// single-segment forms are character classes and match one)
				if !canMatchAny(re, '\n') {
					bad = fmt.Sprintf("the '**' form %q cannot match a line feed (the expression is compiled without the s flag): a file name containing one is not covered by rules that cover its siblings", f)
				}
			default:
				bad = fmt.Sprintf("%q is neither a run of non-separator characters nor a '**' form that can cross directories", f)
			}
		}
		c.check(bad == "" && single == 1, R, name, "fragments for '*'", p.Pos(comp.Pos()), fmt.Sprintf("appends %q: one single-star form (possibly empty run of non-separator characters), the others cross separators", fr), fmt.Sprintf("'*' is not translated to 'any run of non-separator characters, possibly empty' (fragments %q; %s)", fr, bad))
	}
	// two stars in a row: whatever is appended when the rune after a '*' is another '*' crosses separators — a
	// second reading of `**` as a plain star (glued to other characters, "mid-segment") must not be reachable for
	// the `**` that follows the `**/` every unanchored pattern is given
	peekAs = '*'
	fr2, ok2 := fragments('*')
	peekAs = -2
	if ok2 {
		bad2 := ""
		for _, f := range fr2 {
			re, err := syntax.Parse(prefix+f, syntax.Perl)
			if err != nil || !canMatchAny(re, sep) {
				bad2 = f
			}
		}
		c.check(bad2 == "" && len(fr2) > 0, R, name, "fragments for '**'", p.Pos(comp.Pos()), fmt.Sprintf("with another '*' next, appends %q: all cross separators", fr2), fmt.Sprintf("with another '*' next, %q can be appended, which does not cross a separator: a `**` is read as a plain star on some path (state carried from the characters before it), so `**/name` — which is what every unanchored rule becomes — stops matching at the top level", bad2))
	} else {
		c.fail(R, name, "fragments for '**'", p.Pos(comp.Pos()), "what is appended for '**' is not a constant the partial evaluator can compute")
	}
	// an ordinary character is appended as itself
	fr, ok = fragments('a')
	c.check(ok && len(fr) == 1 && fr[0] == "a", R, name, "fragment for an ordinary character", p.Pos(comp.Pos()), "appended as itself", fmt.Sprintf("an ordinary character is not appended as itself (%q)", fr))
	// a backslash escapes the character after it: appended as backslash + that character (the evaluator
	// gives every Next() the same rune), or as an escaped backslash at the end of the pattern
	fr, ok = fragments('\\')
	wantEsc := map[string]bool{"\\\\": false, "\\": false}
	okEsc := ok
	for _, f := range fr {
		if _, known := wantEsc[f]; !known {
			okEsc = false
		} else {
			wantEsc[f] = true
		}
	}
	for _, seen := range wantEsc {
		if !seen {
			okEsc = false
		}
	}
	c.check(okEsc, R, name, "fragments for a backslash", p.Pos(comp.Pos()), fmt.Sprintf("appends %q: the escaped next character, or an escaped backslash at the end", fr), fmt.Sprintf("a backslash is not translated to 'the next character, literally' (fragments %q; on this platform the separator is not a backslash): a rule such as a\\.txt no longer excludes a.txt, or excludes something else", fr))
	// a look-ahead character is consumed only when Peek() identified it
	var primary ssa.Instruction
	loopHead := acc.Block()
	nLook := 0
	okLook := true
	var badLook token.Pos
	eachInstr(comp, func(in ssa.Instruction) {
		cl, isCall := in.(*ssa.Call)
		if !isCall || !isNext(cl) {
			return
		}
		// the first Next reached from the loop header on every iteration is the primary one
		if primary == nil && blockDominates(cl.Block(), cl.Block()) {
			dom := true
			for _, pr := range loopHead.Preds {
				if blockDominates(loopHead, pr) && !blockDominates(cl.Block(), pr) {
					dom = false
				}
			}
			if dom {
				primary = cl
				return
			}
		}
		nLook++
		isPeekTest := func(v ssa.Value, wantEq bool) bool {
			bo, ok := v.(*ssa.BinOp)
			if !ok {
				return false
			}
			fromPeek := false
			for w := range p.backSlice(bo.X, 0) {
				if pc, ok := w.(*ssa.Call); ok && isMethod(calleeObj(pc), "text/scanner", "Scanner", "Peek") {
					fromPeek = true
				}
			}
			if !fromPeek {
				return false
			}
			isEOF := false
			if k, isC := constInt(bo.Y); isC && k == -1 {
				isEOF = true
			}
			if wantEq {
				return bo.Op == token.EQL && !isEOF
			}
			return bo.Op == token.NEQ && isEOF
		}
		eqT, _ := condEdges(comp, func(v ssa.Value) bool { return isPeekTest(v, true) })
		neT, _ := condEdges(comp, func(v ssa.Value) bool { return isPeekTest(v, false) })
		// the same tests written the other way round: Peek() != <char> (false edge), Peek() == EOF (false edge)
		isPeekTestInv := func(v ssa.Value, wantNeChar bool) bool {
			bo, ok := v.(*ssa.BinOp)
			if !ok {
				return false
			}
			fromPeek := false
			for w := range p.backSlice(bo.X, 0) {
				if pc, ok := w.(*ssa.Call); ok && isMethod(calleeObj(pc), "text/scanner", "Scanner", "Peek") {
					fromPeek = true
				}
			}
			if !fromPeek {
				return false
			}
			isEOF := false
			if k, isC := constInt(bo.Y); isC && k == -1 {
				isEOF = true
			}
			if wantNeChar {
				return bo.Op == token.NEQ && !isEOF
			}
			return bo.Op == token.EQL && isEOF
		}
		_, neCharF := condEdges(comp, func(v ssa.Value) bool { return isPeekTestInv(v, true) })
		_, eqEOFF := condEdges(comp, func(v ssa.Value) bool { return isPeekTestInv(v, false) })
		eqT = append(eqT, neCharF...)
		neT = append(neT, eqEOFF...)
		// the test must look at the character this call consumes: it comes after every earlier Next()
		var valid []Edge
		for _, g := range append(eqT, neT...) {
			test := g.From.Instrs[len(g.From.Instrs)-1]
			fresh := true
			eachInstr(comp, func(other ssa.Instruction) {
				oc, isC := other.(*ssa.Call)
				if !isC || !isNext(oc) || oc == cl {
					return
				}
				if dominates(oc, cl) && !dominates(oc, test) {
					fresh = false
				}
			})
			if fresh {
				valid = append(valid, g)
			}
		}
		if len(valid) == 0 || !guarded(cl.Block(), valid) {
			okLook = false
			badLook = cl.Pos()
		}
	})
	c.check(okLook, R, name, "look-ahead consumed only when identified", p.Pos(badLook), fmt.Sprintf("%d further Next() call(s), each past Peek() == <character> or Peek() != EOF", nLook), "the character after an operator is consumed without Peek() having identified it (the test is gone, inverted, or compares with EOF): '**' then swallows whatever follows it (a**b matches ac), or an escape reads past the end of the pattern")
	// the whole expression is anchored at its end
	anch := false
	for _, ci := range callsTo(comp, func(o *types.Func) bool { return isFunc(o, "regexp", "Compile") || isFunc(o, "regexp", "MustCompile") }) {
		if bo, ok := canon(ci.Common().Args[0]).(*ssa.BinOp); ok && bo.Op == token.ADD {
			if k, isC := constString(bo.Y); isC && strings.HasSuffix(k, "$") {
				anch = true
			}
		}
	}
	c.check(anch, R, name, "expression anchored at the end", p.Pos(comp.Pos()), "compiled as <accumulated> + \"$\"", "the expression handed to regexp.Compile does not end in \"$\": every rule becomes a prefix match (rule foo also excludes foobar.txt)")
}

func ruleC03LastWins(c *Checker) {
	const R = "C03.lastwins"
	c.rule(R, "The loop that evaluates a path against the rules runs forward over all rules and is left only from its header (no exit at the first match), the Excluded result is the negation of the last matching rule's 'negated' flag and Dominating additionally depends on its 'negationsAfter' flag; a nil ruleset returns the zero result before the loop.", 4)
	p := c.P
	ex := p.Fn("ignorefiles", "Ruleset.Excludes")
	if ex == nil {
		c.anchorMissing(R, "(*ignorefiles.Ruleset).Excludes")
		return
	}
	name := p.FuncName(ex)
	// the loop: blocks on a cycle containing the match call (a module call returning (bool, error))
	var matchCall *ssa.Call
	for _, ci := range callsIn(ex) {
		cl, ok := ci.(*ssa.Call)
		if !ok || !inLoop(cl.Block()) {
			continue
		}
		res := cl.Call.Signature().Results()
		if res.Len() == 2 && isBoolType(res.At(0).Type()) {
			matchCall = cl
		}
	}
	if matchCall == nil {
		// the matcher written out in the loop: the compiled pattern is asked directly
		matchCall = inlineRuleMatch(p)
	}
	if matchCall == nil {
		c.fail(R, name, "rule loop", p.Pos(ex.Pos()), "no per-rule match call inside a loop found")
		return
	}
	head := loopHeadOf(matchCall.Block())
	inL := map[*ssa.BasicBlock]bool{}
	for _, b := range ex.Blocks {
		if (b == head) || (reaches(b, head) && reaches(head, b)) {
			inL[b] = true
		}
	}
	exits := 0
	okExit := true
	for b := range inL {
		for _, s := range b.Succs {
			if !inL[s] {
				exits++
				if b != head {
					okExit = false
				}
			}
		}
	}
	c.check(okExit && exits > 0, R, name, "loop exits only at the header", p.Pos(matchCall.Pos()), "the rule loop visits every rule (no early exit)", "the rule loop can be left before the last rule: first-match-wins instead of last-match-wins")
	// forward iteration: a range loop (rangeindex +1) or explicit i++
	fwd := false
	for _, in := range head.Instrs {
		if bo, ok := in.(*ssa.BinOp); ok && bo.Op == token.ADD {
			if k, ok := constInt(bo.Y); ok && k == 1 {
				fwd = true
			}
		}
	}
	for b := range inL {
		for _, in := range b.Instrs {
			if _, ok := in.(*ssa.Next); ok {
				fwd = true
			}
		}
	}
	c.check(fwd, R, name, "forward iteration", p.Pos(matchCall.Pos()), "rules are visited in file order", "the rules are not visited in forward order (the last match would not be the last rule in the file)")
	// result dependence
	for _, r := range returnsOf(ex) {
		if len(r.Results) != 2 {
			continue
		}
		if _, isC := r.Results[0].(*ssa.Const); isC {
			continue
		}
		sl := p.backSlice(r.Results[0], 0)
		var exclV, domV []ssa.Value
		var exclSt []*ssa.Store
		for v := range sl {
			if st, ok := v.(*ssa.FieldAddr); ok {
				_ = st
			}
		}
		// find the stores into the result struct fields
		eachInstr(ex, func(in ssa.Instruction) {
			if st, ok := in.(*ssa.Store); ok {
				if fa, ok := st.Addr.(*ssa.FieldAddr); ok && isExcludesResult(derefType(fa.X.Type())) {
					switch fieldOf(fa).Name() {
					case "Excluded":
						exclV = append(exclV, st.Val)
						exclSt = append(exclSt, st)
					case "Dominating":
						domV = append(domV, st.Val)
					}
				}
			}
		})
		dep := func(vals []ssa.Value, field string) bool {
			for _, v := range vals {
				for x := range p.sliceWithControl(v) {
					if fa, ok := x.(*ssa.FieldAddr); ok {
						if f := fieldOf(fa); f != nil && f.Name() == field {
							return true
						}
					}
				}
			}
			return false
		}
		// ... or by control: the constant true is stored on one edge of a test of the flag, and not on the other
		byControl := false
		for _, st := range exclSt {
			for _, b := range ex.Blocks {
				ifi, ok := b.Instrs[len(b.Instrs)-1].(*ssa.If)
				if !ok {
					continue
				}
				tests := false
				for x := range p.backSlice(ifi.Cond, 0) {
					if fa, ok := x.(*ssa.FieldAddr); ok {
						if f := fieldOf(fa); f != nil && f.Name() == "negated" {
							tests = true
						}
					}
				}
				if tests && (guarded(st.Block(), []Edge{{b, 0}}) != guarded(st.Block(), []Edge{{b, 1}})) {
					byControl = true
				}
			}
		}
		c.check(len(exclV) > 0 && (dep(exclV, "negated") || byControl), R, name, "Excluded depends on negated", p.Pos(r.Pos()), "a matching '!' rule re-includes", "the Excluded result no longer depends on the matching rule's negation flag")
		c.check(len(domV) > 0 && dep(domV, "negationsAfter"), R, name, "Dominating depends on negationsAfter", p.Pos(r.Pos()), "Dominating is withheld when later negations exist", "Dominating no longer depends on whether negations follow the matching rule")
		// ... and on the matching rule selecting a whole subtree: only a pattern ending in "**" (a trailing
		// slash is spelled that way after parsing) matches everything below what it matched; "logs/*" also
		// matches the directory probe "logs/" without matching logs/app/debug.txt
		subtree := false
		for _, v := range domV {
			for x := range p.sliceWithControl(v) {
				cl, ok := x.(*ssa.Call)
				if !ok || !isFunc(calleeObj(cl), "strings", "HasSuffix") {
					continue
				}
				sfx, ok := constString(cl.Call.Args[1])
				if !ok || !strings.HasSuffix(sfx, "**") {
					continue
				}
				for y := range p.backSlice(cl.Call.Args[0], 0) {
					if fa, ok := y.(*ssa.FieldAddr); ok && fieldOf(fa) != nil && fieldOf(fa).Name() == "val" {
						subtree = true
					}
				}
			}
		}
		c.check(subtree, R, name, "Dominating only for subtree rules", p.Pos(r.Pos()), "Dominating is reported only when the matching pattern ends in \"**\"", "a match by a pattern that does not cover everything below (dir/*, which also matches the probe \"dir/\") is reported as Dominating: the walks then skip the directory and files whose own path no rule excludes (dir/sub/file) are left out")
		// the match result gates the update
		var matchRes ssa.Value = matchCall // the pattern's own answer where the matcher is written out
		if _, isTuple := matchCall.Type().(*types.Tuple); isTuple {
			matchRes = extractOf(matchCall, 0)
		}
		mT, _ := boolEdges(ex, matchRes)
		c.check(len(mT) > 0, R, name, "update gated by match", p.Pos(matchCall.Pos()), "the result is updated only for matching rules", "the per-rule match result does not gate the update")
	}
}

func ruleC03Off(c *Checker) {
	const R = "C03.off"
	c.rule(R, "With ignore processing off nothing is filtered: in Pack the rule file is parsed only past the true edge of the packer's applyTerraformIgnore option (otherwise the ruleset stays nil), and Excludes on a nil ruleset returns the zero result on an edge that precedes the rule loop; the bundle archive packer does not enable ignore processing.", 3)
	p := c.P
	pack := p.Fn("slug", "Packer.Pack")
	ex := p.Fn("ignorefiles", "Ruleset.Excludes")
	if pack == nil || ex == nil {
		c.anchorMissing(R, "(*Packer).Pack / (*Ruleset).Excludes")
		return
	}
	applyT, _ := condEdges(pack, func(v ssa.Value) bool {
		u, ok := v.(*ssa.UnOp)
		if !ok || u.Op != token.MUL {
			return false
		}
		fa, ok := u.X.(*ssa.FieldAddr)
		return ok && fieldOf(fa) != nil && fieldOf(fa).Name() == "applyTerraformIgnore"
	})
	n := 0
	applyEdges := func(f *ssa.Function) []Edge {
		t, _ := condEdges(f, func(v ssa.Value) bool {
			u, ok := v.(*ssa.UnOp)
			if !ok || u.Op != token.MUL {
				return false
			}
			fa, ok := u.X.(*ssa.FieldAddr)
			return ok && fieldOf(fa) != nil && fieldOf(fa).Name() == "applyTerraformIgnore"
		})
		return t
	}
	// every call that produces a Ruleset, anywhere reachable from Pack outside the rule package itself,
	// must be guarded by the option on every route from Pack
	for _, member := range sortedFuncs(p.reach(pack)) {
		if member.Package() != nil && strings.HasSuffix(member.Package().Pkg.Path(), "/ignorefiles") {
			continue
		}
		for _, ci := range callsIn(member) {
			cl, ok := ci.(*ssa.Call)
			if !ok {
				continue
			}
			g := cl.Common().StaticCallee()
			if g == nil || !p.InModule(g) || !returnsRuleset(g) {
				continue
			}
			if g.Package() == nil || !strings.HasSuffix(g.Package().Pkg.Path(), "/ignorefiles") {
				continue // a wrapper inside the packer: its own loader call is the obligation
			}
			n++
			okr, why := p.guardedOnEveryRoute(cl, pack, func(in ssa.Instruction) bool {
				return guarded(in.Block(), applyEdges(in.Parent()))
			}, 4)
			// guardedOnEveryRoute evaluates pred only in `top`; evaluate in intermediate functions too
			if !okr {
				okr = p.guardedSomewhereOnEveryRoute(cl, pack, func(in ssa.Instruction) bool {
					return guarded(in.Block(), applyEdges(in.Parent()))
				}, 4)
			}
			c.check(okr, R, p.FuncName(pack), "rules loaded only when enabled", p.Pos(cl.Pos()), "the rule file is parsed only on the applyTerraformIgnore=true edge (on every route from Pack)", "ignore rules are loaded although ignore processing is switched off: "+why)
		}
	}
	_ = applyT
	c.check(n > 0, R, p.FuncName(pack), "rule loading present", p.Pos(pack.Pos()), fmt.Sprintf("%d rule-loading call(s)", n), "Pack never loads ignore rules (ApplyTerraformIgnore has no effect)")
	// nil ruleset
	var recv *ssa.Parameter
	if len(ex.Params) > 0 {
		recv = ex.Params[0]
	}
	nilT, nilF := condEdges(ex, func(v ssa.Value) bool {
		bo, ok := v.(*ssa.BinOp)
		return ok && bo.Op == token.EQL && bo.X == ssa.Value(recv) && isNilConst(bo.Y)
	})
	okNil := len(nilT) > 0
	for _, e := range nilT {
		b := e.To()
		r, isRet := b.Instrs[len(b.Instrs)-1].(*ssa.Return)
		if !isRet {
			okNil = false
			continue
		}
		if cst, ok := r.Results[0].(*ssa.Const); !ok || cst.Value != nil {
			okNil = false
		}
	}
	c.check(okNil, R, p.FuncName(ex), "nil ruleset returns zero result", p.Pos(ex.Pos()), "nil receiver → ExcludesResult{} , nil", "a nil ruleset no longer yields 'not excluded'")
	for _, ci := range callsIn(ex) {
		if cl, ok := ci.(*ssa.Call); ok && inLoop(cl.Block()) {
			c.check(guarded(cl.Block(), nilF), R, p.FuncName(ex), "rule loop after nil test", p.Pos(cl.Pos()), "the loop is past the non-nil edge", "the rule loop can run on a nil ruleset")
			break
		}
	}
}

func returnsRuleset(g *ssa.Function) bool {
	res := g.Signature.Results()
	for i := 0; i < res.Len(); i++ {
		if n, ok := types.Unalias(derefType(res.At(i).Type())).(*types.Named); ok && n.Obj().Name() == "Ruleset" {
			return true
		}
	}
	return false
}

func ruleC03Shared(c *Checker) {
	const R = "C03.shared"
	c.rule(R, "Both walkers obtain rules only through the shared parser: Ruleset values are constructed only in ParseIgnoreFileContent and package initialisation (who-may-construct), and rule slices are produced only by the one rule reader.", 1)
	p := c.P
	rs := p.NamedType("ignorefiles", "Ruleset")
	if rs == nil {
		c.anchorMissing(R, "ignorefiles.Ruleset")
		return
	}
	parse := p.Fn("ignorefiles", "ParseIgnoreFileContent")
	for _, fn := range p.Funcs {
		eachInstr(fn, func(in ssa.Instruction) {
			al, ok := in.(*ssa.Alloc)
			if !ok {
				return
			}
			if n, ok := types.Unalias(derefType(al.Type())).(*types.Named); !ok || n != rs {
				return
			}
			okc := fn == parse || fn.Name() == "init" || strings.HasPrefix(fn.Name(), "init#")
			c.check(okc, R, p.FuncName(fn), "constructs Ruleset", p.Pos(al.Pos()), "constructed by the shared parser / package init", "a Ruleset is constructed outside the shared parser (walkers could disagree on rule semantics)")
		})
	}
}

// ruleC03Parse: the markers of the rule language each have their guarded effect.
func ruleC03Parse(c *Checker) {
	const R = "C03.parse"
	c.rule(R, "In the rule reader the markers of the rule language each have their effect: the only store of 'negated = true' lies on the true edge of a comparison of the line's first byte with '!', and on that edge earlier rules get negationsAfter set; a comparison of the first byte with '#' leads back to the loop without appending a rule; a comparison of the last byte with the separator appends \"**\"; a comparison of the first byte with the separator strips it, the other edge prepends \"**/\".", 5)
	p := c.P
	var rd *ssa.Function
	negVar := p.FieldVar("ignorefiles", "rule", "negated")
	for _, fn := range p.Funcs {
		if fn.Package() == nil || fn.Package().Pkg.Path() != p.PkgPath("ignorefiles") {
			continue
		}
		if len(callsTo(fn, func(o *types.Func) bool { return isMethod(o, "bufio", "Scanner", "Scan") })) > 0 {
			rd = fn
		}
	}
	if rd == nil || negVar == nil {
		c.anchorMissing(R, "the rule reader (function in ignorefiles looping over bufio.Scanner.Scan) / rule.negated")
		return
	}
	name := p.FuncName(rd)
	byteCmp := func(ch byte, first bool) (t, f []Edge) {
		match := func(op token.Token) func(v ssa.Value) bool {
			return func(v ssa.Value) bool {
				bo, ok := v.(*ssa.BinOp)
				if !ok || bo.Op != op {
					return false
				}
				k, ok := constInt(bo.Y)
				if !ok || k != int64(ch) {
					return false
				}
				ix, ok := bo.X.(*ssa.Index)
				if !ok {
					// os.PathSeparator comparisons convert the byte
					if cv, ok2 := bo.X.(*ssa.Convert); ok2 {
						ix, ok = cv.X.(*ssa.Index)
					}
					if !ok {
						return false
					}
				}
				i0, isC := constInt(ix.Index)
				if first {
					return isC && i0 == 0
				}
				return !isC
			}
		}
		t, f = condEdges(rd, match(token.EQL))
		f2, t2 := condEdges(rd, match(token.NEQ)) // x != c: its true edge is the "differs" edge
		return append(t, t2...), append(f, f2...)
	}
	// every line that is neither blank nor a comment appends a rule: each way back to the
	// scan loop's head either passes the append of the rule or lies on an enumerated skip edge
	var scanCall *ssa.Call
	for _, ci := range callsTo(rd, func(o *types.Func) bool { return isMethod(o, "bufio", "Scanner", "Scan") }) {
		scanCall = ci.(*ssa.Call)
	}
	var ruleAppend *ssa.Call
	eachInstr(rd, func(in ssa.Instruction) {
		if cl, ok := in.(*ssa.Call); ok && inLoop(cl.Block()) {
			if bi, ok := cl.Call.Value.(*ssa.Builtin); ok && bi.Name() == "append" {
				if sl, ok := cl.Type().Underlying().(*types.Slice); ok {
					if n, ok := types.Unalias(sl.Elem()).(*types.Named); ok && n.Obj().Name() == "rule" {
						ruleAppend = cl
					}
				}
			}
		}
	})
	if scanCall != nil && ruleAppend != nil {
		head := scanCall.Block()
		emptyT, _ := condEdges(rd, func(v ssa.Value) bool {
			bo, ok := v.(*ssa.BinOp)
			if !ok || bo.Op != token.EQL {
				return false
			}
			if k, isC := constInt(bo.Y); isC && k == 0 && lenOf(bo.X) != nil {
				return true
			}
			s2, isC := constString(bo.Y)
			return isC && s2 == ""
		})
		hashSkip, _ := byteCmp('#', true)
		skips := append(append([]Edge{}, emptyT...), hashSkip...)
		for i, pr := range head.Preds {
			if !reaches(head, pr) {
				continue
			}
			okb := dominatesBlock(ruleAppend.Block(), pr) || guarded(pr, skips)
			for _, e := range skips {
				if e.From == pr && e.To() == head {
					okb = true // the skip edge itself leads back to the scanner
				}
			}
			c.check(okb, R, name, fmt.Sprintf("line %d-th way back to the scanner", i), p.Pos(firstPos(pr)), "after appending the rule, or on a blank-line / comment / lone-'!' edge", "a rule line can be dropped without becoming a rule (e.g. a repeated pattern treated as redundant): a later occurrence that should win as the last match is lost")
		}
	} else {
		c.fail(R, name, "rule append in the scan loop", p.Pos(rd.Pos()), "no append of a rule inside the scanning loop found")
	}
	// '!' → negated
	bangT, _ := byteCmp('!', true)
	nNeg := 0
	bangAsValue := false
	eachInstr(rd, func(in ssa.Instruction) {
		st, ok := in.(*ssa.Store)
		if !ok {
			return
		}
		fa, ok := st.Addr.(*ssa.FieldAddr)
		if !ok || fieldOf(fa) != negVar {
			return
		}
		if b, isC := constBool(st.Val); isC && b {
			nNeg++
			c.check(guarded(st.Block(), bangT), R, name, "negated set on '!'", p.Pos(st.Pos()), "rule.negated = true only for lines starting with '!'", "a rule is marked negated without a leading '!'")
		} else if bo, ok := st.Val.(*ssa.BinOp); ok && bo.Op == token.EQL {
			// `negated := pattern[0] == '!'`: the test itself is the flag
			if k, isC := constInt(bo.Y); isC && k == '!' {
				nNeg++
				bangAsValue = true
				c.pass(R, name, "negated set on '!'", p.Pos(st.Pos()), "rule.negated is the result of the '!' test")
			}
		} else if ph, ok := st.Val.(*ssa.Phi); ok {
			// the flag comes out of the line parser as a value: true on the ways in that are past the '!' test only
			okAll, some := true, false
			for i, e := range ph.Edges {
				b, isC := constBool(e)
				if !isC {
					okAll = false
					continue
				}
				if !b {
					continue
				}
				some = true
				pr := ph.Block().Preds[i]
				onEdge := false
				for _, be := range bangT {
					if be.From == pr && be.To() == ph.Block() {
						onEdge = true
					}
				}
				if !onEdge && !guarded(pr, bangT) {
					okAll = false
				}
			}
			if some {
				nNeg++
				c.check(okAll, R, name, "negated set on '!'", p.Pos(st.Pos()), "rule.negated is true only on the ways that are past the '!' test", "a rule is marked negated without a leading '!'")
			}
		}
	})
	c.check(nNeg > 0 && (len(bangT) > 0 || bangAsValue), R, name, "'!' recognised", p.Pos(rd.Pos()), "a leading '!' negates the rule", "a leading '!' is no longer recognised as negation")
	// a branch on the rule's own 'negated' flag is the '!' branch too, when the flag of that local rule (or of
	// the local it was copied from) is set to true only past the '!' test: a fresh local starts out false
	negVar = p.FieldVar("ignorefiles", "rule", "negated")
	var trueOnlyPastBang func(al *ssa.Alloc, depth int) bool
	trueOnlyPastBang = func(al *ssa.Alloc, depth int) bool {
		if depth > 4 || al.Referrers() == nil || al.Heap {
			return false
		}
		for _, r := range *al.Referrers() {
			switch x := r.(type) {
			case *ssa.FieldAddr:
				if fieldOf(x) != negVar || x.Referrers() == nil {
					continue
				}
				for _, rr := range *x.Referrers() {
					st, ok := rr.(*ssa.Store)
					if !ok || st.Addr != ssa.Value(x) {
						continue
					}
					b, isC := constBool(st.Val)
					if isC && !b {
						continue
					}
					if !isC || !guarded(st.Block(), bangT) {
						return false
					}
				}
			case *ssa.Store:
				if x.Addr != ssa.Value(al) {
					continue
				}
				if k, isC := x.Val.(*ssa.Const); isC && k.Value == nil {
					continue // rule{}
				}
				ld, ok := x.Val.(*ssa.UnOp)
				if !ok || ld.Op != token.MUL {
					return false
				}
				src, ok := ld.X.(*ssa.Alloc)
				if !ok || !trueOnlyPastBang(src, depth+1) {
					return false
				}
			}
		}
		return true
	}
	bangAll := append([]Edge{}, bangT...)
	if len(bangT) > 0 && negVar != nil {
		for _, b := range rd.Blocks {
			ifi, ok := b.Instrs[len(b.Instrs)-1].(*ssa.If)
			if !ok {
				continue
			}
			cnd, neg := stripNot(ifi.Cond)
			ld, ok := cnd.(*ssa.UnOp)
			if !ok || ld.Op != token.MUL {
				continue
			}
			fa, ok := ld.X.(*ssa.FieldAddr)
			if !ok || fieldOf(fa) != negVar {
				continue
			}
			al, ok := fa.X.(*ssa.Alloc)
			if !ok || !trueOnlyPastBang(al, 0) {
				continue
			}
			k := 0
			if neg {
				k = 1
			}
			bangAll = append(bangAll, Edge{b, k})
		}
	}
	// negationsAfter flagged on the '!' edge
	naVar := p.FieldVar("ignorefiles", "rule", "negationsAfter")
	nNA := 0
	for member := range p.family(rd) {
		eachInstr(member, func(in ssa.Instruction) {
			st, ok := in.(*ssa.Store)
			if !ok {
				return
			}
			fa, ok := st.Addr.(*ssa.FieldAddr)
			if !ok || fieldOf(fa) != naVar {
				return
			}
			nNA++
			okg := p.guardedSomewhereOnEveryRoute(st, rd, func(x ssa.Instruction) bool {
				return x.Parent() == rd && guarded(x.Block(), bangAll)
			}, 3)
			c.check(okg, R, name, "negationsAfter set on '!'", p.Pos(st.Pos()), "earlier rules learn that a negation follows", "negationsAfter is set outside the negation branch")
			// the marking loop marks every rule it visits: its only way on to the next rule without marking this one
			// is the way out (the rule is marked already, and with it all before it — the marks form a prefix)
			if inLoop(st.Block()) {
				head := innerLoopHead(st.Block())
				isMark := func(x ssa.Instruction) bool {
					s2, ok := x.(*ssa.Store)
					if !ok {
						return false
					}
					f2, ok := s2.Addr.(*ssa.FieldAddr)
					return ok && fieldOf(f2) == naVar
				}
				inner := map[*ssa.BasicBlock]bool{head: true}
				for _, lb := range ex2Blocks(st.Block().Parent()) {
					if lb != head && blockDominates(head, lb) && reaches(lb, head) {
						inner[lb] = true
					}
				}
				for _, sb := range head.Succs {
					if !inner[sb] || sb == head {
						continue
					}
					// inside the loop, from the body's entry back to the header: a mark on every way
					ok2 := true
					var off ssa.Instruction
					seen := map[*ssa.BasicBlock]bool{}
					work := []*ssa.BasicBlock{sb}
					for len(work) > 0 && ok2 {
						x := work[len(work)-1]
						work = work[:len(work)-1]
						if seen[x] {
							continue
						}
						seen[x] = true
						marked := false
						for _, in2 := range x.Instrs {
							if isMark(in2) {
								marked = true
								break
							}
						}
						if marked {
							continue
						}
						// the true edge of a test of the rule's own mark: the rule is marked already
						markedEdge := -1
						if ifi, ok := x.Instrs[len(x.Instrs)-1].(*ssa.If); ok {
							if ld, ok := ifi.Cond.(*ssa.UnOp); ok && ld.Op == token.MUL {
								if f2, ok := ld.X.(*ssa.FieldAddr); ok && fieldOf(f2) == naVar {
									markedEdge = 0
								}
							}
						}
						for k, sx := range x.Succs {
							if k == markedEdge {
								continue
							}
							if sx == head {
								ok2, off = false, x.Instrs[len(x.Instrs)-1]
								break
							}
							if inner[sx] {
								work = append(work, sx)
							}
						}
					}
					pos := p.Pos(st.Pos())
					if off != nil && off.Pos().IsValid() {
						pos = p.Pos(off.Pos())
					}
					c.check(ok2, R, name, "every rule visited by the marking loop is marked", pos, "no way round the mark inside the loop", "the marking loop can pass a rule without marking it and go on: the loop's early exit relies on the marks forming a prefix, so a later negation stops at the first marked rule and never reaches the unmarked one behind it — a directory it excludes is reported as dominating and skipped whole")
				}
			}
		})
	}
	c.check(nNA > 0, R, name, "earlier rules flagged", p.Pos(rd.Pos()), "a negation flags the rules before it", "a negation no longer flags the rules before it (directories would be pruned although something below is re-included)")
	// '#' → no append on that edge
	hashT, _ := byteCmp('#', true)
	okHash := len(hashT) > 0
	for _, e := range hashT {
		// from the edge, the loop head must be reached without passing an append of a rule
		reach := reachAvoiding(e.To(), map[*ssa.BasicBlock]bool{loopHeadOf(e.From): true})
		for b := range reach {
			for _, in := range b.Instrs {
				if cl, ok := in.(*ssa.Call); ok {
					if bi, ok := cl.Call.Value.(*ssa.Builtin); ok && bi.Name() == "append" {
						okHash = false
					}
				}
			}
		}
	}
	c.check(okHash, R, name, "'#' comment skipped", p.Pos(rd.Pos()), "a line starting with '#' adds no rule", "comment lines are no longer skipped")
	// what stopped the scanner is asked before the rules are handed out
	{
		errCalls := callsTo(rd, func(o *types.Func) bool { return isMethod(o, "bufio", "Scanner", "Err") })
		okErr := len(errCalls) > 0
		for _, r := range successReturns(rd) {
			if ok2, _ := mustPassBackward(r, func(in ssa.Instruction) bool {
				ci, isC := in.(ssa.CallInstruction)
				return isC && isMethod(calleeObj(ci), "bufio", "Scanner", "Err")
			}); !ok2 {
				okErr = false
			}
		}
		c.check(okErr, R, name, "scanner error asked before the rules are returned", p.Pos(rd.Pos()), "every success return lies past scanner.Err()", "the rules are returned without asking the scanner why it stopped: a line longer than the scanner's buffer (or a read error) ends the loop early, and the rules read so far are used as if they were all — what a later rule excludes is shipped")
	}
	// the line loop is left only from its header (no break on a line that is merely skipped)
	for _, ci := range callsTo(rd, func(o *types.Func) bool { return isMethod(o, "bufio", "Scanner", "Scan") }) {
		cl, ok := ci.(*ssa.Call)
		if !ok {
			continue
		}
		tE, _ := boolEdges(rd, cl)
		if len(tE) == 0 {
			continue
		}
		head := tE[0].From
		body := map[*ssa.BasicBlock]bool{}
		for b := range reachFromEdge(tE[0]) {
			if reaches(b, head) || b == head {
				body[b] = true
			}
		}
		okExit := true
		var badPos token.Pos
		for b := range body {
			if b == head {
				continue
			}
			for _, s2 := range b.Succs {
				if body[s2] {
					continue
				}
				// leaving the loop from its body: only straight into an error return
				if rej, _ := returnsNonNilErrorFrom(s2); !rej {
					okExit = false
					badPos = b.Instrs[len(b.Instrs)-1].Pos()
				}
			}
		}
		c.check(okExit, R, name, "line loop left only at the end of input", p.Pos(badPos), "no exit from the loop body other than an error return", "the loop over the lines can be left from its body (a break where a line is merely to be skipped): every rule after such a line — a lone '!', a comment, a blank line — is dropped without any error")
	}
	// trailing separator → "**" appended ; leading separator
	sepLastT, _ := byteCmp('/', false)
	sepFirstT, sepFirstF := byteCmp('/', true)
	hasConstAdd := func(edges []Edge, want string, wantLeft bool) bool {
		for _, e := range edges {
			for _, in := range e.To().Instrs {
				if bo, ok := in.(*ssa.BinOp); ok && bo.Op == token.ADD {
					if s, ok := constString(bo.Y); ok && !wantLeft && s == want {
						return true
					}
					if s, ok := constString(bo.X); ok && wantLeft && s == want {
						return true
					}
				}
			}
		}
		return false
	}
	c.check(len(sepLastT) > 0 && hasConstAdd(sepLastT, "**", false), R, name, "trailing separator selects the subtree", p.Pos(rd.Pos()), "pattern + \"**\" on the trailing-separator edge", "a trailing '/' no longer extends the pattern to everything below")
	c.check(len(sepFirstT) > 0 && hasConstAdd(sepFirstF, "**/", true), R, name, "unanchored patterns get **/ prefix", p.Pos(rd.Pos()), "\"**/\" + pattern unless the pattern starts with the separator", "patterns without a leading '/' are no longer matched at any depth (or anchored ones no longer anchored)")
	stripped := false
	for _, e := range sepFirstT {
		for _, in := range e.To().Instrs {
			if sl, ok := in.(*ssa.Slice); ok {
				if lo, ok := constInt(sl.Low); ok && lo == 1 {
					stripped = true
				}
			}
		}
	}
	c.check(stripped, R, name, "leading separator anchors", p.Pos(rd.Pos()), "the leading separator is stripped and no **/ is added", "a leading '/' no longer anchors the pattern to the root")
}

// removesPath: the instruction removes the entry at path — os.RemoveAll /
// os.Remove of it, or a call to a private helper that always does so with the
// corresponding argument.
func (p *Prog) removesPath(in ssa.Instruction, path ssa.Value) bool {
	cl, ok := in.(*ssa.Call)
	if !ok || path == nil {
		return false
	}
	o := calleeObj(cl)
	if isFunc(o, "os", "RemoveAll") || isFunc(o, "os", "Remove") {
		return canon(cl.Call.Args[0]) == canon(path)
	}
	g := cl.Common().StaticCallee()
	if g == nil || !p.InModule(g) || g.Parent() != nil || (g.Object() != nil && g.Object().Exported()) {
		return false
	}
	for i, a := range cl.Call.Args {
		if canon(a) != canon(path) || i >= len(g.Params) {
			continue
		}
		prm := g.Params[i]
		if p.helperAlways(g, func(x ssa.Instruction) bool {
			c2, ok := x.(*ssa.Call)
			return ok && (isFunc(calleeObj(c2), "os", "RemoveAll") || isFunc(calleeObj(c2), "os", "Remove")) && canon(c2.Call.Args[0]) == ssa.Value(prm)
		}, 1) {
			return true
		}
	}
	return false
}

// sliceWithControl: backSlice plus, for every phi in it, the branch
// conditions that decide which edge the phi is entered over (a && b lowered
// to control flow makes the result depend on a only through the branch).
func (p *Prog) sliceWithControl(v ssa.Value) map[ssa.Value]bool {
	out := map[ssa.Value]bool{}
	var add func(v ssa.Value, depth int)
	add = func(v ssa.Value, depth int) {
		for x := range p.backSlice(v, 0) {
			if out[x] {
				continue
			}
			out[x] = true
			ph, ok := x.(*ssa.Phi)
			if !ok || depth > 4 {
				continue
			}
			stop := idomOf(ph.Block())
			for _, pr := range ph.Block().Preds {
				for b := pr; b != nil && b != stop; b = idomOf(b) {
					if ifi, ok := b.Instrs[len(b.Instrs)-1].(*ssa.If); ok {
						add(ifi.Cond, depth+1)
					}
				}
				if stop != nil {
					if ifi, ok := stop.Instrs[len(stop.Instrs)-1].(*ssa.If); ok {
						add(ifi.Cond, depth+1)
					}
				}
			}
		}
	}
	add(v, 0)
	return out
}

// C03.rulefile — the rule file is examined through links.
func ruleC03RuleFile(c *Checker) {
	const R = "C03.rulefile"
	c.rule(R, "Where a loader examines the rule file before opening it (to refuse a directory or a fifo named .terraformignore), it does so with os.Stat — which follows a symbolic link, as the os.Open after it does — not os.Lstat: a rule file that is a link to a regular file is otherwise taken for 'not a regular file', the loader falls back to the built-in rules (Pack) or fails the build (bundle), and every file only a user rule excludes is shipped.", 2)
	p := c.P
	n := 0
	for _, fn := range p.Funcs {
		pk := fn.Package()
		if pk == nil || (pk.Pkg.Path() != p.PkgPath("slug") && pk.Pkg.Path() != p.PkgPath("ignorefiles")) {
			continue
		}
		for _, ci := range callsTo(fn, func(o *types.Func) bool { return isFunc(o, "os", "Stat") || isFunc(o, "os", "Lstat") }) {
			named := false
			for w := range p.backSlice(ci.Common().Args[0], 2) {
				if k, ok := constString(w); ok && strings.Contains(k, ".terraformignore") {
					named = true
				}
			}
			if !named {
				continue
			}
			n++
			c.check(isFunc(calleeObj(ci), "os", "Stat"), R, p.FuncName(fn), "rule file examined with Stat", p.Pos(ci.Pos()), "os.Stat", "the rule file is examined with os.Lstat: a .terraformignore that is a symbolic link to a regular file is classed as not regular, so the user's rules are not loaded — Pack silently applies only the built-in rules and ships what the user excluded")
		}
	}
	_ = n
}

// C03.matcherr — a rule that does not compile matches nothing.
func ruleC03MatchErr(c *Checker) {
	const R = "C03.matcherr"
	c.rule(R, "In the module's (bool, error) functions that answer 'does this rule match', a return with a non-nil error carries false: Pack ignores per-rule errors by design, so a true next to the error makes an uncompilable line ('[') match every path — everything is dropped from the slug.", 1)
	p := c.P
	n := 0
	for _, fn := range p.Funcs {
		if fn.Package() == nil || fn.Package().Pkg.Path() != p.PkgPath("ignorefiles") {
			continue
		}
		res := fn.Signature.Results()
		if res.Len() != 2 || !isBoolType(res.At(0).Type()) || !isErrorType(res.At(1).Type()) {
			continue
		}
		for i, r := range returnsOf(fn) {
			if mayReturnNilErr(r) {
				continue
			}
			n++
			b, isC := constBool(r.Results[0])
			c.check(isC && !b, R, p.FuncName(fn), fmt.Sprintf("error return %d answers false", i), p.Pos(r.Pos()), "(false, err)", "an error return answers true (or a computed value): a rule that cannot be evaluated then counts as matching")
		}
	}
	if n == 0 {
		// no matcher function: the matcher is written out in the rule loop. Then a rule that cannot be
		// compiled must not reach the question put to its pattern in the same iteration.
		if mc := inlineRuleMatch(p); mc != nil {
			fn := mc.Parent()
			head := loopHeadOf(mc.Block())
			for _, ci := range callsIn(fn) {
				cl, ok := ci.(*ssa.Call)
				if !ok || !inLoop(cl.Block()) || cl == mc || loopHeadOf(cl.Block()) != head {
					continue
				}
				res := cl.Call.Signature().Results()
				if res.Len() == 0 || !isErrorType(res.At(res.Len()-1).Type()) {
					continue
				}
				_, errE := okEdgesOfCall(cl)
				for i, e := range errE {
					n++
					reached := reachAvoiding(e.To(), map[*ssa.BasicBlock]bool{head: true})[mc.Block()]
					c.check(!reached, R, p.FuncName(fn), fmt.Sprintf("failed preparation %d does not match", i), p.Pos(cl.Pos()), "the rule is skipped for this path", "a rule that could not be prepared is still asked (or counted) in the same iteration")
				}
			}
		}
	}
}

// bundleWalkSet: the bundle preparation walk callbacks, as a set (they remove instead of pruning).
func bundleWalkSet(p *Prog) map[*ssa.Function][]int {
	out := map[*ssa.Function][]int{}
	for _, f := range bundleWalks(p) {
		out[f] = []int{1}
	}
	return out
}

// inlineRuleMatch: when the ignore-file package has no (bool, error) matcher function, the call of
// (*regexp.Regexp).MatchString inside the rule loop of Ruleset.Excludes.
func inlineRuleMatch(p *Prog) *ssa.Call {
	ex := p.Fn("ignorefiles", "Ruleset.Excludes")
	if ex == nil {
		return nil
	}
	var out *ssa.Call
	for _, ci := range callsIn(ex) {
		cl, ok := ci.(*ssa.Call)
		if ok && inLoop(cl.Block()) && isMethod(calleeObj(cl), "regexp", "Regexp", "MatchString") {
			if out != nil {
				return nil // more than one question per rule: not the plain written-out matcher
			}
			out = cl
		}
	}
	return out
}

// innerLoopHead: the header of the innermost natural loop b lies in (the nearest dominator of b, or b itself,
// that has a back edge from a block it dominates and from which b is reached round the loop).
func innerLoopHead(b *ssa.BasicBlock) *ssa.BasicBlock {
	for d := b; d != nil; d = idomOf(d) {
		back := false
		for _, pr := range d.Preds {
			if pr == d || blockDominates(d, pr) {
				if pr == b || reaches(b, pr) || b == d {
					back = true
				}
			}
		}
		if back {
			return d
		}
	}
	return loopHeadOf(b)
}

func ex2Blocks(fn *ssa.Function) []*ssa.BasicBlock { return fn.Blocks }
