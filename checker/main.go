// slugcheck decides structural necessary conditions of the go-slug properties
// C01..C20 by static analysis of the current source tree. See /verif/DESIGN.md.
package main

import (
	"encoding/json"
	"flag"
	"fmt"
	"golang.org/x/tools/go/ssa"
	"os"
	"path/filepath"
	"runtime/debug"
	"sort"
	"strconv"
	"strings"
	"time"
)

type propDef struct {
	Title       string
	Rules       []func(*Checker)
	NotDecided  []string
	Assumptions []string
	// ConfigSensitive: re-run under the tagged build configurations in the
	// thorough tier (properties touching internal/unpackinfo).
	ConfigSensitive bool
}

var props = map[string]*propDef{}

func register(id string, d *propDef) { props[id] = d }

var verifDir = "/verif"

func main() {
	var (
		prop     = flag.String("property", "", "property id (C01..C20)")
		tier     = flag.String("tier", "quick", "quick|thorough")
		root     = flag.String("root", "/repo", "tree to analyse")
		replay   = flag.String("replay", "", "replay file: re-evaluate that obligation")
		dump     = flag.Bool("dump", false, "print every obligation")
		noSelf   = flag.Bool("noselftest", false, "skip fixtures/mutants")
		noEv     = flag.Bool("noevidence", false, "do not write evidence/replays (used for scratch roots)")
		vdir     = flag.String("verif", "", "verification directory (default: directory above the binary, else /verif)")
		listProp = flag.Bool("list", false, "list implemented properties")
		listFn   = flag.Bool("listfuncs", false, "print the named functions of -root with their signatures (the reference decomposition kept in checker/known_funcs.txt)")
		allMode  = flag.Bool("all", false, "sweep mode: run the rules of every property on one load of -root (default configuration) and print each undischarged obligation as 'FAILKEY <property> <rule>|<key>'; writes nothing")
	)
	flag.Parse()
	if *vdir != "" {
		verifDir = *vdir
	} else if exe, err := os.Executable(); err == nil {
		d := filepath.Dir(filepath.Dir(exe))
		if _, err := os.Stat(filepath.Join(d, "properties.jsonl")); err == nil {
			verifDir = d
		}
	}
	if *listProp {
		var ids []string
		for id := range props {
			ids = append(ids, id)
		}
		sort.Strings(ids)
		fmt.Println(strings.Join(ids, " "))
		return
	}
	if t := os.Getenv("VERIF_TIER"); t != "" && !flagSet("tier") {
		*tier = t
	}
	wantKey := ""
	if *replay != "" {
		b, err := os.ReadFile(*replay)
		if err != nil {
			fmt.Println("CHECKER-ERROR cannot read replay file:", err)
			os.Exit(2)
		}
		var r struct {
			Property   string `json:"property"`
			Obligation Oblig  `json:"obligation"`
		}
		if err := json.Unmarshal(b, &r); err != nil {
			fmt.Println("CHECKER-ERROR bad replay file:", err)
			os.Exit(2)
		}
		*prop = r.Property
		wantKey = r.Obligation.Rule + "|" + r.Obligation.Key
		*noEv = true
		*noSelf = true
	}
	if *listFn {
		os.Setenv("SLUGCHECK_NOINLINE", "1")
		seen := map[string]string{}
		for _, bc := range append([]BuildConfig{defaultConfig}, thoroughConfigs...) {
			p, err := loadProg(*root, bc)
			if err != nil {
				continue // a configuration that does not type-check is skipped by the checks as well
			}
			for _, fn := range p.Funcs {
				if fn.Parent() == nil {
					seen[p.FuncName(fn)] = fn.Signature.String()
				}
			}
			for f, k := range p.moduleStructFields() {
				seen[k] = f.Type().String()
			}
		}
		var names []string
		for n := range seen {
			names = append(names, n)
		}
		sort.Strings(names)
		for _, n := range names {
			fmt.Printf("%s\t%s\n", n, seen[n])
		}
		return
	}
	if *allMode {
		os.Exit(runAll(*root))
	}
	def := props[*prop]
	if def == nil {
		fmt.Printf("CHECKER-ERROR unknown or unimplemented property %q\n", *prop)
		os.Exit(2)
	}
	seed := int64(0)
	if s := os.Getenv("VERIF_SEED"); s != "" {
		if v, err := strconv.ParseInt(s, 10, 64); err == nil {
			seed = v
		}
	}
	os.Exit(run(*prop, def, *tier, *root, seed, *dump, *noSelf, *noEv, wantKey))
}

// runAll is the sweep mode used by tools/mutsweep.py: one load (two when the tree has new helpers), every property.
func runAll(root string) int {
	p, err := loadProgView(root, defaultConfig, true)
	if err != nil {
		fmt.Println("CHECKER-ERROR", firstLine(err.Error()))
		return 2
	}
	if err := closedWorld(p); err != nil {
		fmt.Println("CHECKER-ERROR", firstLine(err.Error()))
		return 2
	}
	var p2 *Prog
	if p.Inlined > 0 && os.Getenv("SLUGCHECK_ONEVIEW") == "" {
		p2, err = loadProgView(root, defaultConfig, false)
		if err != nil {
			p2 = nil
		}
	}
	var ids []string
	for id := range props {
		ids = append(ids, id)
	}
	sort.Strings(ids)
	if only := os.Getenv("SLUGCHECK_ONLY"); only != "" && props[only] != nil {
		ids = []string{only} // the thorough tier's self-test asks for one property per variant, in parallel processes
	}
	for _, id := range ids {
		func() {
			defer func() {
				if r := recover(); r != nil {
					fmt.Printf("FAILKEY %s analyser-panic|%v\n", id, r)
				}
			}()
			runOn := func(p *Prog) *Checker {
				gp = p
				c := newChecker(p, id, "quick")
				for _, r := range props[id].Rules {
					r(c)
				}
				c.applyFloors()
				return c
			}
			c := runOn(p)
			if p2 != nil {
				var c2 *Checker
				func() {
					defer func() {
						if r := recover(); r != nil {
							c2 = nil
						}
					}()
					c2 = runOn(p2)
				}()
				if c2 != nil {
					c = mergeViews(c, c2)
				}
			}
			seen := map[string]bool{}
			for _, o := range c.Obls {
				k := o.Rule + "|" + o.Key
				if !o.OK && !seen[k] {
					seen[k] = true
					fmt.Printf("FAILKEY %s %s\n", id, k)
				}
			}
		}()
	}
	fmt.Println("ALLDONE")
	return 0
}

func flagSet(name string) bool {
	set := false
	flag.Visit(func(f *flag.Flag) {
		if f.Name == name {
			set = true
		}
	})
	return set
}

// analyse runs a property's rules on one tree under one configuration.
//
// A tree that contains functions the reference tree does not have is analysed
// in two equivalent forms: with those functions inlined into their callers,
// and as written. A rule that establishes something (a guard on every path, a
// provenance) and whose obligations are all discharged in one of the forms is
// discharged — the two forms are the same program, what is shown for one holds
// for the other; if it fails in both it is reported from the form in which
// fewer of its obligations fail. A rule that looks for something that must not
// occur (Checker.absence) has to be clean in both forms.
func analyse(prop string, def *propDef, tier, root string, bc BuildConfig) (c *Checker, err error) {
	defer func() {
		if r := recover(); r != nil {
			err = cerrf("analyser panic under %s: %v\n%s", bc.Name, r, debug.Stack())
		}
	}()
	runOn := func(p *Prog) (*Checker, error) {
		if err := closedWorld(p); err != nil {
			return nil, err
		}
		c := newChecker(p, prop, tier)
		gp = p
		for _, r := range def.Rules {
			r(c)
		}
		c.applyFloors()
		return c, nil
	}
	var p *Prog
	func() {
		defer func() {
			if r := recover(); r != nil {
				p, err = nil, nil // the inliner could not cope: the program is analysed as written only
			}
		}()
		p, err = loadProgView(root, bc, true)
	}()
	if err != nil {
		return nil, err
	}
	if p != nil && (p.Inlined == 0 || os.Getenv("SLUGCHECK_ONEVIEW") != "") {
		return runOn(p)
	}
	// new helpers: two forms of the same program
	if p != nil {
		func() {
			defer func() {
				if r := recover(); r != nil {
					c = nil // a rule that cannot cope with the inlined form does not get its benefit
				}
			}()
			c, err = runOn(p)
		}()
		if err != nil {
			return nil, err
		}
	}
	p2, err := loadProgView(root, bc, false)
	if err != nil {
		return nil, err
	}
	c2, err := runOn(p2)
	if err != nil {
		return nil, err
	}
	if c == nil {
		return c2, nil
	}
	return mergeViews(c, c2), nil
}

// mergeViews: see analyse. a is the form with new helpers inlined, b the program as written.
func mergeViews(a, b *Checker) *Checker {
	fails := func(c *Checker) map[string]int {
		m := map[string]int{}
		for _, o := range c.Obls {
			if !o.OK {
				m[o.Rule]++
			}
		}
		return m
	}
	fa, fb := fails(a), fails(b)
	useB := map[string]bool{}
	for _, r := range a.ruleOrder {
		if a.absenceOf[r] || b.absenceOf[r] {
			// "no X anywhere": X may be out of sight in one form (the call of a new helper is the X, and
			// inlining removes it; or X sits in a helper the rule does not enter) — both forms must be clean
			if fa[r] == 0 && fb[r] > 0 {
				useB[r] = true
			}
			continue
		}
		switch {
		case fa[r] == 0:
		case fb[r] == 0, fb[r] < fa[r]:
			useB[r] = true
		}
	}
	out := *a
	out.Obls = nil
	for _, o := range a.Obls {
		if !useB[o.Rule] {
			out.Obls = append(out.Obls, o)
		}
	}
	for _, o := range b.Obls {
		if useB[o.Rule] {
			out.Obls = append(out.Obls, o)
		}
	}
	return &out
}

func run(prop string, def *propDef, tier, root string, seed int64, dump, noSelf, noEv bool, wantKey string) int {
	t0 := time.Now()
	configs := []BuildConfig{defaultConfig}
	if tier == "thorough" && def.ConfigSensitive {
		configs = append(configs, thoroughConfigs...)
	}
	sum := &runSummary{Prop: prop, Tier: tier, Seed: seed, RuleTexts: map[string]string{}, Extra: map[string]any{}}
	sum.Assumptions = append([]string{
		"go/types and go/ssa (x/tools v0.29.0) represent the program faithfully under the listed build configurations",
		"library semantics are as documented and are not analysed (os, path/filepath, io/fs, archive/tar, compress/gzip, net/url, regexp, sort, dirhash, go-versions, terraform-registry-address)",
		"closed world: address, Bundle, Builder, Packer and PackageMeta fields are unexported (re-verified on every run), so every construction and field write is inside this module",
		"a discharged obligation means the named structural necessary condition holds on every path/site, not that the run-time behaviour is proved",
	}, def.Assumptions...)
	seenKey := map[string]bool{}
	for _, bc := range configs {
		c, err := analyse(prop, def, tier, root, bc)
		if err != nil {
			if bc != defaultConfig && strings.Contains(err.Error(), "load/type errors") {
				// a tagged configuration that does not build (e.g. the 32-bit lchtimes file, whose
				// Timeval fields are int32) is not a configuration anybody runs: skip, but say so
				msg := fmt.Sprintf("config %s skipped: does not type-check (%s)", bc.Name, firstLine(err.Error()))
				fmt.Println("  " + msg)
				sum.Extra["configs_skipped"] = append(asStrings(sum.Extra["configs_skipped"]), msg)
				continue
			}
			fmt.Printf("CHECKER-ERROR property=%s %v\n", prop, err)
			return 2
		}
		sum.Configs = append(sum.Configs, bc.Name)
		if bc == defaultConfig {
			sum.Packages, sum.Files, sum.Functions = len(c.P.Pkgs), c.P.NFiles, len(c.P.Funcs)
			sum.RuleOrder = c.ruleOrder
			for k, v := range c.RuleTexts {
				sum.RuleTexts[k] = v
			}
			sum.NotDecided = append(append([]string{}, def.NotDecided...), c.NotDecided...)
		}
		for _, o := range c.Obls {
			k := o.Rule + "|" + o.Key
			if bc != defaultConfig {
				// the same construct in another configuration is the same obligation
				if seenKey[k] && o.OK {
					continue
				}
				if seenKey[k] && !o.OK {
					k += "@" + bc.Name
				}
			}
			if seenKey[k] {
				continue
			}
			seenKey[k] = true
			sum.Obls = append(sum.Obls, o)
		}
	}
	sortObls(sum.Obls)
	if sum.Packages == 0 {
		fmt.Printf("CHECKER-ERROR property=%s zero packages analysed\n", prop)
		return 2
	}

	kf, err := loadFindings(filepath.Join(verifDir, "known_findings.json"))
	if err != nil {
		fmt.Printf("CHECKER-ERROR property=%s %v\n", prop, err)
		return 2
	}
	exit := 0
	byRule := map[string][2]int{}
	for _, o := range sum.Obls {
		x := byRule[o.Rule]
		x[0]++
		if o.OK {
			x[1]++
		}
		byRule[o.Rule] = x
	}
	fmt.Printf("slugcheck property=%s tier=%s root=%s configs=%v packages=%d files=%d functions=%d\n", prop, tier, root, sum.Configs, sum.Packages, sum.Files, sum.Functions)
	for _, r := range sum.RuleOrder {
		x := byRule[r]
		fmt.Printf("  %-18s instances=%-3d discharged=%-3d  %s\n", r, x[0], x[1], firstSentence(sum.RuleTexts[r]))
	}
	if dump {
		for _, o := range sum.Obls {
			st := "ok  "
			if !o.OK {
				st = "FAIL"
			}
			fmt.Printf("    %s %s  [%s]  %s\n", st, o.Key, o.Pos, o.Detail)
		}
	}
	replayHit := false
	for _, o := range sum.Obls {
		if o.OK {
			continue
		}
		if wantKey != "" && o.Rule+"|"+o.Key != wantKey {
			continue
		}
		if f := kf.matchOpen(prop, o); f != nil {
			fmt.Printf("KNOWN-FINDING: property=%s %s [%s at %s]\n", prop, f.WhatFails, o.Key, o.Pos)
			sum.Known = append(sum.Known, o.Key)
			continue
		}
		replayHit = true
		sum.Violations = append(sum.Violations, o)
		path := "(not written)"
		if !noEv {
			if pth, err := writeReplay(filepath.Join(verifDir, "replays"), prop, o, root); err == nil {
				path = pth
			}
		}
		fmt.Printf("  violated: %s at %s: %s\n", o.Key, o.Pos, o.Detail)
		fmt.Printf("VIOLATION property=%s replay=%s\n", prop, path)
		exit = 1
	}
	if wantKey != "" {
		if replayHit {
			return 1
		}
		fmt.Printf("replay: obligation %s no longer fails on this tree\n", wantKey)
		return 0
	}

	if !noSelf {
		lines, ok := selfTest(prop, def, tier, root)
		sum.SelfTest = lines
		for _, l := range lines {
			fmt.Println("  selftest:", l)
		}
		if !ok {
			fmt.Printf("CHECKER-ERROR property=%s self-test failed (see lines above)\n", prop)
			if exit == 0 {
				exit = 2
			}
		}
	}
	sum.Wall = time.Since(t0).Seconds()
	if !noEv {
		if err := writeEvidence(filepath.Join(verifDir, "evidence"), sum); err != nil {
			fmt.Printf("CHECKER-ERROR property=%s cannot write evidence: %v\n", prop, err)
			return 2
		}
	}
	disch := 0
	for _, o := range sum.Obls {
		if o.OK {
			disch++
		}
	}
	fmt.Printf("result property=%s obligations=%d discharged=%d known_findings=%d violations=%d wall=%.1fs\n", prop, len(sum.Obls), disch, len(sum.Known), len(sum.Violations), sum.Wall)
	return exit
}

func firstSentence(s string) string {
	if i := strings.Index(s, ". "); i > 0 && i < 110 {
		return s[:i+1]
	}
	if len(s) > 110 {
		return s[:110] + "…"
	}
	return s
}

func asStrings(v any) []string {
	if s, ok := v.([]string); ok {
		return s
	}
	return nil
}

// gp is the program under analysis (for helpers that need cross-function
// resolution without threading the *Prog through every signature).
var gp *Prog

// cx: canon across private-helper boundaries.
func cx(v ssa.Value) ssa.Value {
	if gp == nil {
		return canon(v)
	}
	return gp.canonX(v)
}
