package main

import (
	"go/types"
	"strings"

	"golang.org/x/tools/go/ssa"
)

// fsSink describes a filesystem-mutating library call: which arguments are
// paths that get created/changed, and whether the final path component is
// followed when it is a symlink.
type fsSink struct {
	PathArgs []int
	Class    string // mkdir create symlink link rename remove chmod chown chtimes write temp
	Follows  bool   // follows a symlink in the final component
}

// One line of reason each: documented behaviour of package os / x/sys/unix.
var fsSinks = map[string]fsSink{
	"os.Mkdir":                           {[]int{0}, "mkdir", false},   // mkdir(2) fails with EEXIST on a link
	"os.MkdirAll":                        {[]int{0}, "mkdir", true},    // returns nil when path (through a link) is a directory
	"os.Create":                          {[]int{0}, "create", true},   // open(O_CREAT|O_TRUNC) follows links
	"os.OpenFile":                        {[]int{0}, "create", true},   // unless O_EXCL/O_NOFOLLOW, checked at the site
	"os.Symlink":                         {[]int{1}, "symlink", false}, // symlink(2) fails with EEXIST
	"os.Link":                            {[]int{0, 1}, "link", false},
	"os.Rename":                          {[]int{0, 1}, "rename", false},
	"os.Remove":                          {[]int{0}, "remove", false}, // unlink/rmdir act on the link itself
	"os.RemoveAll":                       {[]int{0}, "remove", false},
	"os.Chmod":                           {[]int{0}, "chmod", true},
	"os.Chown":                           {[]int{0}, "chown", true},
	"os.Lchown":                          {[]int{0}, "chown", false},
	"os.Chtimes":                         {[]int{0}, "chtimes", true},
	"os.WriteFile":                       {[]int{0}, "write", true},
	"os.Truncate":                        {[]int{0}, "write", true},
	"os.MkdirTemp":                       {[]int{0}, "temp", false},
	"os.CreateTemp":                      {[]int{0}, "temp", false},
	"io/ioutil.WriteFile":                {[]int{0}, "write", true},
	"io/ioutil.TempDir":                  {[]int{0}, "temp", false},
	"io/ioutil.TempFile":                 {[]int{0}, "temp", false},
	"golang.org/x/sys/unix.Lutimes":      {[]int{0}, "chtimes", false},
	"golang.org/x/sys/unix.Utimes":       {[]int{0}, "chtimes", true},
	"golang.org/x/sys/unix.Lchown":       {[]int{0}, "chown", false},
	"golang.org/x/sys/unix.Chmod":        {[]int{0}, "chmod", true},
	"golang.org/x/sys/unix.Unlink":       {[]int{0}, "remove", false},
	"golang.org/x/sys/unix.Symlink":      {[]int{1}, "symlink", false},
	"golang.org/x/sys/unix.Mkdir":        {[]int{0}, "mkdir", false},
	"golang.org/x/sys/unix.Rename":       {[]int{0, 1}, "rename", false},
	"golang.org/x/sys/unix.UtimesNanoAt": {[]int{1}, "chtimes", true},
}

// Read-only or otherwise harmless calls of the packages we police.
var fsReadOnly = map[string]bool{
	"os.Lstat": true, "os.Stat": true, "os.Open": true, "os.ReadFile": true, "os.ReadDir": true,
	"os.Readlink": true, "os.IsNotExist": true, "os.IsPermission": true, "os.IsExist": true,
	"os.Getwd": true, "os.DirFS": true, "os.Getenv": true, "os.LookupEnv": true, "os.SameFile": true,
	"os.IsPathSeparator": true, "os.TempDir": true, "os.Getuid": true, "os.Geteuid": true, "os.Getpid": true,
	"os.UserHomeDir": true, "os.Hostname": true, "os.Environ": true, "os.ExpandEnv": true, "os.IsTimeout": true,
	"io/ioutil.ReadFile": true, "io/ioutil.ReadDir": true, "io/ioutil.ReadAll": true, "io/ioutil.NopCloser": true,
	"os.NewFile": true, "os.Getpagesize": true, "os.Executable": true, "os.NewSyscallError": true,
}

// Process-global state changers (C16.procstate).
var procState = map[string]bool{
	"os.Chdir": true, "os.Setenv": true, "os.Unsetenv": true, "os.Clearenv": true,
	"syscall.Umask": true, "golang.org/x/sys/unix.Umask": true, "syscall.Chdir": true, "golang.org/x/sys/unix.Chdir": true,
	"syscall.Setenv": true, "syscall.Chroot": true, "golang.org/x/sys/unix.Chroot": true, "os.Exit": true,
	"syscall.Setrlimit": true, "golang.org/x/sys/unix.Fchdir": true, "syscall.Fchdir": true,
}

var policedPkgs = map[string]bool{"os": true, "io/ioutil": true, "syscall": true, "golang.org/x/sys/unix": true}

// classifyFS: sink (mutating), readonly, proc, unknown (a call into a policed
// package that takes a string and is in neither table), or "" (irrelevant).
func classifyFS(o *types.Func) (string, fsSink) {
	if o == nil || !policedPkgs[objPkgPath(o)] || recvTypeName(o) != "" {
		return "", fsSink{}
	}
	n := fullName(o)
	if s, ok := fsSinks[n]; ok {
		return "sink", s
	}
	if fsReadOnly[n] {
		return "readonly", fsSink{}
	}
	if procState[n] {
		return "proc", fsSink{}
	}
	sig := o.Type().(*types.Signature)
	for i := 0; i < sig.Params().Len(); i++ {
		if b, ok := sig.Params().At(i).Type().Underlying().(*types.Basic); ok && b.Kind() == types.String {
			return "unknown", fsSink{PathArgs: []int{i}, Class: "unknown", Follows: true}
		}
	}
	return "", fsSink{}
}

type sinkSite struct {
	Fn    *ssa.Function
	Call  ssa.CallInstruction
	Name  string
	Sink  fsSink
	Class string // sink | unknown
}

// fsSinkSites enumerates mutating filesystem calls in the given functions.
func fsSinkSites(fns []*ssa.Function) []sinkSite {
	var out []sinkSite
	for _, fn := range fns {
		for _, c := range callsIn(fn) {
			o := calleeObj(c)
			cls, s := classifyFS(o)
			if cls == "sink" || cls == "unknown" {
				out = append(out, sinkSite{fn, c, fullName(o), s, cls})
			}
		}
	}
	return out
}

func shortCallee(n string) string {
	if i := strings.LastIndex(n, "/"); i >= 0 {
		return n[i+1:]
	}
	return n
}
