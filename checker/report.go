package main

import (
	"crypto/sha1"
	"encoding/hex"
	"encoding/json"
	"fmt"
	"os"
	"path/filepath"
	"sort"
	"strings"
)

// Oblig is one rule instance evaluated on the tree.
type Oblig struct {
	Rule       string `json:"rule"`   // e.g. C01.sinks
	Key        string `json:"key"`    // rule / function / construct / ordinal — no line numbers
	Pos        string `json:"pos"`    // file:line, orientation only
	OK         bool   `json:"ok"`     // discharged
	Detail     string `json:"detail"` // what decided it (guard / edge / origin), or what failed
	Nontrivial bool   `json:"nontrivial"`
	Config     string `json:"config,omitempty"`
}

// Checker accumulates obligations for one property under one configuration.
type Checker struct {
	P          *Prog
	Prop       string
	Tier       string
	Obls       []Oblig
	NotDecided []string
	RuleTexts  map[string]string
	ruleOrder  []string
	floors     map[string]int
	ordinals   map[string]int
	absenceOf  map[string]bool // rules of the form "no X anywhere": see mergeViews
}

func newChecker(p *Prog, prop, tier string) *Checker {
	return &Checker{P: p, Prop: prop, Tier: tier, RuleTexts: map[string]string{}, floors: map[string]int{}, ordinals: map[string]int{}, absenceOf: map[string]bool{}}
}

// rule registers a rule's text and its floor: the minimum number of instances
// any correct implementation must have (G3).
func (c *Checker) rule(id, text string, floor int) {
	if _, ok := c.RuleTexts[id]; !ok {
		c.ruleOrder = append(c.ruleOrder, id)
	}
	c.RuleTexts[id] = text
	c.floors[id] = floor
}

// key builds a line-free obligation key, adding an ordinal for repeats.
// absence marks a rule as one that looks for a construct that must not occur. Such a rule passes
// where the construct is out of its sight, so when a tree is analysed in two forms (analyse) it has
// to pass in both.
func (c *Checker) absence(id string) { c.absenceOf[id] = true }

func (c *Checker) key(rule, fn, construct string) string {
	base := rule + "/" + fn + "/" + construct
	c.ordinals[base]++
	if n := c.ordinals[base]; n > 1 {
		return fmt.Sprintf("%s#%d", base, n)
	}
	return base
}

func (c *Checker) add(rule, fn, construct, pos string, ok bool, nontrivial bool, detail string) {
	cfg := ""
	if c.P != nil {
		cfg = c.P.Config.Name
	}
	c.Obls = append(c.Obls, Oblig{Rule: rule, Key: c.key(rule, fn, construct), Pos: pos, OK: ok, Detail: detail, Nontrivial: nontrivial, Config: cfg})
}

func (c *Checker) pass(rule, fn, construct, pos, detail string) {
	c.add(rule, fn, construct, pos, true, true, detail)
}
func (c *Checker) passTrivial(rule, fn, construct, pos, detail string) {
	c.add(rule, fn, construct, pos, true, false, detail)
}
func (c *Checker) fail(rule, fn, construct, pos, detail string) {
	c.add(rule, fn, construct, pos, false, true, detail)
}

// check is pass/fail on a condition.
func (c *Checker) check(cond bool, rule, fn, construct, pos, okDetail, failDetail string) bool {
	if cond {
		c.pass(rule, fn, construct, pos, okDetail)
	} else {
		c.fail(rule, fn, construct, pos, failDetail)
	}
	return cond
}

// anchorMissing reports a required construct that could not be resolved: the
// property's mechanism is gone, which is reported as a violation of that rule
// naming the missing construct (G3: undecided fails).
func (c *Checker) anchorMissing(rule, what string) {
	c.fail(rule, "-", "anchor:"+what, "-", "required construct not found: "+what+" (the rule cannot be established on this tree)")
}

func (c *Checker) notDecided(s string) { c.NotDecided = append(c.NotDecided, s) }

// applyFloors adds a failing obligation for each rule with fewer instances
// than its floor.
func (c *Checker) applyFloors() {
	count := map[string]int{}
	for _, o := range c.Obls {
		count[o.Rule]++
	}
	for _, r := range c.ruleOrder {
		if count[r] < c.floors[r] {
			c.fail(r, "-", "floor", "-", fmt.Sprintf("rule matched %d instance(s), fewer than the %d any correct implementation must have (vacuous pass refused)", count[r], c.floors[r]))
		}
	}
}

// ---------- known findings (G7) ----------

type Finding struct {
	Property  string `json:"property"`
	Rule      string `json:"rule"`
	Key       string `json:"key"`
	Status    string `json:"status"` // "open" or "fixed"
	Commit    string `json:"commit,omitempty"`
	WhatFails string `json:"what_fails"`
	ID        string `json:"id,omitempty"`
}

type FindingsFile struct {
	Comment  string    `json:"_comment"`
	Findings []Finding `json:"findings"`
	Fixed    []string  `json:"fixed_log"`
}

func loadFindings(path string) (*FindingsFile, error) {
	b, err := os.ReadFile(path)
	if err != nil {
		if os.IsNotExist(err) {
			return &FindingsFile{}, nil
		}
		return nil, err
	}
	var f FindingsFile
	if err := json.Unmarshal(b, &f); err != nil {
		return nil, fmt.Errorf("known findings file: %v", err)
	}
	return &f, nil
}

func (f *FindingsFile) matchOpen(prop string, o Oblig) *Finding {
	for i := range f.Findings {
		k := &f.Findings[i]
		if k.Status == "open" && k.Property == prop && k.Rule == o.Rule && k.Key == o.Key {
			return k
		}
	}
	return nil
}

// ---------- evidence ----------

type runSummary struct {
	Prop        string
	Tier        string
	Seed        int64
	Wall        float64
	Configs     []string
	Packages    int
	Files       int
	Functions   int
	Obls        []Oblig
	RuleTexts   map[string]string
	RuleOrder   []string
	NotDecided  []string
	Known       []string
	Violations  []Oblig
	SelfTest    []string
	Assumptions []string
	Extra       map[string]any
}

func writeEvidence(dir string, s *runSummary) error {
	if err := os.MkdirAll(dir, 0o755); err != nil {
		return err
	}
	disch := 0
	nontriv := map[string]bool{}
	for _, o := range s.Obls {
		if o.OK {
			disch++
		}
		if o.Nontrivial {
			nontriv[o.Rule+"|"+o.Key] = true
		}
	}
	var expl []string
	for _, r := range s.RuleOrder {
		expl = append(expl, r+": "+s.RuleTexts[r])
	}
	samples := []any{}
	// sample: rotate by seed, but always show violations first
	for _, o := range s.Violations {
		samples = append(samples, o)
	}
	n := len(s.Obls)
	if n > 0 {
		start := int(s.Seed % int64(n))
		if start < 0 {
			start = -start
		}
		perRule := map[string]int{}
		for i := 0; i < n && len(samples) < 40; i++ {
			o := s.Obls[(start+i)%n]
			if perRule[o.Rule] >= 3 {
				continue
			}
			perRule[o.Rule]++
			samples = append(samples, o)
		}
	}
	byRule := map[string]int{}
	for _, o := range s.Obls {
		byRule[o.Rule]++
	}
	cov := map[string]any{
		"explanation":            "Static analysis (go/packages + go/ssa, no execution of go-slug code). Rules evaluated on every path/site of the current /repo tree: " + strings.Join(expl, " || "),
		"obligations":            len(s.Obls),
		"discharged":             disch,
		"evaluations":            len(s.Obls),
		"distinct_nontrivial":    len(nontriv),
		"rule":                   "one evaluation = one rule instance (call site, construction site, path query, table entry) found in the tree; non-trivial = its decision needed a path, dominance, provenance or partial-evaluation argument rather than a presence test; distinct = distinct (rule,key)",
		"samples":                samples,
		"checker_cmd":            fmt.Sprintf("/verif/bin/slugcheck -property %s -tier %s", s.Prop, s.Tier),
		"trusted_base":           []string{"go/types, go/ssa (x/tools v0.29.0)", "documented semantics of os, path/filepath, io/fs, archive/tar, net/url, regexp, sort, dirhash, go-versions, terraform-registry-address", "the sink/transfer/idiom tables in /verif/checker (one-line reason each)"},
		"configs":                s.Configs,
		"packages":               s.Packages,
		"files":                  s.Files,
		"functions_analysed":     s.Functions,
		"instances_by_rule":      byRule,
		"known_findings_matched": s.Known,
		"not_decided":            s.NotDecided,
		"selftest":               s.SelfTest,
		"exhaustive":             false,
	}
	for k, v := range s.Extra {
		cov[k] = v
	}
	ev := map[string]any{
		"property_id": s.Prop,
		"tier":        s.Tier,
		"seed":        s.Seed,
		"level":       "other",
		"coverage":    cov,
		"assumptions": s.Assumptions,
		"wall_s":      s.Wall,
		"violations":  len(s.Violations),
	}
	b, err := json.MarshalIndent(ev, "", " ")
	if err != nil {
		return err
	}
	return os.WriteFile(filepath.Join(dir, s.Prop+".json"), b, 0o644)
}

// writeReplay stores the failing obligation for `slugcheck -replay`.
func writeReplay(dir, prop string, o Oblig, root string) (string, error) {
	if err := os.MkdirAll(dir, 0o755); err != nil {
		return "", err
	}
	h := sha1.Sum([]byte(o.Rule + "|" + o.Key))
	name := filepath.Join(dir, fmt.Sprintf("%s-%s.json", prop, hex.EncodeToString(h[:6])))
	b, _ := json.MarshalIndent(map[string]any{"property": prop, "obligation": o, "root": root,
		"how_to_replay": "slugcheck -replay " + name + " re-evaluates this property on the current tree and reports whether this obligation still fails"}, "", " ")
	return name, os.WriteFile(name, b, 0o644)
}

func sortObls(o []Oblig) {
	sort.SliceStable(o, func(i, j int) bool {
		if o[i].Rule != o[j].Rule {
			return o[i].Rule < o[j].Rule
		}
		return o[i].Key < o[j].Key
	})
}
