package main

import (
	"fmt"
	"go/token"
	"go/types"
	"sort"
	"strconv"
	"strings"

	"golang.org/x/tools/go/ssa"
)

func init() {
	register("C08", &propDef{
		Title: "A finished bundle contains everything that was added or discovered",
		Rules: []func(*Checker){ruleC08NoDrop, ruleC08Drain, ruleC08Callbacks, ruleC08Manifest, ruleC08SameJoin, ruleC08Lookup, ruleC08Meta, ruleCopiedWhenEmpty("C08.metacopy"), ruleGuardOwnField("C08.metaguard"), ruleMetaVerbatim("C08.metaverbatim"), ruleArgOrder("C08.argorder"), ruleTracerNonNil("C08.tracer"), ruleNameAgreement("C08.names", "sourcebundle"), ruleC08DirName, ruleRecordComplete("C08.complete"), ruleLiteralAgreement("C08.fields", "sourcebundle", nil), ruleMapFieldsMade("C08.mapinit"), ruleCtorParamsUsed("C08.ctorparams"), ruleFetchMemoOnly("C08.fetchmemo"), ruleSameKeyForm("C08.keyform"), ruleExhaustiveTypeSwitch("C08.exhaustive"), ruleLoopVarAddrKept("C08.loopvar", "/sourcebundle"), ruleStaleElementPointer("C08.elemaddr", "/sourcebundle"), ruleRemovalsOnlyInPrepareWalk("C08.kept"), aliasRuleFiltered(ruleC13Names, "C13.names", "C08.contenthash", 1, func(o Oblig) bool { return strings.Contains(o.Key, "directory name is a content hash") }), ruleDeprecationKeptWhole("C08.notekept"), aliasRule(ruleC11JoinOrder, "C11.joinorder", "C08.finaladdr", 3), ruleQueuesDrained("C08.drained"),
			// a relative dependency resolves inside the package that declared it: the sub-path of what the resolvers return is what the escape-refusing join let through
			aliasRuleFiltered(ruleC17Dep, "C17.dep", "C08.selection", 1, func(o Oblig) bool { return strings.Contains(o.Key, "selection by NewestInSet") }),
			aliasRuleFiltered(ruleC06Ctor, "C06.ctor", "C08.inside", 2, func(o Oblig) bool {
				return strings.Contains(o.Key, "ResolveRelative") && strings.Contains(o.Key, "subPath")
			}), ruleDiagsReachResult("C08.diagresult"), ruleDependenciesBaseIsTheArtifact("C08.baseaddr"), ruleRootSymmetric("C08.symmetric"), ruleForwardRefusesUnknownOnly("C08.forward"), aliasRule(ruleC06SubRaw, "C06.subraw", "C08.subraw", 1), ruleValueReceiverWrites("C08.valuerecv", "/sourcebundle")},
		NotDecided: []string{
			"transitive closure over arbitrary dependency graphs and the content of fetched files (run-time facts)",
			"that looked-up paths exist on disk",
		},
	})
	register("C09", &propDef{
		Title: "A bundle survives being re-opened and archived",
		Rules: []func(*Checker){ruleC09Fields, ruleC09Archive, ruleChecksum("C09.checksum"), ruleC06ManifestAs("C09.addrs"),
			ruleRootSymmetric("C09.symmetric"), ruleLinkPrecise("C09.linkprecise"), ruleC09Answers, ruleLocalMemo("C09.localmemo"), ruleGuardOwnField("C09.metaguard"), ruleMetaVerbatim("C09.metaverbatim"), ruleExtractOnlyUnpacks("C09.extractonly"), aliasRule(ruleC01Sinks, "C01.sinks", "C09.entrypaths", 5), ruleIllegalSlugOnlyFromJudges("C09.judgesonly"), ruleRestoreChmodUnconditional("C09.chmodalways"), aliasRuleFiltered(ruleC01Guards, "C01.guards", "C09.nametest", 1, func(o Oblig) bool {
				return strings.Contains(o.Key, "containment") || strings.Contains(o.Key, "success return")
			}), aliasRuleFiltered(ruleC01Walk, "C01.walk", "C09.walked", 1, func(o Oblig) bool { return strings.Contains(o.Key, "below the destination") }), ruleRestore("C09.restore"), ruleMeta("C09.meta"), ruleC04Accept2("C09.links"), ruleEntryNameAsSpelled("C09.namekept"), ruleNameAgreement("C09.names", "sourcebundle"), aliasRule(ruleC02Omit, "C02.omit", "C09.omit", 3), ruleRefusalsOfPack("C09.packrefusals"), aliasRuleFiltered(ruleBuilderAbsDir("C10.absdir"), "C10.absdir", "C09.absdir", 1, func(o Oblig) bool { return strings.Contains(o.Key, "rootDir") }),
			aliasRuleFiltered(ruleC02LinkTarget, "C02.linktarget", "C09.linktarget", 1, func(o Oblig) bool { return strings.Contains(o.Key, "Unpack") }),
			// extracting the archive of a bundle skips no entry it has not looked at: an entry skipped by its header format is a file of the bundle that is missing afterwards
			ruleBundleFrozen("C09.frozen"),
			aliasRuleFiltered(ruleC12Whole, "C12.whole", "C09.noskip", 1, func(o Oblig) bool { return strings.Contains(o.Key, "back edge") }),
			aliasRuleFiltered(ruleC06CanonURL, "C06.canonurl", "C09.canonkey", 1, func(o Oblig) bool { return strings.Contains(o.Key, "canonical") }),
			aliasRuleFiltered(ruleC13Maps, "C13.maps", "C09.lookup", 3, func(o Oblig) bool {
				return strings.Contains(o.Key, "sourcebundle.Bundle)") || strings.Contains(o.Key, "sourcebundle.OpenDir/")
			})},
		NotDecided: []string{
			"equality of two bundles; the Pack/Unpack round trip (C02) and address round trip (C06) for the values involved",
			"package metadata with an empty commit id is not re-created on re-open (asymmetry noted, outside the structural rule)",
		},
	})
	register("C10", &propDef{
		Title: "Bundle package directories are sanitised",
		Rules: []func(*Checker){ruleC10Walked, ruleC10Exits, ruleC10Links, aliasRuleFiltered(ruleC13Names, "C13.names", "C10.hash", 1, func(o Oblig) bool { return strings.Contains(o.Key, "directory name is a content hash") }), ruleC10Tmp, ruleC10Inside, ruleC03PruneAs("C10.ignored"), ruleC03BundleAs("C10.removed"), ruleBuilderAbsDir("C10.absdir"), ruleBundleWalkChain("C10.chain"),
			aliasRule(ruleC03Parse, "C03.parse", "C10.parse", 3), aliasRule(ruleC03LastWins, "C03.lastwins", "C10.lastwins", 1), aliasRule(ruleC03Glob, "C03.glob", "C10.glob", 3), aliasRule(ruleC03Meta, "C03.meta", "C10.meta", 3), ruleLoaderReturnsRules("C10.loaderrules"), ruleLoadedRulesReachTheWalk("C10.loadedrules"), aliasRule(ruleC03MatchErr, "C03.matcherr", "C10.matcherr", 1), ruleMatchByRegexpOnly("C10.byregexp"),
			// the package's own rule file is found the way Pack finds it: a link to a regular file inside the package is a rule file
			ruleDefaultRulesOrder("C10.defaults"),
			aliasRuleFiltered(ruleC03RuleFile, "C03.rulefile", "C10.rulefile", 1, func(o Oblig) bool { return strings.Contains(o.Key, "LoadPackageIgnoreRules") })},
		NotDecided: []string{
			"what filepath.EvalSymlinks resolves to; races with other processes modifying the temporary directory",
			"what the fetcher itself writes",
		},
	})
	register("C17", &propDef{
		Title: "Registry sources resolve to the newest allowed version",
		Rules: []func(*Checker){ruleC17Dep, ruleC17None, ruleC17Final, ruleCtxNonNil("C17.ctx"), ruleDeprecationKeptWhole("C17.notekept"), ruleSelectionBeforeAnswer("C17.selected"), ruleLoopVarAddrKept("C17.loopvar", "/sourcebundle"), aliasRuleFiltered(ruleC08NoDrop, "C08.nodrop", "C17.nodrop", 1, func(o Oblig) bool { return strings.Contains(o.Key, "pendingRegistry") }), ruleEveryOfferedVersionListed("C17.offered"), ruleRegistryRefusals("C17.refusals"), ruleDiagsReachResult("C17.diagresult"), ruleDecodeIntoFresh("C17.freshdecode", "/sourcebundle")},
		NotDecided: []string{
			"which version is newest (ordering inside go-versions, trusted library)",
			"'first listed' vs 'newest' when both depend on the same inputs is only caught through the library-callee identity",
		},
	})
	register("C18", &propDef{
		Title: "Bundle path lookups stay inside the bundle and invert each other",
		Rules: []func(*Checker){ruleC18DirName, ruleC18Join, ruleC18Reverse, ruleRootSymmetric("C18.symmetric"), ruleCutFoundNotRefused("C18.pkgroot"), ruleDirNameAsWritten("C18.rawname"), ruleForwardPathLexical("C18.lexicalforward"), ruleForwardRefusesUnknownOnly("C18.forward"), ruleAbsOfTheGivenPath("C18.absarg"), ruleNoRunTimeGlobals("C18.noglobals"), aliasRuleFiltered(ruleBuilderAbsDir("C10.absdir"), "C10.absdir", "C18.absroot", 1, func(o Oblig) bool { return strings.Contains(o.Key, "rootDir") }), ruleSubPathJudgedAsGiven("C18.subpathasgiven")},
		NotDecided: []string{
			"inversion as an equation on strings (forward then reverse lookup returning the same path)",
		},
	})
}

func ruleC06ManifestAs(id string) func(*Checker) {
	return aliasRule(ruleC06Manifest, "C06.manifest", id, 3)
}
func ruleC03PruneAs(id string) func(*Checker) {
	// for the bundle property only the bundle walker's obligations matter
	return aliasRuleFiltered(ruleC03Prune, "C03.prune", id, 2, func(o Oblig) bool { return strings.Contains(o.Key, "sourcebundle.") })
}
func ruleC03BundleAs(id string) func(*Checker) { return aliasRule(ruleC03Bundle, "C03.bundle", id, 3) }

// aliasRule re-reports another property's rule under this property's id.
func aliasRule(r func(*Checker), from, to string, floor int) func(*Checker) {
	return aliasRuleFiltered(r, from, to, floor, nil)
}

func aliasRuleFiltered(r func(*Checker), from, to string, floor int, keep func(Oblig) bool) func(*Checker) {
	return func(c *Checker) {
		sub := newChecker(c.P, c.Prop, c.Tier)
		r(sub)
		c.rule(to, "= "+from+": "+sub.RuleTexts[from], floor)
		for _, o := range sub.Obls {
			if o.Rule != from || (keep != nil && !keep(o)) {
				continue
			}
			o.Rule = to
			o.Key = strings.Replace(o.Key, from, to, 1)
			c.Obls = append(c.Obls, o)
		}
	}
}

// drainFunc: the queue-draining function (hosts the FindDependencies call).
func drainFunc(p *Prog) (*ssa.Function, *ssa.Call) {
	for _, fn := range p.Funcs {
		if !inBundlePkg(p, fn) {
			continue
		}
		for _, ci := range callsIn(fn) {
			if ci.Common().IsInvoke() && ci.Common().Method.Name() == "FindDependencies" {
				if cl, ok := ci.(*ssa.Call); ok {
					return fn, cl
				}
			}
		}
	}
	return nil, nil
}

// ---------- C08 ----------

func ruleC08NoDrop(c *Checker) {
	const R = "C08.nodrop"
	c.rule(R, "In the queue-draining function no popped item is dropped silently: from each pop (a store shrinking a pending queue by its last element) every path to the next queue test passes (a) an appended diagnostic, (b) for registry items a push onto the remote queue whose finder comes from the popped item, or (c) a lookup in a builder set keyed by the whole popped item, same type, nothing of the request left out (for remote items the analysed set, whose miss edge leads to the finder call and the analysed store: C14.memo).", 2)
	p := c.P
	fn, _ := drainFunc(p)
	if fn == nil {
		c.anchorMissing(R, "the queue-draining function (caller of FindDependencies)")
		return
	}
	name := p.FuncName(fn)
	n := 0
	eachInstr(fn, func(in ssa.Instruction) {
		st, ok := in.(*ssa.Store)
		if !ok {
			return
		}
		fa, ok := st.Addr.(*ssa.FieldAddr)
		if !ok || !isNamedT(derefType(fa.X.Type()), "Builder") || !strings.HasPrefix(fieldOf(fa).Name(), "pending") {
			return
		}
		sl, ok := st.Val.(*ssa.Slice)
		if !ok || sl.High == nil {
			return // an append (push), not a pop
		}
		n++
		q := fieldOf(fa).Name()
		// the popped element: the cell written in this block from an IndexAddr load of the same queue
		var popped ssa.Value
		for _, x := range st.Block().Instrs {
			if s2, ok := x.(*ssa.Store); ok {
				if ld, ok := s2.Val.(*ssa.UnOp); ok && ld.Op == token.MUL {
					if _, ok := ld.X.(*ssa.IndexAddr); ok {
						popped = s2.Addr
					}
				}
			}
		}
		fromPopped := func(v ssa.Value) bool {
			if popped == nil {
				return false
			}
			for x := range p.backSlice(v, 0) {
				if fa2, ok := x.(*ssa.FieldAddr); ok && fa2.X == popped {
					return true
				}
				if x == popped {
					return true
				}
			}
			return false
		}
		pass := func(x ssa.Instruction) bool {
			switch y := x.(type) {
			case *ssa.Call:
				if bi, ok := y.Call.Value.(*ssa.Builtin); ok && bi.Name() == "append" {
					if isDiagnosticsType(y.Type()) {
						return true
					}
					// push to another queue carrying the popped item's finder
					if sl2, ok := y.Call.Args[1].(*ssa.Slice); ok {
						if al, ok := sl2.X.(*ssa.Alloc); ok {
							for _, w := range elemWrites(al) {
								if fromPopped(w.Val) {
									return true
								}
							}
						}
					}
				}
			case *ssa.Lookup:
				// the set must be keyed by the whole popped item: a key that leaves part of the
				// request out (its version constraint, its finder) makes a different request look done
				if builderMapOf(y.X) != "" && fromPopped(y.Index) && popped != nil {
					if mt, ok := y.X.Type().Underlying().(*types.Map); ok && types.Identical(mt.Key(), derefType(popped.Type())) {
						return true
					}
				}
			}
			return false
		}
		head := loopHeadOf(st.Block())
		ok2, off := mustPassOK(st, pass, func(r *ssa.Return) bool { return false }, func(x ssa.Instruction) bool {
			return x.Block() == head && x == head.Instrs[0]
		})
		pos := p.Pos(st.Pos())
		if off != nil {
			pos = p.Pos(off.Pos())
		}
		c.check(ok2, R, name, "pop from "+q, pos, "every path from the pop records a diagnostic, forwards the item, or consults the analysed set", "an item popped from "+q+" can reach the next iteration without being processed, forwarded or reported")
	})
	c.check(n >= 2, R, name, "queue pops", p.Pos(fn.Pos()), fmt.Sprintf("%d pop site(s)", n), "the pending queues are no longer drained by popping")
}

func ruleC08Callbacks(c *Checker) {
	const R = "C08.callbacks"
	c.rule(R, "The callbacks handed to a finder append to the builder's queues (remote, registry) and to the returned diagnostics (resolution errors); Dependencies.baseAddr is the address being analysed, so relative dependencies resolve inside the declaring package; AddLocalSource resolves against baseAddr, reports a resolution error through the error callback and otherwise enqueues the resolved remote source with the given finder.", 6)
	p := c.P
	fn, fd := drainFunc(p)
	if fn == nil {
		c.anchorMissing(R, "the queue-draining function")
		return
	}
	name := p.FuncName(fn)
	want := map[string]string{"remoteCb": "pendingRemote", "registryCb": "pendingRegistry", "localResolveErrCb": "diags"}
	got := map[string]bool{}
	var baseVal ssa.Value
	eachInstr(fn, func(in ssa.Instruction) {
		st, ok := in.(*ssa.Store)
		if !ok {
			return
		}
		fa, ok := st.Addr.(*ssa.FieldAddr)
		if !ok || !isNamedT(derefType(fa.X.Type()), "Dependencies") {
			return
		}
		f := fieldOf(fa).Name()
		if f == "baseAddr" {
			baseVal = st.Val
			return
		}
		tgt, isCb := want[f]
		if !isCb {
			return
		}
		stv := st.Val
		if ct, isCT := stv.(*ssa.ChangeType); isCT {
			stv = ct.X // a named function type for the callback field
		}
		mc, ok := stv.(*ssa.MakeClosure)
		if !ok {
			// nil stored after the finder has returned is the disabling written out where disable() was called
			if isNilConst(st.Val) {
				afterFinder := false
				for _, ci := range callsIn(fn) {
					if ci.Common().IsInvoke() && ci.Common().Method.Name() == "FindDependencies" {
						if ci.Block() == st.Block() && instrIndex(ci) < instrIndex(st) || (ci.Block() != st.Block() && reachFromBlock(ci.Block())[st.Block()]) {
							afterFinder = true
						}
					}
				}
				if afterFinder {
					return
				}
			}
			c.fail(R, name, "callback "+f, p.Pos(st.Pos()), "the callback is not a closure of the draining function")
			return
		}
		cf := mc.Fn.(*ssa.Function)
		// a method value (collector.addRemote): the wrapper go/ssa makes for it only calls the method
		recvParams := 0
		if strings.Contains(cf.Synthetic, "bound method wrapper") {
			for _, ci := range callsIn(cf) {
				if g := ci.Common().StaticCallee(); g != nil && p.InModule(g) {
					cf = g
					recvParams = 1
				}
			}
		}
		okc := false
		eachInstr(cf, func(x ssa.Instruction) {
			s2, ok := x.(*ssa.Store)
			if !ok {
				return
			}
			cl, ok := s2.Val.(*ssa.Call)
			if !ok {
				return
			}
			if bi, ok := cl.Call.Value.(*ssa.Builtin); !ok || bi.Name() != "append" {
				return
			}
			// the appended element carries every one of the callback's parameters
			used := map[*ssa.Parameter]bool{}
			if sl, ok := cl.Call.Args[1].(*ssa.Slice); ok {
				if al, ok := sl.X.(*ssa.Alloc); ok {
					for _, w := range elemWrites(al) {
						for v := range p.backSlice(w.Val, 0) {
							if prm, ok := v.(*ssa.Parameter); ok && prm.Parent() == cf {
								used[prm] = true
							}
						}
					}
				}
			}
			carries := len(cf.Params) > recvParams
			for _, prm := range cf.Params[recvParams:] {
				if !used[prm] {
					carries = false
				}
			}
			switch tgt {
			case "diags":
				if isDiagnosticsType(cl.Type()) {
					okc = true
				}
			default:
				if fa2, ok := s2.Addr.(*ssa.FieldAddr); ok && fieldOf(fa2).Name() == tgt && carries {
					okc = true
				}
			}
		})
		got[f] = true
		c.check(okc, R, name, "callback "+f, p.Pos(st.Pos()), "appends its argument to "+tgt, "the "+f+" callback no longer enqueues/report what the finder hands it (a discovered dependency would be lost)")
	})
	for f := range want {
		if !got[f] {
			c.fail(R, name, "callback "+f, p.Pos(fn.Pos()), "the "+f+" callback is not installed before the finder runs")
		}
	}
	// baseAddr = the address whose sub-path the finder is given
	okBase := false
	if baseVal != nil && fd != nil {
		bs := p.backSlice(baseVal, 0)
		for _, a := range fd.Call.Args {
			for v := range p.backSlice(a, 0) {
				if fa, ok := v.(*ssa.FieldAddr); ok && fieldOf(fa) != nil && fieldOf(fa).Name() == "sourceAddr" && bs[v] == bs[v] {
					for w := range bs {
						if fb, ok := w.(*ssa.FieldAddr); ok && fieldOf(fb) == fieldOf(fa) && fb.X == fa.X {
							okBase = true
						}
					}
				}
			}
		}
	}
	c.check(okBase, R, name, "baseAddr is the analysed address", p.Pos(fn.Pos()), "Dependencies.baseAddr and the finder's sub-path come from the same queue item", "relative dependencies would be resolved against an address other than the one being analysed")
	// AddLocalSource
	als := p.Fn(bundlePkg, "Dependencies.AddLocalSource")
	if als == nil {
		c.anchorMissing(R, "(*Dependencies).AddLocalSource")
		return
	}
	var res *ssa.Call
	for _, ci := range callsIn(als) {
		if g := ci.Common().StaticCallee(); g != nil && g.Name() == "ResolveRelativeSource" {
			res = ci.(*ssa.Call)
		}
	}
	if res == nil {
		c.fail(R, p.FuncName(als), "resolves relative source", p.Pos(als.Pos()), "AddLocalSource no longer resolves the local source against the base address")
		return
	}
	// first argument from d.baseAddr
	fromBase := false
	for v := range p.backSlice(res.Call.Args[0], 0) {
		if fa, ok := v.(*ssa.FieldAddr); ok && fieldOf(fa).Name() == "baseAddr" {
			fromBase = true
		}
	}
	c.check(fromBase, R, p.FuncName(als), "resolved against baseAddr", p.Pos(res.Pos()), "ResolveRelativeSource(d.baseAddr, source)", "the local source is not resolved against the declaring package's address")
	okE, errE := okEdgesOfCall(res)
	dynCallOn := func(edges []Edge, field string, arg ssa.Value) bool {
		found := false
		eachInstr(als, func(in ssa.Instruction) {
			ci, ok := in.(ssa.CallInstruction)
			if !ok || ci.Common().StaticCallee() != nil || ci.Common().IsInvoke() {
				return
			}
			ld, ok := ci.Common().Value.(*ssa.UnOp)
			if !ok {
				return
			}
			fa, ok := ld.X.(*ssa.FieldAddr)
			if !ok || fieldOf(fa).Name() != field || !guarded(in.Block(), edges) {
				return
			}
			for _, a := range ci.Common().Args {
				if arg == nil || p.backSlice(a, 0)[arg] {
					found = true
				}
			}
		})
		return found
	}
	c.check(dynCallOn(errE, "localResolveErrCb", errValueOf(res)), R, p.FuncName(als), "resolution error reported", p.Pos(res.Pos()), "the error edge calls the error callback with the error", "a relative dependency that cannot be resolved is dropped silently")
	c.check(dynCallOn(okE, "remoteCb", extractOf(res, 0)), R, p.FuncName(als), "resolved source enqueued", p.Pos(res.Pos()), "the ok edge enqueues the resolved source", "a resolvable relative dependency is not enqueued")
	// every exit of every Add* method has handed what it was given to a callback: the unit of work is the
	// pair (address, finder), so there is no address-only reason to drop a report
	for _, mn := range []string{"AddRemoteSource", "AddRegistrySource", "AddLocalSource"} {
		m := p.Fn(bundlePkg, "Dependencies."+mn)
		if m == nil {
			c.anchorMissing(R, "(*Dependencies)."+mn)
			continue
		}
		isCb := func(fields ...string) func(ssa.Instruction) bool {
			return func(in ssa.Instruction) bool {
				ci, ok := in.(ssa.CallInstruction)
				if !ok || ci.Common().StaticCallee() != nil || ci.Common().IsInvoke() {
					return false
				}
				ld, ok := ci.Common().Value.(*ssa.UnOp)
				if !ok {
					return false
				}
				fa, ok := ld.X.(*ssa.FieldAddr)
				if !ok || !isNamedT(derefType(fa.X.Type()), "Dependencies") {
					return false
				}
				for _, f := range fields {
					if fieldOf(fa).Name() == f {
						return true
					}
				}
				return false
			}
		}
		for i, r := range returnsOf(m) {
			pass := isCb("remoteCb", "registryCb", "localResolveErrCb")
			if m == als && guarded(r.Block(), okE) {
				pass = isCb("remoteCb", "registryCb")
			}
			ok, _ := mustPassBackward(r, pass)
			c.check(ok, R, p.FuncName(m), fmt.Sprintf("exit %d hands the report to a callback", i), p.Pos(r.Pos()), "every path to this return calls one of the Dependencies callbacks", "a dependency reported by a finder can be dropped without being queued or reported: this exit is reachable without any callback having been called (the pair address+finder is the unit of work — another finder may still have to run on an address that is already known)")
		}
	}
}

func ruleC08Manifest(c *Checker) {
	const R = "C08.manifest"
	c.rule(R, "The manifest writer ranges over exactly the builder's record maps and emits one entry per element with no conditional skip: in each range the append / map insert that records the element is on every path through the loop body.", 2)
	p := c.P
	closeFn := p.Fn(bundlePkg, "Builder.Close")
	if closeFn == nil {
		c.anchorMissing(R, "(*Builder).Close")
		return
	}
	var wm *ssa.Function
	for _, ci := range callsIn(closeFn) {
		if g := ci.Common().StaticCallee(); g != nil && inBundlePkg(p, g) && len(fsSinkSites([]*ssa.Function{g})) > 0 {
			wm = g
		}
	}
	if wm == nil {
		c.anchorMissing(R, "the manifest writer called from Close")
		return
	}
	name := p.FuncName(wm)
	ranged := map[string]bool{}
	var allRanges []mapRange
	for member := range p.family(wm) {
		allRanges = append(allRanges, mapRanges(member)...)
	}
	sort.Slice(allRanges, func(i, j int) bool { return allRanges[i].Range.Pos() < allRanges[j].Range.Pos() })
	for _, mr := range allRanges {
		m := mapDesc(mr.Range.X)
		ranged[m] = true
		// the recording instruction: append to a manifest slice or a MapUpdate into a manifest map
		var rec []ssa.Instruction
		for b := range mr.Body {
			for _, in := range b.Instrs {
				switch x := in.(type) {
				case *ssa.Call:
					if bi, ok := x.Call.Value.(*ssa.Builtin); ok && bi.Name() == "append" {
						if sl, ok := x.Type().Underlying().(*types.Slice); ok {
							if n, ok := types.Unalias(sl.Elem()).(*types.Named); ok && strings.HasPrefix(n.Obj().Name(), "manifest") {
								// for the registry section the append happens once per package, the per-version record is the MapUpdate
								if m != "resolvedRegistry" {
									rec = append(rec, x)
								}
							}
						}
					}
				case *ssa.MapUpdate:
					if mt, ok := x.Map.Type().Underlying().(*types.Map); ok {
						if n, ok := types.Unalias(mt.Elem()).(*types.Named); ok && strings.HasPrefix(n.Obj().Name(), "manifest") {
							rec = append(rec, x)
						}
					}
				}
			}
		}
		okr := len(rec) > 0
		for _, r := range rec {
			// on every path through the body: the body entry must not reach the header again without passing r
			entry := mr.Head.Succs[0]
			if !mr.Body[entry] {
				entry = mr.Head.Succs[1]
			}
			reach := reachAvoiding(entry, map[*ssa.BasicBlock]bool{r.Block(): true})
			if entry != r.Block() && reach[mr.Head] {
				okr = false
			}
		}
		c.check(okr, R, name, "one manifest entry per element of "+m, p.Pos(mr.Range.Pos()), "the recording step is on every path through the loop body", "an element of "+m+" can be skipped when the manifest is written (it would be missing after re-opening the bundle)")
	}
	for _, m := range []string{"remotePackageDirs", "resolvedRegistry"} {
		c.check(ranged[m], R, name, "ranges over "+m, p.Pos(wm.Pos()), "written to the manifest", "the manifest writer no longer covers Builder."+m)
	}
}

func ruleC08SameJoin(c *Checker) {
	const R = "C08.samejoin"
	c.rule(R, "The builder and the bundle combine a registry source's sub-path with the address the registry returned through the same function (RegistrySource.FinalSourceAddr): who-calls agreement between resolution at build time and lookup afterwards.", 2)
	p := c.P
	join := p.Fn(addrPkg, "RegistrySource.FinalSourceAddr")
	if join == nil {
		c.anchorMissing(R, "RegistrySource.FinalSourceAddr")
		return
	}
	users := map[string]bool{}
	for _, fn := range p.Funcs {
		if !inBundlePkg(p, fn) {
			continue
		}
		for _, ci := range callsIn(fn) {
			g := ci.Common().StaticCallee()
			if g == join || (g != nil && g.Name() == "FinalSourceAddr") {
				if fn.Signature.Recv() != nil {
					users[types.Unalias(derefType(fn.Signature.Recv().Type())).(*types.Named).Obj().Name()] = true
				}
			}
		}
	}
	c.check(users["Builder"], R, "Builder", "uses the shared join", "-", "the builder joins through FinalSourceAddr", "the builder combines registry sub-paths differently from the lookup")
	// every success return of the registry resolver went through the join with the caller's source
	for _, fn := range p.Funcs {
		if !inBundlePkg(p, fn) {
			continue
		}
		isResolver := false
		for _, ci := range callsIn(fn) {
			if ci.Common().IsInvoke() && ci.Common().Method.Name() == "ModulePackageSourceAddr" {
				isResolver = true
			}
		}
		if !isResolver {
			continue
		}
		// joined on every way to the return: the call itself, or a merge / a variable all of whose
		// incoming values are (a cache-hit branch that leaves the variable as the table gave it is not)
		var joined func(v ssa.Value, depth int) bool
		joined = func(v ssa.Value, depth int) bool {
			if v == nil || depth > 8 {
				return false
			}
			switch x := v.(type) {
			case *ssa.Call:
				if g := x.Common().StaticCallee(); g != nil && g.Name() == "FinalSourceAddr" && len(x.Call.Args) > 0 {
					// receiver is the requested source (a parameter of the resolver)
					for y := range p.backSlice(x.Call.Args[0], 0) {
						if prm, ok := y.(*ssa.Parameter); ok && prm.Parent() == fn {
							return true
						}
					}
				}
				return false
			case *ssa.Phi:
				for _, e := range x.Edges {
					if e == v {
						continue
					}
					if !joined(e, depth+1) {
						return false
					}
				}
				return len(x.Edges) > 0
			case *ssa.UnOp:
				if x.Op == token.MUL {
					if vals, ok := cellValuesAt(x); ok && len(vals) > 0 {
						for _, sv := range vals {
							if !joined(sv, depth+1) {
								return false
							}
						}
						return true
					}
				}
				return false
			case *ssa.MakeInterface:
				return joined(x.X, depth+1)
			case *ssa.ChangeInterface:
				return joined(x.X, depth+1)
			}
			if cv := canon(v); cv != v {
				return joined(cv, depth+1)
			}
			return false
		}
		for i, r := range successReturns(fn) {
			vals := returnValues(r, 0)
			okj := len(vals) > 0
			for _, v := range vals {
				if !joined(v, 0) {
					okj = false
				}
			}
			c.check(okj, R, p.FuncName(fn), fmt.Sprintf("success return %d joined with the caller's sub-path", i), p.Pos(r.Pos()), "the returned address is sourceAddr.FinalSourceAddr(registry's address)", "the resolver can return the registry's address without the requesting source's sub-path (cache-hit or early-return path): the finder then analyses the wrong directory and that sub-module's dependencies are never discovered")
		}
	}
	c.check(users["Bundle"], R, "Bundle", "uses the shared join", "-", "the bundle lookup joins through FinalSourceAddr", "the bundle lookup combines registry sub-paths differently from the builder")
}

func ruleC08Lookup(c *Checker) {
	const R = "C08.lookup"
	c.rule(R, "Registry lookups resolve to the same location as the remote address the registry named: LocalPathForRegistrySource looks the (package, version) up in the recorded registry sources and delegates to LocalPathForRemoteSource on the joined address; metadata accessors return the recorded values unchanged.", 2)
	p := c.P
	fr := p.Fn(bundlePkg, "Bundle.LocalPathForRegistrySource")
	rr := p.Fn(bundlePkg, "Bundle.LocalPathForRemoteSource")
	if fr == nil || rr == nil {
		c.anchorMissing(R, "Bundle.LocalPathForRegistrySource / LocalPathForRemoteSource")
		return
	}
	deleg := false
	for _, r := range successReturns(fr) {
		for _, v := range returnValues(r, 0) {
			if v == nil {
				continue
			}
			if cl := callOf(v); cl != nil && cl.Common().StaticCallee() == rr {
				// its argument comes from FinalSourceAddr of a recorded source
				for x := range p.backSlice(cl.Call.Args[1], 0) {
					if c2, ok := x.(*ssa.Call); ok && c2.Common().StaticCallee() != nil && c2.Common().StaticCallee().Name() == "FinalSourceAddr" {
						deleg = true
					}
				}
			}
		}
	}
	if !deleg {
		// the remote lookup repeated in place: the directory recorded for the package of the joined address,
		// and the joined address's sub-path below it
		for _, r := range successReturns(fr) {
			for _, v := range returnValues(r, 0) {
				if v == nil {
					continue
				}
				var final []*ssa.Call
				sl := p.backSlice(v, 0)
				for x := range sl {
					if c2, ok := x.(*ssa.Call); ok && c2.Common().StaticCallee() != nil && c2.Common().StaticCallee().Name() == "FinalSourceAddr" {
						final = append(final, c2)
					}
				}
				fromFinal := func(w ssa.Value) bool {
					ws := p.backSlice(w, 0)
					for _, f := range final {
						if ws[f] {
							return true
						}
					}
					return false
				}
				dirOK, subOK := false, false
				for x := range sl {
					switch y := x.(type) {
					case *ssa.Lookup:
						if fa := loadedField(y.X); fa != nil && fa.Name() == "remotePackageDirs" && fromFinal(y.Index) {
							dirOK = true
						}
					case *ssa.Call:
						if o := calleeObj(y); o != nil && o.Name() == "SubPath" && len(y.Call.Args) > 0 && fromFinal(y.Call.Args[0]) {
							subOK = true
						}
					}
				}
				if len(final) > 0 && dirOK && subOK {
					deleg = true
				}
			}
		}
	}
	c.check(deleg, R, p.FuncName(fr), "delegates to the remote lookup", p.Pos(fr.Pos()), "LocalPathForRemoteSource(addr.FinalSourceAddr(recorded))", "a registry source no longer resolves to the location of the remote address the registry named")
	for _, acc := range []struct{ fn, field string }{{"Bundle.RemotePackageMeta", "remotePackageMeta"}, {"Bundle.RegistryPackageVersionDeprecation", "registryPackageVersionDeprecations"}, {"Bundle.RegistryPackageSourceAddr", "registryPackageSources"}} {
		f := p.Fn(bundlePkg, acc.fn)
		if f == nil {
			continue
		}
		okv := false
		for _, r := range returnsOf(f) {
			for x := range p.backSlice(r.Results[0], 0) {
				if fa, ok := x.(*ssa.FieldAddr); ok && fieldOf(fa).Name() == acc.field {
					okv = true
				}
			}
		}
		c.check(okv, R, p.FuncName(f), "returns the recorded value", p.Pos(f.Pos()), "a lookup in Bundle."+acc.field, "the accessor no longer returns what was recorded in the manifest")
	}
}

// ---------- C09 ----------

func ruleC09Fields(c *Checker) {
	const R = "C09.fields"
	c.rule(R, "Every field of the manifest structs is both written by the manifest writer and read by OpenDir, and every output-bearing Builder map is both updated during the build and read by the writer (writer↔reader table agreement).", 10)
	p := c.P
	openDir := p.Fn(bundlePkg, "OpenDir")
	if openDir == nil {
		c.anchorMissing(R, "OpenDir")
		return
	}
	sp := p.SPkgs[p.PkgPath(bundlePkg)]
	var structs []*types.Named
	for name, m := range sp.Members {
		if t, ok := m.(*ssa.Type); ok && strings.HasPrefix(name, "manifest") {
			if n, ok := t.Type().(*types.Named); ok {
				if _, isSt := n.Underlying().(*types.Struct); isSt {
					structs = append(structs, n)
				}
			}
		}
	}
	sort.Slice(structs, func(i, j int) bool { return structs[i].Obj().Name() < structs[j].Obj().Name() })
	written := map[*types.Var]bool{}
	read := map[*types.Var]bool{}
	odReach := p.reach(openDir)
	for _, fn := range p.Funcs {
		if !inBundlePkg(p, fn) {
			continue
		}
		eachInstr(fn, func(in ssa.Instruction) {
			switch x := in.(type) {
			case *ssa.Store:
				if !odReach[fn] {
					// every field on the address chain is (partly) written
					a := x.Addr
					for {
						fa, ok := a.(*ssa.FieldAddr)
						if !ok {
							break
						}
						written[fieldOf(fa)] = true
						a = fa.X
					}
				}
			case *ssa.FieldAddr:
				if odReach[fn] {
					// a read if loaded
					if refs := x.Referrers(); refs != nil {
						for _, r := range *refs {
							if u, ok := r.(*ssa.UnOp); ok && u.Op == token.MUL {
								read[fieldOf(x)] = true
							}
							if _, ok := r.(*ssa.FieldAddr); ok {
								read[fieldOf(x)] = true
							}
						}
					}
				}
			case *ssa.Field:
				if odReach[fn] {
					read[fieldOf(x)] = true
				}
			}
		})
	}
	for _, n := range structs {
		st := n.Underlying().(*types.Struct)
		for i := 0; i < st.NumFields(); i++ {
			f := st.Field(i)
			c.check(written[f] && read[f], R, "manifest", n.Obj().Name()+"."+f.Name(), "-", "written at Close and read by OpenDir",
				fmt.Sprintf("manifest field is written=%v read=%v: what the builder knew does not survive re-opening", written[f], read[f]))
		}
	}
	// Builder maps
	closeFn := p.Fn(bundlePkg, "Builder.Close")
	wmReach := map[*ssa.Function]bool{}
	if closeFn != nil {
		for _, ci := range callsIn(closeFn) {
			if g := ci.Common().StaticCallee(); g != nil && inBundlePkg(p, g) && g.Signature.Recv() != nil {
				for f := range p.reach(g) {
					wmReach[f] = true
				}
			}
		}
	}
	updated := map[string]bool{}
	readByWriter := map[string]bool{}
	for _, fn := range p.Funcs {
		if !inBundlePkg(p, fn) {
			continue
		}
		eachInstr(fn, func(in ssa.Instruction) {
			switch x := in.(type) {
			case *ssa.MapUpdate:
				if m := builderMapOf(x.Map); m != "" {
					updated[m] = true
				}
			case *ssa.Lookup:
				if m := builderMapOf(x.X); m != "" && wmReach[fn] {
					readByWriter[m] = true
				}
			case *ssa.Range:
				if m := builderMapOf(x.X); m != "" && wmReach[fn] {
					readByWriter[m] = true
				}
			}
		})
	}
	for _, m := range []string{"remotePackageDirs", "remotePackageMeta", "resolvedRegistry", "packageVersionDeprecations"} {
		c.check(updated[m] && readByWriter[m], R, "Builder", "map "+m, "-", "filled during the build and written to the manifest", fmt.Sprintf("Builder.%s: updated=%v, read by the manifest writer=%v", m, updated[m], readByWriter[m]))
	}
}

func ruleC09Archive(c *Checker) {
	const R = "C09.archive"
	c.rule(R, "WriteArchive packs the bundle's root directory with a packer whose options are within {DereferenceSymlinks} (no ignore processing, not the legacy Pack entry point) and propagates the error; ExtractArchive returns OpenDir of the very directory it unpacked into, only on Unpack's nil edge.", 3)
	p := c.P
	wa := p.Fn(bundlePkg, "Bundle.WriteArchive")
	ea := p.Fn(bundlePkg, "ExtractArchive")
	if wa == nil || ea == nil {
		c.anchorMissing(R, "Bundle.WriteArchive / ExtractArchive")
		return
	}
	// options
	var np *ssa.Call
	for _, ci := range callsIn(wa) {
		if g := ci.Common().StaticCallee(); g != nil && g.Name() == "NewPacker" {
			np = ci.(*ssa.Call)
		}
	}
	if np == nil {
		c.fail(R, p.FuncName(wa), "packer options", p.Pos(wa.Pos()), "WriteArchive does not build its packer with slug.NewPacker (the legacy slug.Pack always applies ignore rules)")
	} else {
		okOpts := true
		var names []string
		for _, a := range joinArgs(np) {
			cl := callOf(a)
			if cl == nil || cl.Common().StaticCallee() == nil {
				okOpts = false
				continue
			}
			n := cl.Common().StaticCallee().Name()
			names = append(names, n)
			if n != "DereferenceSymlinks" {
				okOpts = false
			}
		}
		c.check(okOpts, R, p.FuncName(wa), "packer options", p.Pos(np.Pos()), fmt.Sprintf("options %v ⊆ {DereferenceSymlinks}", names), fmt.Sprintf("the archive packer is configured with %v: files of the bundle could be filtered out or links stored that Unpack rejects", names))
	}
	// Pack(b.rootDir, w)
	okPack := false
	for _, ci := range callsIn(wa) {
		if g := ci.Common().StaticCallee(); g != nil && g.Name() == "Pack" && g.Signature.Recv() != nil {
			for v := range p.backSlice(ci.Common().Args[1], 0) {
				if fa, ok := v.(*ssa.FieldAddr); ok && fieldOf(fa).Name() == "rootDir" {
					okPack = true
				}
			}
		}
	}
	c.check(okPack, R, p.FuncName(wa), "packs the bundle root", p.Pos(wa.Pos()), "packer.Pack(b.rootDir, w)", "WriteArchive does not pack the bundle's root directory")
	// ExtractArchive
	var up *ssa.Call
	for _, ci := range callsIn(ea) {
		if g := ci.Common().StaticCallee(); g != nil && g.Name() == "Unpack" {
			up = ci.(*ssa.Call)
		}
	}
	if up == nil {
		c.fail(R, p.FuncName(ea), "unpacks", p.Pos(ea.Pos()), "ExtractArchive does not unpack the archive")
		return
	}
	okE, _ := okEdgesOfCall(up)
	for i, r := range successReturns(ea) {
		okr := guarded(r.Block(), okE)
		same := false
		for _, v := range returnValues(r, 0) {
			if v == nil {
				continue
			}
			if cl := callOf(v); cl != nil && cl.Common().StaticCallee() != nil && cl.Common().StaticCallee().Name() == "OpenDir" {
				if canon(cl.Call.Args[0]) == canon(up.Call.Args[len(up.Call.Args)-1]) {
					same = true
				}
			}
		}
		c.check(okr && same, R, p.FuncName(ea), fmt.Sprintf("success return %d", i), p.Pos(r.Pos()), "OpenDir(targetDir) past Unpack's nil edge", "ExtractArchive can return a bundle without a successful Unpack, or opens a different directory than it unpacked into")
	}
}

// ---------- C10 ----------

func ensureFunc(p *Prog) (*ssa.Function, *ssa.Call) {
	for _, fn := range p.Funcs {
		if !inBundlePkg(p, fn) {
			continue
		}
		for _, ci := range callsIn(fn) {
			if ci.Common().IsInvoke() && ci.Common().Method.Name() == "FetchSourcePackage" {
				if cl, ok := ci.(*ssa.Call); ok {
					return fn, cl
				}
			}
		}
	}
	return nil, nil
}

func ruleC10Walked(c *Checker) {
	const R = "C10.walked"
	c.rule(R, "Between the fetcher's ok edge and every success return of the package-ensuring function lies the preparation walk over the work directory (filepath.Walk of the very directory handed to the fetcher, with the bundle's walk callback), and the walk's error edge returns an error.", 2)
	p := c.P
	fn, fetch := ensureFunc(p)
	if fn == nil {
		c.anchorMissing(R, "the function calling PackageFetcher.FetchSourcePackage")
		return
	}
	name := p.FuncName(fn)
	workDir := fetch.Call.Args[len(fetch.Call.Args)-1]
	isWalk := func(in ssa.Instruction) bool {
		cl, ok := in.(*ssa.Call)
		if !ok || !isFunc(calleeObj(cl), "path/filepath", "Walk") {
			return false
		}
		if canon(cl.Call.Args[0]) != canon(workDir) {
			return false
		}
		// callback: the bundle walk
		for v := range p.backSlice(cl.Call.Args[1], 0) {
			if mc, ok := v.(*ssa.MakeClosure); ok {
				for _, w := range bundleWalks(p) {
					if mc.Fn == ssa.Value(w) {
						return true
					}
				}
			}
			if c2, ok := v.(*ssa.Call); ok {
				if g := c2.Common().StaticCallee(); g != nil {
					for _, w := range bundleWalks(p) {
						if w.Parent() == g {
							return true
						}
					}
				}
			}
		}
		return false
	}
	okE, _ := okEdgesOfCall(fetch)
	okAll := len(okE) > 0
	var off ssa.Instruction
	for _, e := range okE {
		ok2, o2 := mustPassOKFromBlock(e.To(), isWalk, func(r *ssa.Return) bool { return !mayReturnNilErr(r) }, nil)
		if !ok2 {
			okAll, off = false, o2
		}
	}
	pos := p.Pos(fetch.Pos())
	if off != nil {
		pos = p.Pos(off.Pos())
	}
	c.check(okAll, R, name, "preparation walk after fetch", pos, "every successful path walks the fetched directory", "a fetched package can be accepted without the sanitising walk")
	for _, ci := range callsIn(fn) {
		if isWalk(ci) {
			cl := ci.(*ssa.Call)
			_, errE := okEdgesOfCall(cl)
			okr := len(errE) > 0
			for _, e := range errE {
				if r, _ := returnsNonNilErrorFrom(e.To()); !r {
					okr = false
				}
			}
			c.check(okr, R, name, "walk error returned", p.Pos(cl.Pos()), "a failed walk fails the build", "the result of the sanitising walk is ignored")
		}
	}
}

func ruleC10Exits(c *Checker) {
	const R = "C10.exits"
	c.rule(R, "Every non-error exit of the bundle walk callback is exactly one of: the root entry; removed (past an ignore-rule excluded edge, C10.removed); or validated — guarded by the true edge of filepath.IsLocal on a value that originates from filepath.EvalSymlinks of the entry made relative to the EvalSymlinks of the root (a lexical Clean is not a real path) and by the regular-or-directory edge on the Lstat of that real path.", 2)
	p := c.P
	ws := bundleWalks(p)
	if len(ws) == 0 {
		c.anchorMissing(R, "the bundle preparation walk callback")
		return
	}
	// the validated exits may sit in a private helper whose result the callback returns
	var todo []*ssa.Function
	todo = append(todo, ws...)
	done := map[*ssa.Function]bool{}
	for len(todo) > 0 {
		fn := todo[0]
		todo = todo[1:]
		if done[fn] {
			continue
		}
		done[fn] = true
		name := p.FuncName(fn)
		ex := findExclCalls(fn)
		var exT []Edge
		for _, e := range ex {
			exT = append(exT, e.ExT...)
		}
		ks := findContainments(fn)
		for i, r := range returnsOf(fn) {
			if !mayReturnNilErr(r) {
				continue
			}
			if guarded(r.Block(), rootEdges(fn)) || guarded(r.Block(), exT) {
				continue
			}
			// delegated to a private helper: its own non-error exits are judged instead
			deleg := false
			for _, v := range returnValues(r, 0) {
				if v == nil {
					continue
				}
				if cl := callOf(canon(v)); cl != nil {
					if h := cl.Common().StaticCallee(); h != nil && p.InModule(h) && len(h.Blocks) > 0 && (h.Object() == nil || !h.Object().Exported()) {
						deleg = true
						todo = append(todo, h)
					}
				}
			}
			if deleg {
				c.passTrivial(R, name, fmt.Sprintf("keep exit %d delegates", i), p.Pos(r.Pos()), "returns the verdict of a private helper, whose exits are judged")
				continue
			}
			// validated exit
			var est *Containment
			for j := range ks {
				if ks[j].Kind == "islocal" && p.established(ks[j], r.Block()) {
					est = &ks[j]
				}
			}
			if est == nil {
				c.fail(R, name, fmt.Sprintf("keep exit %d", i), p.Pos(r.Pos()), "an entry is kept without the real-path containment test (a link leaving the package would survive)")
				continue
			}
			// subject from Rel(EvalSymlinks(root), EvalSymlinks(entry))
			evals := 0
			for v := range p.backSlice(est.Subject, 0) {
				if cl, ok := v.(*ssa.Call); ok && isFunc(calleeObj(cl), "path/filepath", "EvalSymlinks") {
					evals++
				}
			}
			c.check(evals >= 2, R, name, fmt.Sprintf("keep exit %d real path", i), p.Pos(r.Pos()), "IsLocal is applied to the entry's real path relative to the root's real path", "the containment test is applied to a lexical path, not to what the link resolves to")
			// kind test on Lstat(realPath)
			var kind []Edge
			for _, ci := range callsTo(fn, func(o *types.Func) bool { return isFunc(o, "os", "Lstat") || isFunc(o, "os", "Stat") }) {
				cl := ci.(*ssa.Call)
				fi := extractOf(cl, 0)
				isReal := false
				for v := range p.backSlice(cl.Call.Args[0], 0) {
					if c2, ok := v.(*ssa.Call); ok && isFunc(calleeObj(c2), "path/filepath", "EvalSymlinks") {
						isReal = true
					}
				}
				if !isReal || fi == nil {
					continue
				}
				t, _ := condEdges(fn, func(v ssa.Value) bool {
					mc, ok := v.(*ssa.Call)
					if !ok {
						return false
					}
					o := calleeObj(mc)
					if !(isMethod(o, "io/fs", "FileMode", "IsRegular") || isMethod(o, "io/fs", "FileMode", "IsDir")) {
						return false
					}
					m, ok := mc.Call.Args[0].(*ssa.Call)
					return ok && m.Call.IsInvoke() && m.Call.Method.Name() == "Mode" && canon(m.Call.Value) == fi
				})
				kind = append(kind, t...)
			}
			c.check(guarded(r.Block(), kind), R, name, fmt.Sprintf("keep exit %d kind", i), p.Pos(r.Pos()), "kept only when the real referent is a regular file or a directory", "a special file (fifo, device, socket) or a dangling referent can be kept in the bundle")
		}
	}
}

func ruleC10Tmp(c *Checker) {
	const R = "C10.tmp"
	c.rule(R, "No temporary directory is left in a finished bundle: from the creation of the work directory every success return of the package-ensuring function passes os.Rename(workDir, final) or os.RemoveAll(workDir), and so does every way back to the creation of another one.", 1)
	p := c.P
	fn, fetch := ensureFunc(p)
	if fn == nil {
		c.anchorMissing(R, "the package-ensuring function")
		return
	}
	workDir := canon(fetch.Call.Args[len(fetch.Call.Args)-1])
	tmp := callOf(workDir)
	if tmp == nil {
		c.fail(R, p.FuncName(fn), "work directory", p.Pos(fetch.Pos()), "the directory handed to the fetcher is not a freshly created temporary directory")
		return
	}
	pass := func(in ssa.Instruction) bool {
		cl, ok := in.(*ssa.Call)
		if !ok {
			return false
		}
		o := calleeObj(cl)
		return (isFunc(o, "os", "Rename") || isFunc(o, "os", "RemoveAll")) && canon(cl.Call.Args[0]) == workDir
	}
	// … and before another one is created (a retry loop that makes a fresh directory per attempt)
	ok, off := mustPassOK(tmp, pass, func(r *ssa.Return) bool { return !mayReturnNilErr(r) }, func(in ssa.Instruction) bool { return in == ssa.Instruction(tmp) })
	pos := p.Pos(tmp.Pos())
	if off != nil {
		pos = p.Pos(off.Pos())
	}
	c.check(ok, R, p.FuncName(fn), "temporary directory disposed of", pos, "renamed into place or removed on every successful path, and before the next one is made", "a successful build can leave a .tmp-* directory in the bundle (a success return, or a second attempt with a fresh directory, is reached without the directory having been renamed into place or removed)")
}

func ruleC10Inside(c *Checker) {
	const R = "C10.inside"
	c.rule(R, "Nothing outside the target directory is touched: the path of every mutating filesystem call reachable from the builder originates only from Builder.targetDir, the temporary directory created under it, or the walk callback's own entry path; the temporary directory is created under targetDir.", 4)
	p := c.P
	var roots []*ssa.Function
	for _, n := range []string{"Builder.AddRemoteSource", "Builder.AddRegistrySource", "Builder.AddFinalRegistrySource", "Builder.Close"} {
		if f := p.Fn(bundlePkg, n); f != nil {
			roots = append(roots, f)
		}
	}
	if len(roots) == 0 {
		c.anchorMissing(R, "Builder entry points")
		return
	}
	walkFns := map[*ssa.Function]bool{}
	for _, w := range bundleWalks(p) {
		walkFns[w] = true
	}
	for _, s := range fsSinkSites(sortedFuncs(p.reach(roots...))) {
		if !inBundlePkg(p, s.Fn) {
			continue
		}
		for _, ai := range s.Sink.PathArgs {
			args := s.Call.Common().Args
			if ai >= len(args) {
				continue
			}
			var bad []string
			for _, l := range p.origins(args[ai], 2) {
				switch {
				case l.Kind == "field" && l.Field != nil && l.Field.Name() == "targetDir":
				case l.Kind == "call" && l.Callee != nil && (fullName(l.Callee) == "io/ioutil.TempDir" || fullName(l.Callee) == "os.MkdirTemp"):
				case l.Kind == "param" && walkFns[l.V.Parent()]:
				case l.Kind == "const":
				case l.Kind == "call" && l.Callee != nil && (l.Callee.Name() == "EncodeToString" || strings.HasSuffix(fullName(l.Callee), "dirhash.HashDir")):
					// the content-hash directory name
				default:
					bad = append(bad, leafDesc(p, l))
				}
			}
			sort.Strings(bad)
			c.check(len(bad) == 0, R, p.FuncName(s.Fn), fmt.Sprintf("%s(arg%d)", shortCallee(s.Name), ai), p.Pos(s.Call.Pos()), "path derives from targetDir / the temporary directory / the walked entry", "a mutating call takes a path from "+strings.Join(uniq(bad), ", "))
		}
		if s.Sink.Class == "temp" {
			okT := false
			for _, l := range p.origins(s.Call.Common().Args[0], 1) {
				if l.Kind == "field" && l.Field.Name() == "targetDir" {
					okT = true
				}
			}
			c.check(okT, R, p.FuncName(s.Fn), "temporary directory under targetDir", p.Pos(s.Call.Pos()), "TempDir(b.targetDir, …)", "the work directory is not created under the target directory")
		}
	}
}

// ---------- C17 ----------

func ruleC17Dep(c *Checker) {
	const R = "C17.dep"
	c.rule(R, "The version sent to ModulePackageSourceAddr and used as the resolvedRegistry key is the result of versions.List.NewestInSet applied to a list that depends on the registry's response for that package (fresh or cached) and to the caller's allowed set; the deprecation recorded for it is taken from the response element whose version is the selected one.", 4)
	p := c.P
	var site *ssa.Call
	for _, fn := range p.Funcs {
		if !inBundlePkg(p, fn) {
			continue
		}
		for _, ci := range callsIn(fn) {
			if ci.Common().IsInvoke() && ci.Common().Method.Name() == "ModulePackageSourceAddr" {
				site = ci.(*ssa.Call)
			}
		}
	}
	if site == nil {
		c.anchorMissing(R, "a call to RegistryClient.ModulePackageSourceAddr")
		return
	}
	fn := site.Parent()
	name := p.FuncName(fn)
	ver := site.Call.Args[len(site.Call.Args)-1]
	sel := callOf(canon(ver))
	okSel := sel != nil && isMethod(calleeObj(sel), "github.com/apparentlymart/go-versions/versions", "List", "NewestInSet")
	c.check(okSel, R, name, "selection by NewestInSet", p.Pos(site.Pos()), "the requested version is versions.List.NewestInSet(…)", "the requested version is not the newest-in-set selection over the offered versions")
	if !okSel {
		return
	}
	// receiver depends on the response, argument on the allowed-set parameter
	respDep, cacheDep := false, false
	for v := range p.backSlice(sel.Call.Args[0], 1) {
		if cl, ok := v.(*ssa.Call); ok && cl.Call.IsInvoke() && cl.Call.Method.Name() == "ModulePackageVersions" {
			respDep = true
		}
		if lk, ok := v.(*ssa.Lookup); ok && builderMapOf(lk.X) == "registryPackageVersions" {
			cacheDep = true
		}
	}
	c.check(respDep && cacheDep, R, name, "offered versions from the registry response", p.Pos(sel.Pos()), "the list derives from ModulePackageVersions (or its cached copy for the same package)", "the versions chosen from do not come from the registry's answer for this package")
	allowDep := false
	for v := range p.backSlice(sel.Call.Args[1], 0) {
		if prm, ok := v.(*ssa.Parameter); ok && prm.Parent() == fn && strings.Contains(prm.Type().String(), "versions.Set") {
			allowDep = true
		}
	}
	c.check(allowDep, R, name, "allowed set from the caller", p.Pos(sel.Pos()), "the set is the caller's allowedVersions parameter", "the caller's version constraint is ignored in the selection")
	// ... and it is that set itself: a set derived from it by a library operation (dropping
	// pre-releases, intersecting, subtracting) selects from a different set than the caller allowed
	var xform string
	var asIs func(v ssa.Value, seen map[ssa.Value]bool) bool
	asIs = func(v ssa.Value, seen map[ssa.Value]bool) bool {
		v = canon(v)
		if seen[v] {
			return true
		}
		seen[v] = true
		switch x := v.(type) {
		case *ssa.Parameter:
			return true
		case *ssa.Phi:
			for _, e := range x.Edges {
				if !asIs(e, seen) {
					return false
				}
			}
			return true
		case *ssa.Call:
			if o := calleeObj(x); o != nil {
				xform = o.FullName()
			}
		}
		return false
	}
	if allowDep {
		okAs := asIs(sel.Call.Args[1], map[ssa.Value]bool{})
		c.check(okAs, R, name, "allowed set used as given", p.Pos(sel.Pos()), "the set handed to NewestInSet is the parameter itself", "the selection is made in a set computed from the caller's allowed set ("+xform+"), not in that set: versions the caller allowed (pre-releases of an open range, …) are never chosen, and a build can fail although an offered version is allowed")
	}
	// key of resolvedRegistry uses the same selected version
	keyOK := false
	eachInstr(fn, func(in ssa.Instruction) {
		if mu, ok := in.(*ssa.MapUpdate); ok && builderMapOf(mu.Map) == "resolvedRegistry" {
			if p.backSlice(mu.Key, 0)[sel] {
				keyOK = true
			}
		}
	})
	c.check(keyOK, R, name, "recorded under the selected version", p.Pos(site.Pos()), "resolvedRegistry key contains the selected version", "the answer is recorded under a different version than the one selected")
	// ... the version itself, not something computed from it (Comparable() drops build metadata:
	// 1.0.0+linux and 1.0.0+darwin then share one slot and the first one resolved answers for both)
	keyExact := true
	var keyBad token.Pos
	checkKey := func(k ssa.Value, pos token.Pos) {
		ld, ok := k.(*ssa.UnOp)
		if !ok {
			return
		}
		al, ok := ld.X.(*ssa.Alloc)
		if !ok {
			return
		}
		st, ok := derefType(al.Type()).Underlying().(*types.Struct)
		if !ok {
			return
		}
		for fi := 0; fi < st.NumFields(); fi++ {
			if !strings.Contains(strings.ToLower(st.Field(fi).Name()), "version") {
				continue
			}
			for _, w := range fieldWrites(al, fi) {
				if p.backSlice(w.Val, 0)[sel] && canon(w.Val) != ssa.Value(sel) {
					keyExact, keyBad = false, pos
				}
			}
		}
	}
	eachInstr(fn, func(in ssa.Instruction) {
		switch x := in.(type) {
		case *ssa.MapUpdate:
			if builderMapOf(x.Map) == "resolvedRegistry" || builderMapOf(x.Map) == "packageVersionDeprecations" {
				checkKey(x.Key, x.Pos())
			}
		case *ssa.Lookup:
			if builderMapOf(x.X) == "resolvedRegistry" {
				checkKey(x.Index, x.Pos())
			}
		}
	})
	c.check(keyExact, R, name, "keyed by the selected version as it is", p.Pos(keyBad), "the key's version field is the NewestInSet result itself", "the per-version record is keyed by something computed from the selected version, not by the version: versions that differ only in what the computation drops (build metadata) share one record, so which of them is fetched depends on which was resolved first")
	// deprecation association (in the resolver or a private helper of it)
	depOK := false
	sameUsed := false
	var rangedOK, ranged = true, 0
	for member := range p.family(fn) {
		eachInstr(member, func(in ssa.Instruction) {
			// the match is exact equality of version values (==): Version.Same ignores build metadata,
			// and two offered versions may differ in nothing else, each with its own note
			var operands []ssa.Value
			var cond ssa.Value
			switch x := in.(type) {
			case *ssa.Call:
				if calleeObj(x) == nil || calleeObj(x).Name() != "Same" {
					return
				}
				for _, a := range x.Call.Args {
					if p.backSlice(a, 1)[sel] {
						sameUsed = true
					}
				}
				return
			case *ssa.BinOp:
				if x.Op != token.EQL && x.Op != token.NEQ {
					return
				}
				if n, ok := types.Unalias(x.X.Type()).(*types.Named); !ok || n.Obj().Name() != "Version" {
					return
				}
				operands, cond = []ssa.Value{x.X, x.Y}, x
			default:
				return
			}
			argsDep := false
			for _, a := range operands {
				if p.backSlice(a, 1)[sel] {
					argsDep = true
				}
			}
			if !argsDep {
				return
			}
			// the true edge guards the use of the Deprecation of the very element whose Version was compared
			var verBases []ssa.Value
			for _, a := range operands {
				for x := range p.backSlice(a, 0) {
					if fa, ok := x.(*ssa.FieldAddr); ok && fieldOf(fa).Name() == "Version" {
						verBases = append(verBases, canon(fa.X))
					}
				}
			}
			t, f := boolEdges(member, cond)
			if bo, isBo := cond.(*ssa.BinOp); isBo && bo.Op == token.NEQ {
				t = f // `if selected != v.Version { continue }`: the equal edge is the false one
			}
			// the element's Deprecation is read behind the equal edge (in the block it leads to, or anywhere
			// only that edge leads to)
			if len(t) > 0 {
				eachInstr(member, func(x ssa.Instruction) {
					fa, ok := x.(*ssa.FieldAddr)
					if !ok || fieldOf(fa) == nil || fieldOf(fa).Name() != "Deprecation" {
						return
					}
					onEdgeTarget := false
					for _, e := range t {
						if e.To() == fa.Block() {
							onEdgeTarget = true
						}
					}
					if !onEdgeTarget && !guarded(fa.Block(), t) {
						return
					}
					for _, vb := range verBases {
						if canon(fa.X) == vb {
							depOK = true
						}
						// `infos[i].Version` and `infos[i].Deprecation`: two index expressions of one element
						if a, ok := canon(fa.X).(*ssa.IndexAddr); ok {
							if b, ok := vb.(*ssa.IndexAddr); ok && sameSeq(a.X, b.X) && canon(a.Index) == canon(b.Index) {
								depOK = true
							}
						}
					}
				})
			}
		})
		// the infos searched are the registry's answer on the fresh path and its cached copy on the hit path
		eachInstr(member, func(in ssa.Instruction) {
			fa, ok := in.(*ssa.FieldAddr)
			if !ok || fieldOf(fa).Name() != "Deprecation" {
				return
			}
			if n, ok := types.Unalias(derefType(fa.X.Type())).(*types.Named); !ok || n.Obj().Name() != "ModulePackageInfo" {
				return
			}
			for v := range p.backSlice(fa.X, 0) {
				ia, ok := v.(*ssa.IndexAddr)
				if !ok {
					continue
				}
				ranged++
				// a cached copy is the registry's answer only where the table had the package: the value of a
				// comma-ok lookup that missed is an empty list
				var viaPhi func(v ssa.Value, at, to *ssa.BasicBlock, d int)
				viaPhi = func(v ssa.Value, at, to *ssa.BasicBlock, d int) {
					if d > 6 || v == nil {
						return
					}
					switch x := v.(type) {
					case *ssa.Phi:
						for i, e := range x.Edges {
							if e != v {
								viaPhi(e, x.Block().Preds[i], x.Block(), d+1)
							}
						}
					case *ssa.Extract:
						if lk, ok := x.Tuple.(*ssa.Lookup); ok && lk.CommaOk && x.Index == 0 {
							var okv ssa.Value
							if refs := lk.Referrers(); refs != nil {
								for _, r := range *refs {
									if ex, ok := r.(*ssa.Extract); ok && ex.Index == 1 {
										okv = ex
									}
								}
							}
							if okv != nil && at != nil {
								tE, _ := boolEdges(member, okv)
								onEdge := false
								for _, e := range tE {
									// the incoming edge itself may be the ok edge
									if e.From == at && to != nil && e.To() == to {
										onEdge = true
									}
								}
								if !guarded(at, tE) && !onEdge {
									rangedOK = false
								}
							}
						}
					}
				}
				viaPhi(canon(ia.X), nil, nil, 0)
				for _, l := range p.origins(ia.X, 2) {
					switch {
					case l.Kind == "lookup" && builderMapOf(l.Base) == "registryPackageVersions":
					case l.Kind == "field" && l.Field != nil && l.Field.Name() == "Versions":
					default:
						rangedOK = false
					}
				}
			}
		})
	}
	whyDep := "the deprecation note recorded is not tied to the selected version"
	if sameUsed && !depOK {
		whyDep = "the element whose note is recorded is found with Version.Same, which ignores build metadata: with 1.0.0+old (deprecated) and 1.0.0+new offered, the selected 1.0.0+new is recorded with the other build's note (or, listed the other way round, loses its own)"
	}
	c.check(depOK, R, name, "deprecation of the selected version", p.Pos(site.Pos()), "the recorded deprecation is the one attached to the element whose version equals (==) the selected one", whyDep)
	c.check(ranged > 0 && rangedOK, R, name, "deprecation looked up in the registry's answer on every path", p.Pos(site.Pos()), "the list searched is the response's versions or their cached copy", "on some path (e.g. a cache hit) the list searched for the selected version's deprecation is not the registry's answer (empty / a different list): whether a note is recorded then depends on the order packages were resolved in")
}

func ruleC17None(c *Checker) {
	const R = "C17.none"
	c.rule(R, "When no offered version is allowed (the selection equals the library's Unspecified sentinel) the source-address request and the record are unreachable and that edge returns an error.", 2)
	p := c.P
	var site *ssa.Call
	for _, fn := range p.Funcs {
		if !inBundlePkg(p, fn) {
			continue
		}
		for _, ci := range callsIn(fn) {
			if ci.Common().IsInvoke() && ci.Common().Method.Name() == "ModulePackageSourceAddr" {
				site = ci.(*ssa.Call)
			}
		}
	}
	if site == nil {
		c.anchorMissing(R, "a call to RegistryClient.ModulePackageSourceAddr")
		return
	}
	fn := site.Parent()
	name := p.FuncName(fn)
	t, f := condEdges(fn, func(v ssa.Value) bool {
		bo, ok := v.(*ssa.BinOp)
		if !ok || bo.Op != token.EQL {
			return false
		}
		isUnspec := func(x ssa.Value) bool {
			u, ok := x.(*ssa.UnOp)
			if !ok {
				return false
			}
			g, ok := u.X.(*ssa.Global)
			return ok && g.Name() == "Unspecified"
		}
		return isUnspec(bo.X) || isUnspec(bo.Y)
	})
	okErr := len(t) > 0
	for _, e := range t {
		if r, _ := returnsNonNilErrorFrom(e.To()); !r {
			okErr = false
		}
	}
	c.check(okErr, R, name, "no allowed version is an error", p.Pos(fn.Pos()), "selection == Unspecified returns an error", "when no offered version satisfies the constraint the build does not report an error")
	c.check(guarded(site.Block(), f), R, name, "request only for a real version", p.Pos(site.Pos()), "past the not-Unspecified edge", "the registry can be asked for the source of the 'unspecified' version")
}

func ruleC17Final(c *Checker) {
	const R = "C17.final"
	c.rule(R, "An already-versioned registry source resolves to exactly that version: AddFinalRegistrySource hands versions.Only(addr.SelectedVersion()) as the allowed set to the unversioned path.", 1)
	p := c.P
	fn := p.Fn(bundlePkg, "Builder.AddFinalRegistrySource")
	if fn == nil {
		c.anchorMissing(R, "(*Builder).AddFinalRegistrySource")
		return
	}
	ok := false
	why := ""
	for _, ci := range callsIn(fn) {
		g := ci.Common().StaticCallee()
		if g == nil || g.Name() != "AddRegistrySource" {
			continue
		}
		for _, a := range ci.Common().Args {
			cl := callOf(a)
			if cl != nil && isFunc(calleeObj(cl), "github.com/apparentlymart/go-versions/versions", "Only") {
				// the set is built from the selected version itself, not from something computed from it
				ls := p.origins(cl.Call.Args[0], 0)
				ok = len(ls) > 0
				for _, l := range ls {
					isSel := l.Kind == "call" && l.Callee != nil && l.Callee.Name() == "SelectedVersion"
					isFld := l.Kind == "field" && l.Field != nil && l.Field.Name() == "version"
					if !isSel && !isFld {
						ok = false
						why = " (the set is built from " + leafDesc(p, l) + ")"
					}
				}
			}
		}
	}
	c.check(ok, R, p.FuncName(fn), "exact version set", p.Pos(fn.Pos()), "versions.Only(addr.SelectedVersion())", "a final registry source is no longer pinned to exactly its selected version"+why+": e.g. with build metadata dropped, 1.2.3+b7 matches nothing the registry offers, or resolves to plain 1.2.3")
}

// ---------- C18 ----------

func bundleMapOf(v ssa.Value) string {
	ld, ok := canon(v).(*ssa.UnOp)
	if !ok || ld.Op != token.MUL {
		return ""
	}
	fa, ok := ld.X.(*ssa.FieldAddr)
	if !ok || !isNamedT(derefType(fa.X.Type()), "Bundle") {
		return ""
	}
	return fieldOf(fa).Name()
}

func ruleC18DirName(c *Checker) {
	const R = "C18.dirname"
	c.rule(R, "Every value stored into Bundle.remotePackageDirs is guarded, on that very value, by the ok edges of fs.ValidPath, a not-\".\" test and a no-separator test (IndexByte / Contains / Index for '/'), the other edges returning an error; the map is written only in OpenDir.", 4)
	p := c.P
	openDir := p.Fn(bundlePkg, "OpenDir")
	n := 0
	for _, fn := range p.Funcs {
		if !inBundlePkg(p, fn) {
			continue
		}
		eachInstr(fn, func(in ssa.Instruction) {
			mu, ok := in.(*ssa.MapUpdate)
			if !ok || bundleMapOf(mu.Map) != "remotePackageDirs" {
				return
			}
			n++
			name := p.FuncName(fn)
			pos := p.Pos(mu.Pos())
			c.check(openDir != nil && p.family(openDir)[fn], R, name, "writer of Bundle.remotePackageDirs", pos, "written only while loading the manifest (OpenDir and its private helpers)", "Bundle.remotePackageDirs is written outside OpenDir")
			v := mu.Value
			vpT, _ := condEdges(fn, func(x ssa.Value) bool {
				cl, ok := x.(*ssa.Call)
				return ok && isFunc(calleeObj(cl), "io/fs", "ValidPath") && samePureValue(cl.Call.Args[0], v, 0)
			})
			c.check(guarded(mu.Block(), vpT), R, name, "directory name is a valid path", pos, "past fs.ValidPath(name) (no '..', no empty or absolute names)", "a manifest can name a package directory that is not a valid relative path ('..' climbs out of the bundle)")
			_, dotF := condEdges(fn, func(x ssa.Value) bool {
				bo, ok := x.(*ssa.BinOp)
				if !ok || bo.Op != token.EQL {
					return false
				}
				s, ok := constString(bo.Y)
				return ok && s == "." && samePureValue(bo.X, v, 0)
			})
			c.check(guarded(mu.Block(), dotF), R, name, "directory name is not '.'", pos, "past the != \".\" edge", "a manifest can name '.' as a package directory (the bundle root itself)")
			_, sepF := condEdges(fn, func(x ssa.Value) bool {
				// IndexByte(v,'/') >= 0 ; Contains(v,"/") ; Index(v,"/") >= 0 / != -1
				if cl, ok := x.(*ssa.Call); ok {
					o := calleeObj(cl)
					if (isFunc(o, "strings", "Contains") || isFunc(o, "strings", "ContainsRune") || isFunc(o, "strings", "ContainsAny")) && samePureValue(cl.Call.Args[0], v, 0) {
						return true
					}
				}
				bo, ok := x.(*ssa.BinOp)
				if !ok || bo.Op != token.GEQ {
					return false
				}
				cl, ok := bo.X.(*ssa.Call)
				if !ok {
					return false
				}
				o := calleeObj(cl)
				if !(isFunc(o, "strings", "IndexByte") || isFunc(o, "strings", "Index") || isFunc(o, "strings", "IndexRune")) || !samePureValue(cl.Call.Args[0], v, 0) {
					return false
				}
				k, isC := constInt(bo.Y)
				return isC && k == 0
			})
			// … or the same test written the other way round: IndexByte(v,'/') < 0, == -1
			noSepT, _ := condEdges(fn, func(x ssa.Value) bool {
				bo, ok := x.(*ssa.BinOp)
				if !ok || (bo.Op != token.LSS && bo.Op != token.EQL) {
					return false
				}
				cl, ok := bo.X.(*ssa.Call)
				if !ok {
					return false
				}
				o := calleeObj(cl)
				if !(isFunc(o, "strings", "IndexByte") || isFunc(o, "strings", "Index") || isFunc(o, "strings", "IndexRune")) || !samePureValue(cl.Call.Args[0], v, 0) {
					return false
				}
				k, isC := constInt(bo.Y)
				return isC && ((bo.Op == token.LSS && k == 0) || (bo.Op == token.EQL && k == -1))
			})
			sepF = append(sepF, noSepT...)
			c.check(guarded(mu.Block(), sepF), R, name, "directory name has no separator", pos, "past the no-'/' edge", "a manifest can name a nested path as package directory")
		})
	}
	c.check(n > 0, R, "-", "stores", "-", fmt.Sprintf("%d store(s)", n), "Bundle.remotePackageDirs is never filled")
}

func ruleC18Join(c *Checker) {
	const R = "C18.join"
	c.rule(R, "Non-error results of the remote lookup are filepath.Join(b.rootDir, <recorded directory name>, <SubPath() of the typed address>): rooted at the bundle directory, through the validated directory name, with a sub-path that (by C06.ctor) has no '..'.", 3)
	p := c.P
	fn := p.Fn(bundlePkg, "Bundle.LocalPathForRemoteSource")
	if fn == nil {
		c.anchorMissing(R, "Bundle.LocalPathForRemoteSource")
		return
	}
	name := p.FuncName(fn)
	for i, r := range successReturns(fn) {
		for _, v := range returnValues(r, 0) {
			if v == nil {
				continue
			}
			cl := callOf(v)
			if cl == nil || !isFunc(calleeObj(cl), "path/filepath", "Join") {
				c.fail(R, name, fmt.Sprintf("result %d", i), p.Pos(r.Pos()), "the looked-up path is not a filepath.Join under the bundle root")
				continue
			}
			args := flatJoinArgs(cl)
			root, dir, sub := false, false, false
			if len(args) >= 1 {
				if ld, ok := canon(args[0]).(*ssa.UnOp); ok {
					if fa, ok := ld.X.(*ssa.FieldAddr); ok && fieldOf(fa).Name() == "rootDir" {
						root = true
					}
				}
			}
			for _, a := range args[1:] {
				for x := range p.backSlice(a, 0) {
					if lk, ok := x.(*ssa.Lookup); ok && bundleMapOf(lk.X) == "remotePackageDirs" {
						dir = true
					}
					if c2, ok := x.(*ssa.Call); ok && c2.Common().StaticCallee() != nil && c2.Common().StaticCallee().Name() == "SubPath" {
						sub = true
					}
				}
			}
			// no other raw parameter strings
			c.check(root, R, name, fmt.Sprintf("result %d rooted", i), p.Pos(r.Pos()), "first element is b.rootDir", "the looked-up path is not rooted at the bundle directory")
			c.check(dir, R, name, fmt.Sprintf("result %d directory", i), p.Pos(r.Pos()), "uses the recorded directory name", "the looked-up path does not go through the recorded package directory")
			c.check(sub, R, name, fmt.Sprintf("result %d sub-path", i), p.Pos(r.Pos()), "uses the typed address's SubPath()", "the looked-up path does not use the sanitised sub-path of the address")
		}
	}
	// missing package is an error
	var lk *ssa.Lookup
	eachInstr(fn, func(in ssa.Instruction) {
		if l, ok := in.(*ssa.Lookup); ok && bundleMapOf(l.X) == "remotePackageDirs" {
			lk = l
		}
	})
	if lk != nil && lk.CommaOk {
		var okv ssa.Value
		for _, r := range *lk.Referrers() {
			if ex, ok := r.(*ssa.Extract); ok && ex.Index == 1 {
				okv = ex
			}
		}
		_, f := boolEdges(fn, okv)
		okErr := len(f) > 0
		for _, e := range f {
			if r, _ := returnsNonNilErrorFrom(e.To()); !r {
				okErr = false
			}
		}
		c.check(okErr, R, name, "unknown package is an error", p.Pos(lk.Pos()), "the miss edge returns an error", "a package the bundle does not contain yields a path instead of an error")
	}
}

func ruleC18Reverse(c *Checker) {
	const R = "C18.reverse"
	c.rule(R, "The reverse lookup builds its results through RemotePackage.SourceAddr from a sub-path guarded by fs.ValidPath (paths outside the root are refused), compares the first path segment with the recorded directory names, and every exit that found no package returns an error.", 3)
	p := c.P
	fn := p.Fn(bundlePkg, "Bundle.SourceForLocalPath")
	if fn == nil {
		c.anchorMissing(R, "Bundle.SourceForLocalPath")
		return
	}
	name := p.FuncName(fn)
	vpT, _ := condEdges(fn, func(x ssa.Value) bool {
		cl, ok := x.(*ssa.Call)
		return ok && isFunc(calleeObj(cl), "io/fs", "ValidPath")
	})
	for i, r := range successReturns(fn) {
		okr := false
		for _, v := range returnValues(r, 0) {
			if v == nil {
				continue
			}
			for x := range p.backSlice(v, 0) {
				if cl, ok := x.(*ssa.Call); ok && cl.Common().StaticCallee() != nil && cl.Common().StaticCallee().Name() == "SourceAddr" {
					okr = true
				}
			}
		}
		c.check(okr && guarded(r.Block(), vpT), R, name, fmt.Sprintf("success return %d", i), p.Pos(r.Pos()), "pkg.SourceAddr(subPath) past fs.ValidPath", "a path is translated to an address without going through SourceAddr on a validated bundle-relative path")
	}
	// found flag: success only when a candidate matched
	matched := false
	var revRanges []mapRange
	for member := range p.family(fn) {
		revRanges = append(revRanges, mapRanges(member)...)
	}
	// a lookup method of Bundle used only for this purpose also counts
	for _, ci := range callsIn(fn) {
		if g := ci.Common().StaticCallee(); g != nil && inBundlePkg(p, g) && g.Signature.Recv() != nil && isNamedT(derefType(g.Signature.Recv().Type()), "Bundle") && (g.Object() == nil || !g.Object().Exported()) {
			revRanges = append(revRanges, mapRanges(g)...)
		}
	}
	for _, mr := range revRanges {
		if mapDesc(mr.Range.X) == "remotePackageDirs" {
			for b := range mr.Body {
				for _, in := range b.Instrs {
					if bo, ok := in.(*ssa.BinOp); ok && (bo.Op == token.NEQ || bo.Op == token.EQL) && isStringType(bo.X.Type()) {
						matched = true
					}
				}
			}
		}
	}
	c.check(matched, R, name, "compares with recorded directory names", p.Pos(fn.Pos()), "the first segment is compared with each recorded directory", "the reverse lookup no longer matches the path's first segment against the recorded directories")
	// relative path from the root
	relOK := false
	for _, ci := range callsTo(fn, func(o *types.Func) bool { return isFunc(o, "path/filepath", "Rel") }) {
		for v := range p.backSlice(ci.Common().Args[0], 0) {
			if fa, ok := v.(*ssa.FieldAddr); ok && fieldOf(fa).Name() == "rootDir" {
				relOK = true
			}
		}
	}
	c.check(relOK, R, name, "relative to the bundle root", p.Pos(fn.Pos()), "filepath.Rel(b.rootDir, abs)", "the path is not taken relative to the bundle root")
	c.check(len(successReturns(fn)) > 0, R, name, "can succeed", p.Pos(fn.Pos()), fmt.Sprintf("%d success return(s)", len(successReturns(fn))), "no return of the reverse lookup yields an address: every path, inside a package or not, is refused")
	reverseDetail(c, R, fn, revRanges)
}

// reverseDetail: the finer structure of the reverse lookup — how the first
// segment is cut off, what it is compared with, and what "found" means.
func reverseDetail(c *Checker, R string, fn *ssa.Function, ranges []mapRange) {
	p := c.P
	name := p.FuncName(fn)
	// the cut of the first segment
	var cut *ssa.Call
	for _, ci := range callsIn(fn) {
		if cl, ok := ci.(*ssa.Call); ok && (isFunc(calleeObj(cl), "strings", "Cut") || isFunc(calleeObj(cl), "strings", "SplitN") || isFunc(calleeObj(cl), "strings", "Index") || isFunc(calleeObj(cl), "strings", "IndexByte")) {
			cut = cl
		}
	}
	if cut == nil {
		c.fail(R, name, "first segment cut off", p.Pos(fn.Pos()), "the path from the root is not split at its first separator")
		return
	}
	sepOK := false
	if k, ok := constString(cut.Call.Args[1]); ok && k == "/" {
		sepOK = true
	}
	if k, ok := constInt(cut.Call.Args[1]); ok && k == '/' {
		sepOK = true
	}
	c.check(sepOK, R, name, "first segment cut at \"/\"", p.Pos(cut.Pos()), "separator \"/\"", "the path from the root is split at something other than a single \"/\": the first segment is then never a package directory name, so every path inside a package is reported as not belonging to the bundle (or sub-paths are mis-cut)")
	// from the Rel result to the cut: only slash conversion and cleaning
	cleaned := cut.Call.Args[0]
	v := cleaned
	chainOK, bad := false, ""
	for i := 0; i < 6; i++ {
		cv := canon(v)
		if ex, ok := cv.(*ssa.Extract); ok {
			if cl, ok := ex.Tuple.(*ssa.Call); ok && isFunc(calleeObj(cl), "path/filepath", "Rel") {
				chainOK = true
			}
			break
		}
		cl, ok := cv.(*ssa.Call)
		if !ok {
			break
		}
		o := calleeObj(cl)
		if isFunc(o, "path", "Clean") || isFunc(o, "path/filepath", "ToSlash") || isFunc(o, "path/filepath", "Clean") {
			v = cl.Call.Args[0]
			continue
		}
		bad = fullName(o)
		break
	}
	c.check(chainOK, R, name, "the path that is cut is the path from the root", p.Pos(cut.Pos()), "filepath.Rel result, slash-converted and cleaned only", "what is split into package directory and sub-path is not the cleaned path from the bundle root ("+bad+" in between): the last segment is dropped or the wrong one kept, so a file maps to another file's address")
	neT, _ := condEdges(fn, func(x ssa.Value) bool {
		bo, ok := x.(*ssa.BinOp)
		if !ok || bo.Op != token.NEQ {
			return false
		}
		k, isC := constString(bo.Y)
		return isC && k == "." && canon(bo.X) == canon(cleaned)
	})
	_, eqF := condEdges(fn, func(x ssa.Value) bool {
		bo, ok := x.(*ssa.BinOp)
		if !ok || bo.Op != token.EQL {
			return false
		}
		k, isC := constString(bo.Y)
		return isC && k == "." && canon(bo.X) == canon(cleaned)
	})
	notRoot := append(neT, eqF...)
	// the path made relative is the absolute form of the argument; the io/fs validity test looks at the cleaned path
	for _, ci := range callsTo(fn, func(o *types.Func) bool { return isFunc(o, "path/filepath", "Rel") }) {
		a := canon(ci.Common().Args[1])
		fromAbs := false
		if ex, ok := a.(*ssa.Extract); ok {
			if ac, ok := ex.Tuple.(*ssa.Call); ok && isFunc(calleeObj(ac), "path/filepath", "Abs") {
				fromAbs = true
			}
		}
		c.check(fromAbs, R, name, "the absolute form of the path is made relative", p.Pos(ci.Pos()), "filepath.Rel(root, filepath.Abs result)", "the path handed to filepath.Rel is not the absolute form of the argument: a relative spelling of a path inside a package cannot be made relative to the absolute root and is refused")
	}
	for _, ci := range callsTo(fn, func(o *types.Func) bool { return isFunc(o, "io/fs", "ValidPath") }) {
		c.check(canon(ci.Common().Args[0]) == canon(cleaned), R, name, "path validity tested on the cleaned path from the root", p.Pos(ci.Pos()), "fs.ValidPath(the value that is cut)", "fs.ValidPath is applied to something other than the cleaned path from the root (the caller's spelling, the absolute path): every path is refused")
	}
	// the sub-path validity test looks at what follows the first segment, not at the directory name too
	for _, ci := range callsIn(fn) {
		g := ci.Common().StaticCallee()
		if g == nil || g.Name() != "ValidSubPath" {
			continue
		}
		a := canon(ci.Common().Args[0])
		afterCut := false
		if ex, ok := a.(*ssa.Extract); ok && ex.Tuple == ssa.Value(cut) && ex.Index == 1 {
			afterCut = true
		}
		isTail := func(v ssa.Value) bool {
			sl, ok := canon(v).(*ssa.Slice)
			return ok && sl.Low != nil && p.backSlice(sl.Low, 0)[cut]
		}
		if isTail(a) {
			afterCut = true
		}
		if ph, ok := a.(*ssa.Phi); ok {
			// "" when there is no separator, the tail otherwise
			afterCut = true
			for _, e := range ph.Edges {
				if k, isC := constString(e); isC && k == "" {
					continue
				}
				if !isTail(e) {
					afterCut = false
				}
			}
		}
		c.check(afterCut, R, name, "sub-path validity tested on the remainder", p.Pos(ci.Pos()), "ValidSubPath(what follows the first separator)", "the sub-path validity test is applied to the whole path from the root, package directory name included: a directory name the manifest reader accepts but a sub-path cannot contain (a question mark) makes every path below that package be refused, although the forward lookup returns them")
	}
	// the found flag
	for _, mr := range ranges {
		if mapDesc(mr.Range.X) != "remotePackageDirs" || mr.Fn != fn {
			continue
		}
		var flag *ssa.Phi
		for _, in := range mr.Head.Instrs {
			if ph, ok := in.(*ssa.Phi); ok && isBoolType(ph.Type()) {
				flag = ph
			}
		}
		if flag == nil {
			c.fail(R, name, "found flag", p.Pos(mr.Range.Pos()), "no boolean carried round the candidate loop: the lookup cannot tell a matched package from none")
			continue
		}
		flagT, _ := boolEdges(fn, flag)
		for i, r := range successReturns(fn) {
			c.check(len(flagT) > 0 && guarded(r.Block(), flagT), R, name, fmt.Sprintf("success return %d only when a package matched", i), p.Pos(r.Pos()), "past the true edge of the found flag", "an address is returned although no package directory matched (the zero package), or the not-found test is inverted so that every path inside a package is refused")
			c.check(len(notRoot) > 0 && guarded(r.Block(), notRoot), R, name, fmt.Sprintf("success return %d not for the bundle root", i), p.Pos(r.Pos()), "past the test that the path from the root is not \".\"", "the test for the bundle root itself is missing or inverted: every path below the root is refused (or the root is translated)")
		}
		// how the flag becomes true: only past the equality of the candidate's directory with the first segment
		var val ssa.Value
		if refs := mr.Next.Referrers(); refs != nil {
			for _, r := range *refs {
				if ex, ok := r.(*ssa.Extract); ok && ex.Index == 2 {
					val = ex
				}
			}
		}
		isDirCmp := func(x ssa.Value, op token.Token) bool {
			bo, ok := x.(*ssa.BinOp)
			if !ok || bo.Op != op || val == nil {
				return false
			}
			other := bo.Y
			if canon(bo.X) != val {
				if canon(bo.Y) != val {
					return false
				}
				other = bo.X
			}
			// the other side is the first segment
			return p.backSlice(other, 0)[cut]
		}
		eqT, _ := condEdges(fn, func(x ssa.Value) bool { return isDirCmp(x, token.EQL) })
		_, neFalse := condEdges(fn, func(x ssa.Value) bool { return isDirCmp(x, token.NEQ) })
		same := append(eqT, neFalse...)
		var setOK func(v ssa.Value, pred *ssa.BasicBlock, seen map[ssa.Value]bool) bool
		setOK = func(v ssa.Value, pred *ssa.BasicBlock, seen map[ssa.Value]bool) bool {
			if v == ssa.Value(flag) || seen[v] {
				return true
			}
			seen[v] = true
			if b, isC := constBool(v); isC {
				return !b || (len(same) > 0 && guarded(pred, same))
			}
			if ph, ok := v.(*ssa.Phi); ok {
				for i, e := range ph.Edges {
					if !setOK(e, ph.Block().Preds[i], seen) {
						return false
					}
				}
				return true
			}
			return false
		}
		okSet := true
		for i, e := range flag.Edges {
			if !setOK(e, mr.Head.Preds[i], map[ssa.Value]bool{}) {
				okSet = false
			}
		}
		c.check(okSet, R, name, "found only for a candidate whose directory is the first segment", p.Pos(flag.Pos()), "the flag is set only past the equality of the recorded directory with the first segment", "a candidate is kept although its directory differs from the path's first segment (the comparison is missing or inverted): paths map to the wrong package, and the matching package is skipped")
		// choosing among several candidates only once one is held
		okTie := true
		for b := range mr.Body {
			for _, in := range b.Instrs {
				bo, ok := in.(*ssa.BinOp)
				if !ok {
					continue
				}
				switch bo.Op {
				case token.GTR, token.LSS, token.GEQ, token.LEQ:
					if !(len(flagT) > 0 && guarded(b, flagT)) {
						okTie = false
					}
				}
			}
		}
		c.check(okTie, R, name, "tie-break only against a held candidate", p.Pos(mr.Range.Pos()), "the comparisons with the kept candidate sit past the true edge of the found flag", "the first candidate is compared with the zero package (whose text is empty and so always shorter): no candidate is ever kept and every path is refused")
	}
}

// ruleC08Meta: what the fetcher and the registry supplied is recorded on every
// successful path, whichever way the function succeeds.
func ruleC08Meta(c *Checker) {
	const R = "C08.meta"
	c.rule(R, "Metadata supplied by the fetcher is recorded on every successful path: from the fetcher's ok edge every path to a success return of the package-ensuring function passes the update of Builder.remotePackageMeta with the response's metadata, or the nil edge of the 'metadata present' test — including the early success return taken when an identical package directory already exists (otherwise which of two identical packages keeps its metadata depends on the order they were fetched in).", 1)
	p := c.P
	fn, fetch := ensureFunc(p)
	if fn == nil {
		c.anchorMissing(R, "the package-ensuring function")
		return
	}
	resp := extractOf(fetch, 0)
	isRecord := func(in ssa.Instruction) bool {
		mu, ok := in.(*ssa.MapUpdate)
		if !ok || builderMapOf(mu.Map) != "remotePackageMeta" {
			return false
		}
		return resp != nil && p.backSlice(mu.Value, 0)[resp]
	}
	// nil edges of the presence test on the response's metadata
	_, absent := condEdges(fn, func(v ssa.Value) bool {
		bo, ok := v.(*ssa.BinOp)
		if !ok || bo.Op != token.NEQ || !isNilConst(bo.Y) {
			return false
		}
		return resp != nil && p.backSlice(bo.X, 0)[resp]
	})
	okE, _ := okEdgesOfCall(fetch)
	okAll := len(okE) > 0
	var off ssa.Instruction
	for _, e := range okE {
		seen := map[*ssa.BasicBlock]bool{}
		var walk func(b *ssa.BasicBlock, from int) bool
		walk = func(b *ssa.BasicBlock, from int) bool {
			for i := from; i < len(b.Instrs); i++ {
				in := b.Instrs[i]
				if isRecord(in) {
					return true
				}
				if r, ok := in.(*ssa.Return); ok {
					if mayReturnNilErr(r) {
						off = r
						return false
					}
					return true
				}
			}
			for i, s := range b.Succs {
				skip := false
				for _, a := range absent {
					if a.From == b && a.Succ == i {
						skip = true // nothing to record on this path
					}
				}
				if skip || seen[s] {
					continue
				}
				seen[s] = true
				if !walk(s, 0) {
					return false
				}
			}
			return true
		}
		if !walk(e.To(), 0) {
			okAll = false
		}
	}
	pos := p.Pos(fetch.Pos())
	if off != nil {
		pos = p.Pos(off.Pos())
	}
	c.check(okAll, R, p.FuncName(fn), "fetcher metadata recorded on every successful path", pos, "every success return lies past the metadata update (or the 'no metadata' edge)", "a success return can be reached without recording the fetcher's metadata (e.g. the early return for an already-present identical directory): the bundle's metadata then depends on fetch order")
}

// flatJoinArgs: the elements of a filepath.Join, with a first element that is
// itself a Join expanded (Join(Join(a, b), c) == Join(a, b, c)).
func flatJoinArgs(cl ssa.CallInstruction) []ssa.Value {
	args := joinArgs(cl)
	for depth := 0; depth < 4 && len(args) > 0; depth++ {
		inner := callOf(canon(args[0]))
		if inner == nil || !isFunc(calleeObj(inner), "path/filepath", "Join") {
			break
		}
		args = append(append([]ssa.Value{}, joinArgs(inner)...), args[1:]...)
	}
	return args
}

// C10.links — a package link is judged by how its target is spelled, too.
func ruleC10Links(c *Checker) {
	const R = "C10.links"
	c.rule(R, "The package directory is renamed after the preparation walk and a finished bundle may be moved or archived, so where a link resolves during the walk is not enough: every non-error exit of the walk callback that can be reached for a symlink entry (it is not past the not-a-symlink edge of a test of the entry's mode) lies past the is-relative edge of filepath.IsAbs on the os.Readlink of the entry and past the tests that the target joined onto the entry's directory below the root is neither \"..\" nor starts with \"../\".", 1)
	p := c.P
	ws := bundleWalks(p)
	if len(ws) == 0 {
		c.anchorMissing(R, "the bundle preparation walk callback")
		return
	}
	for _, fn := range ws {
		name := p.FuncName(fn)
		var pathParam, infoParam *ssa.Parameter
		for _, prm := range fn.Params {
			if isStringType(prm.Type()) && pathParam == nil {
				pathParam = prm
			}
			if n, ok := types.Unalias(prm.Type()).(*types.Named); ok && n.Obj().Name() == "FileInfo" {
				infoParam = prm
			}
		}
		// not-a-symlink edges: the symlink test on the walked info, in any of its spellings
		var notLink []Edge
		if infoParam != nil {
			_, notLink = symlinkEdges(fn, infoParam)
		}
		// the target text
		var target ssa.Value
		for _, ci := range callsTo(fn, func(o *types.Func) bool { return isFunc(o, "os", "Readlink") }) {
			cl := ci.(*ssa.Call)
			if pathParam != nil && canon(cl.Call.Args[0]) == ssa.Value(pathParam) {
				target = extractOf(cl, 0)
			}
		}
		if target == nil {
			c.fail(R, name, "link target read", p.Pos(fn.Pos()), "the walk never reads a link's target text (os.Readlink of the entry): an absolute target, or one that leaves the package and re-enters it through the directory's temporary name, resolves inside the package during the walk and dangles once the directory is renamed")
			continue
		}
		_, relE := condEdges(fn, func(v ssa.Value) bool {
			cl, ok := v.(*ssa.Call)
			return ok && isFunc(calleeObj(cl), "path/filepath", "IsAbs") && canon(cl.Call.Args[0]) == target
		})
		var nddE, npE []Edge
		joinShapeBad := ""
		isJoined := func(v ssa.Value) bool {
			cl := callOf(canon(v))
			if cl == nil || !isFunc(calleeObj(cl), "path/filepath", "Join") {
				return false
			}
			if !p.backSlice(cl, 0)[target] {
				return false
			}
			// Join(directory of the entry, target), in that order
			ja := joinArgs(cl)
			if len(ja) >= 2 {
				first := callOf(canon(ja[0]))
				if first == nil || !isFunc(calleeObj(first), "path/filepath", "Dir") {
					joinShapeBad = "the target is not joined onto the DIRECTORY of the entry (filepath.Dir of its path from the root)"
				}
				if canon(ja[len(ja)-1]) != canon(target) {
					joinShapeBad = "the link's target is not the last element joined"
				}
			}
			return true
		}
		nddE, npE = dotDotEdges(fn, isJoined)
		n := 0
		for i, r := range returnsOf(fn) {
			if !mayReturnNilErr(r) {
				continue
			}
			// exits that removed the entry or concern the root are not 'kept link' exits
			if guarded(r.Block(), rootEdges(fn)) {
				continue
			}
			if ok, _ := mustPassBackward(r, func(in ssa.Instruction) bool { return p.removesPath(in, pathParam) }); ok {
				continue
			}
			if p.guardedC(r.Block(), notLink) {
				continue // cannot be reached for a link
			}
			n++
			ok := true
			why := ""
			for _, g := range []struct {
				e   []Edge
				why string
			}{{relE, "an absolute target is not refused"}, {nddE, "a target that leads to the parent of the package root is not refused"}, {npE, "a target that climbs out of the package (and may come back in by name) is not refused"}} {
				if !p.guardedC(r.Block(), append(append([]Edge{}, notLink...), g.e...)) {
					ok, why = false, g.why
				}
			}
			c.check(ok, R, name, fmt.Sprintf("exit %d: link target spelling judged", i), p.Pos(r.Pos()), "for a link, reached only past IsAbs-false and the \"..\" tests of its target from the root", "a link can be kept on where it resolves during the walk alone ("+why+"): spelled through the directory's temporary name it dangles, pointing out of its package, once the directory is renamed")
		}
		c.check(n > 0, R, name, "exits reachable for links", p.Pos(fn.Pos()), fmt.Sprintf("%d", n), "no non-error exit of the walk can be reached for a symlink entry (links are no longer kept at all)")
		c.check(joinShapeBad == "", R, name, "where the target leads from the root", p.Pos(fn.Pos()), "filepath.Join(filepath.Dir(entry from the root), target)", "the path judged for climbing out of the package is not 'directory of the entry, then the target' ("+joinShapeBad+"): one \"..\" is absorbed by the entry's own name, or every \"..\" counts from the wrong place — a link that leaves the package passes, or sub/link -> ../file is refused")
	}
}

// C08.drain — the queues are drained before the call returns.
func ruleC08Drain(c *Checker) {
	const R = "C08.drain"
	c.rule(R, "The queue-draining function returns only with both pending queues empty — every return lies past the is-empty edge of a length test of each queue — or after it has itself recorded an error diagnostic (a store of the DiagError severity constant into a diagnostic it appends), which poisons the builder. Returning early on anything else (a finder's warning) leaves reported dependencies queued: no call fails, Close succeeds, and the dependencies are missing from the bundle.", 1)
	p := c.P
	fn, _ := drainFunc(p)
	if fn == nil {
		c.anchorMissing(R, "the queue-draining function (caller of FindDependencies)")
		return
	}
	name := p.FuncName(fn)
	emptyEdges := map[string][]Edge{}
	for _, b := range fn.Blocks {
		ifi, ok := b.Instrs[len(b.Instrs)-1].(*ssa.If)
		if !ok {
			continue
		}
		cond, neg := stripNot(ifi.Cond)
		bo, ok := cond.(*ssa.BinOp)
		if !ok {
			continue
		}
		cl, ok := bo.X.(*ssa.Call)
		if !ok {
			continue
		}
		bi, ok := cl.Call.Value.(*ssa.Builtin)
		if !ok || bi.Name() != "len" {
			continue
		}
		ld, ok := canon(cl.Call.Args[0]).(*ssa.UnOp)
		if !ok {
			continue
		}
		fa, ok := ld.X.(*ssa.FieldAddr)
		if !ok || !isNamedT(derefType(fa.X.Type()), "Builder") || !strings.HasPrefix(fieldOf(fa).Name(), "pending") {
			continue
		}
		k, isC := constInt(bo.Y)
		if !isC {
			continue
		}
		// which edge means "empty"
		var emptyOnTrue bool
		switch {
		case bo.Op == token.GTR && k == 0, bo.Op == token.NEQ && k == 0, bo.Op == token.GEQ && k == 1:
			emptyOnTrue = false
		case bo.Op == token.EQL && k == 0, bo.Op == token.LEQ && k == 0, bo.Op == token.LSS && k == 1:
			emptyOnTrue = true
		default:
			continue
		}
		if neg {
			emptyOnTrue = !emptyOnTrue
		}
		succ := 1
		if emptyOnTrue {
			succ = 0
		}
		emptyEdges[fieldOf(fa).Name()] = append(emptyEdges[fieldOf(fa).Name()], Edge{b, succ})
	}
	if len(emptyEdges) < 2 {
		c.fail(R, name, "queue length tests", p.Pos(fn.Pos()), fmt.Sprintf("length tests found for %d pending queue(s): the drain loop is not recognised", len(emptyEdges)))
		return
	}
	isErrDiag := func(in ssa.Instruction) bool {
		st, ok := in.(*ssa.Store)
		if !ok {
			return false
		}
		fa, ok := st.Addr.(*ssa.FieldAddr)
		if !ok || fieldOf(fa) == nil || fieldOf(fa).Name() != "severity" {
			return false
		}
		k, isC := constInt(st.Val)
		return isC && k == 'E'
	}
	n := 0
	for i, r := range returnsOf(fn) {
		n++
		drained := true
		for _, es := range emptyEdges {
			if !guarded(r.Block(), es) {
				drained = false
			}
		}
		okErr, _ := mustPassBackward(r, isErrDiag)
		c.check(drained || okErr, R, name, fmt.Sprintf("return %d with the queues drained", i), p.Pos(r.Pos()), "past the is-empty edge of both queues' length tests (or after recording an error of its own)", "the drain loop can be left with items still queued and no error recorded (e.g. at the first diagnostic a finder returns, a warning included): the dependencies still queued are never fetched, no call reports anything and Close succeeds")
	}
	c.check(n > 0, R, name, "returns", p.Pos(fn.Pos()), fmt.Sprintf("%d", n), "no return found")
}

// C18.symmetric / C09.symmetric — the root and the path compared with it are
// canonicalised the same way.
func ruleRootSymmetric(id string) func(*Checker) {
	return func(c *Checker) {
		c.rule(id, "Where a Bundle method takes a path relative to the bundle root (filepath.Rel with the rootDir field as base), both operands went through the same canonicalisation: either both are resolved physically (filepath.EvalSymlinks on the value stored in rootDir and on the argument) or neither is. Resolving one side only makes every path of a bundle reached through a symbolic link 'not belong to the bundle', while the bundle returned by Close — built at a link-free spelling — answers properly.", 1)
		p := c.P
		rv := p.FieldVar(bundlePkg, "Bundle", "rootDir")
		if rv == nil {
			c.anchorMissing(id, "sourcebundle.Bundle.rootDir")
			return
		}
		physical := func(v ssa.Value) bool {
			for w := range p.backSlice(v, 1) {
				if cl, ok := w.(*ssa.Call); ok && isFunc(calleeObj(cl), "path/filepath", "EvalSymlinks") {
					return true
				}
			}
			return false
		}
		rootPhysical, nStores := false, 0
		for _, fn := range p.Funcs {
			if !inBundlePkg(p, fn) {
				continue
			}
			for _, st := range storesToField(fn, rv) {
				nStores++
				if physical(st.Val) {
					rootPhysical = true
				}
			}
		}
		if nStores == 0 {
			c.anchorMissing(id, "a store to Bundle.rootDir")
			return
		}
		n := 0
		for _, fn := range p.Funcs {
			if !inBundlePkg(p, fn) {
				continue
			}
			for _, ci := range callsTo(fn, func(o *types.Func) bool { return isFunc(o, "path/filepath", "Rel") }) {
				cl := ci.(*ssa.Call)
				isRoot := false
				if ld, ok := canon(cl.Call.Args[0]).(*ssa.UnOp); ok {
					if fa, ok := ld.X.(*ssa.FieldAddr); ok && fieldOf(fa) == rv {
						isRoot = true
					}
				}
				if !isRoot {
					continue
				}
				n++
				argPhysical := physical(cl.Call.Args[1])
				why := "the argument is resolved with filepath.EvalSymlinks but the root it is compared with is only made absolute"
				if rootPhysical && !argPhysical {
					why = "the root is stored resolved with filepath.EvalSymlinks but the path compared with it is only made absolute"
				}
				c.check(rootPhysical == argPhysical, id, p.FuncName(fn), "root and path canonicalised alike", p.Pos(cl.Pos()), fmt.Sprintf("EvalSymlinks on the root: %v, on the path: %v", rootPhysical, argPhysical), why+": for a bundle directory reached through a symbolic link every file is reported as not belonging to the bundle")
			}
		}
		c.check(n > 0, id, "-", "paths taken relative to the root", "-", fmt.Sprintf("%d site(s)", n), "no Bundle method takes a path relative to rootDir with filepath.Rel")
	}
}

// C09.answers — the listing methods of a Bundle can answer.
func ruleC09Answers(c *Checker) {
	const R = "C09.answers"
	c.rule(R, "Every exported method of Bundle whose single result is a slice has a return whose value is not the nil constant, and its value derives from a field of the receiver: a listing method all of whose returns are nil (its loop cut off by a constant condition or an early return) cannot read back what the manifest recorded.", 3)
	p := c.P
	for _, fn := range p.Funcs {
		if !inBundlePkg(p, fn) || fn.Signature.Recv() == nil || !isNamedT(derefType(fn.Signature.Recv().Type()), "Bundle") || fn.Object() == nil || !fn.Object().Exported() {
			continue
		}
		res := fn.Signature.Results()
		if res.Len() != 1 {
			continue
		}
		if _, isSlice := res.At(0).Type().Underlying().(*types.Slice); !isSlice {
			continue
		}
		okAns := false
		for _, r := range returnsOf(fn) {
			if len(r.Results) == 1 && !isNilConst(r.Results[0]) {
				for w := range p.backSlice(r.Results[0], 0) {
					if fa, ok := w.(*ssa.FieldAddr); ok && isNamedT(derefType(fa.X.Type()), "Bundle") {
						okAns = true
					}
				}
			}
		}
		c.check(okAns, R, p.FuncName(fn), "can answer from the bundle's records", p.Pos(fn.Pos()), "a return value built from a field of the bundle", "every return of this listing method is nil (or independent of the bundle): what the manifest recorded cannot be read back")
	}
}

// ---------- small generic rules found wanting by the mutation sweep ----------

// ruleLocalMemo — a local map consulted with comma-ok is also filled.
func ruleLocalMemo(id string) func(*Checker) {
	return func(c *Checker) {
		c.rule(id, "A map created inside a function of the bundle package and consulted there with a comma-ok lookup (a memo of what was already emitted, a table of spellings already seen) is updated under the same key on a path from the lookup's miss edge: a memo that is read but never written makes every lookup miss — one manifest entry per version instead of per package (in map order), or a duplicate-spelling test that never fires.", 2)
		p := c.P
		for _, fn := range p.Funcs {
			if !inBundlePkg(p, fn) {
				continue
			}
			eachInstr(fn, func(in ssa.Instruction) {
				lk, ok := in.(*ssa.Lookup)
				if !ok || !lk.CommaOk {
					return
				}
				mm, ok := canon(lk.X).(*ssa.MakeMap)
				if !ok || mm.Parent() != fn {
					return
				}
				var okv ssa.Value
				if refs := lk.Referrers(); refs != nil {
					for _, r := range *refs {
						if ex, isEx := r.(*ssa.Extract); isEx && ex.Index == 1 {
							okv = ex
						}
					}
				}
				if okv == nil {
					return
				}
				_, miss := boolEdges(fn, okv)
				filled := false
				eachInstr(fn, func(x ssa.Instruction) {
					mu, ok := x.(*ssa.MapUpdate)
					if !ok || canon(mu.Map) != ssa.Value(mm) || !(canon(mu.Key) == canon(lk.Index) || sameLoc(mu.Key, lk.Index)) {
						return
					}
					for _, e := range miss {
						if e.To() == mu.Block() || reachFromEdge(e)[mu.Block()] {
							filled = true
						}
					}
				})
				c.check(filled, id, p.FuncName(fn), "local table "+mapDesc(lk.X)+" is filled after a miss", p.Pos(lk.Pos()), "an update under the looked-up key is reachable from the miss edge", "the table is consulted but never filled under the key that was looked up: every lookup misses")
			})
		}
	}
}

// ruleCopiedWhenEmpty — a string field is not copied on the edge where it was
// just found to be empty.
func ruleCopiedWhenEmpty(id string) func(*Checker) {
	return func(c *Checker) {
		c.rule(id, "In the manifest writer and reader, a block reached only over the edge on which a string field was found EMPTY does not store, record or pass on that same field: `if f != \"\" { out.f = f }` written with the test inverted copies the field exactly when there is nothing to copy, and the commit id / message a fetcher supplied never reaches the manifest (or the re-opened bundle).", 1)
		p := c.P
		n := 0
		for _, fn := range p.Funcs {
			if !inBundlePkg(p, fn) {
				continue
			}
			for _, b := range fn.Blocks {
				ifi, ok := b.Instrs[len(b.Instrs)-1].(*ssa.If)
				if !ok {
					continue
				}
				cond, neg := stripNot(ifi.Cond)
				bo, ok := cond.(*ssa.BinOp)
				if !ok || (bo.Op != token.EQL && bo.Op != token.NEQ) {
					continue
				}
				if e, isC := constString(bo.Y); !isC || e != "" {
					continue
				}
				fld := loadedField(bo.X)
				if fld == nil {
					continue
				}
				n++
				emptySucc := 0
				if (bo.Op == token.NEQ) != neg {
					emptySucc = 1
				}
				empty := []Edge{{b, emptySucc}}
				bad := token.NoPos
				for _, b2 := range fn.Blocks {
					if !guarded(b2, empty) {
						continue
					}
					for _, in := range b2.Instrs {
						var vals []ssa.Value
						switch x := in.(type) {
						case *ssa.Store:
							vals = []ssa.Value{x.Val}
						case *ssa.MapUpdate:
							vals = []ssa.Value{x.Value}
						case *ssa.Call:
							if x.Common().StaticCallee() != nil && p.InModule(x.Common().StaticCallee()) {
								vals = x.Call.Args
							}
						}
						for _, v := range vals {
							if loadedField(v) == fld {
								bad = in.Pos()
							}
						}
					}
				}
				c.check(bad == token.NoPos, id, p.FuncName(fn), fmt.Sprintf("field %s not copied where it is empty (test %d)", fld.Name(), n), p.Pos(ifi.Cond.Pos()), "no copy of the field on its is-empty edge", "the field "+fld.Name()+" is copied at "+p.Pos(bad)+" on the edge where it was just found empty — the test is inverted: a non-empty value is never copied")
			}
		}
	}
}

// loadedField: v is a read of a struct field (through an address or a value).
func loadedField(v ssa.Value) *types.Var {
	switch x := canon(v).(type) {
	case *ssa.UnOp:
		if fa, ok := x.X.(*ssa.FieldAddr); ok && x.Op == token.MUL {
			return fieldOf(fa)
		}
	case *ssa.Field:
		return fieldOf(x)
	}
	return nil
}

// ruleArgOrder — same-typed arguments are not handed over crosswise.
func ruleArgOrder(id string) func(*Checker) {
	return func(c *Checker) {
		c.rule(id, "In a call of a module function with two or more parameters of one type, an argument that is a read of a field named like ANOTHER parameter of that type (and not like its own) is in the wrong position: PackageMetaWithGitMetadata(meta.GitCommitMessage, meta.GitCommitID) compiles and swaps the two for every re-opened bundle.", 1)
		p := c.P
		n := 0
		norm := func(s string) string { return strings.ToLower(strings.ReplaceAll(s, "_", "")) }
		for _, fn := range p.Funcs {
			if !inBundlePkg(p, fn) {
				continue
			}
			for _, ci := range callsIn(fn) {
				g := ci.Common().StaticCallee()
				if g == nil || !p.InModule(g) || len(g.Params) < 2 {
					continue
				}
				args := ci.Common().Args
				for i, a := range args {
					if i >= len(g.Params) {
						break
					}
					f := loadedField(a)
					if f == nil {
						continue
					}
					like := func(a, b string) bool {
						return a == b || (len(b) >= 4 && strings.HasSuffix(a, b)) || (len(a) >= 4 && strings.HasSuffix(b, a))
					}
					own := norm(g.Params[i].Name())
					if like(norm(f.Name()), own) {
						n++
						c.pass(id, p.FuncName(fn), fmt.Sprintf("argument %d of %s", i, g.Name()), p.Pos(ci.Pos()), "field "+f.Name()+" for parameter "+g.Params[i].Name())
						continue
					}
					for j, pj := range g.Params {
						if j != i && types.Identical(pj.Type(), g.Params[i].Type()) && like(norm(f.Name()), norm(pj.Name())) {
							n++
							c.fail(id, p.FuncName(fn), fmt.Sprintf("argument %d of %s", i, g.Name()), p.Pos(ci.Pos()), "the field "+f.Name()+" is handed over as parameter "+g.Params[i].Name()+", while the function has a parameter "+pj.Name()+" of the same type: the two values are swapped")
						}
					}
				}
			}
		}
		_ = n
	}
}

// ruleTracerNonNil — the tracer handed to the builder's code is never nil.
func ruleTracerNonNil(id string) func(*Checker) {
	return func(c *Checker) {
		c.rule(id, "Every function of the bundle package that returns a pointer to the callback table returns, on every path, either the address of a package-level table or the result of a comma-ok type assertion on its ok edge: without the fall-back to the no-op tracer, a build on a context that carries no tracer — the ordinary case — dereferences nil at the first event.", 1)
		p := c.P
		for _, fn := range p.Funcs {
			if !inBundlePkg(p, fn) || fn.Signature.Results().Len() != 1 {
				continue
			}
			pt, ok := fn.Signature.Results().At(0).Type().Underlying().(*types.Pointer)
			if !ok || !isCallbackTable(pt.Elem()) || fn.Signature.Recv() != nil {
				continue
			}
			var okVal func(v ssa.Value, at *ssa.BasicBlock, from *ssa.BasicBlock, seen map[ssa.Value]bool) bool
			okVal = func(v ssa.Value, at, from *ssa.BasicBlock, seen map[ssa.Value]bool) bool {
				if seen[v] {
					return true
				}
				seen[v] = true
				switch x := v.(type) {
				case *ssa.Global:
					return true
				case *ssa.Alloc:
					return true
				case *ssa.Extract:
					ta, isTA := x.Tuple.(*ssa.TypeAssert)
					if !isTA || !ta.CommaOk || x.Index != 0 {
						return false
					}
					var okv ssa.Value
					for _, r := range *ta.Referrers() {
						if ex, isEx := r.(*ssa.Extract); isEx && ex.Index == 1 {
							okv = ex
						}
					}
					if okv == nil {
						return false
					}
					tE, _ := boolEdges(fn, okv)
					if len(tE) > 0 && guarded(at, tE) {
						return true
					}
					for _, e := range tE {
						if from != nil && e.From == from && e.To() == at && from.Succs[1-e.Succ] != at {
							return true
						}
					}
					return false
				case *ssa.Phi:
					for i, e := range x.Edges {
						if !okVal(e, x.Block(), x.Block().Preds[i], seen) {
							return false
						}
					}
					return true
				}
				return false
			}
			for i, r := range returnsOf(fn) {
				c.check(okVal(r.Results[0], r.Block(), nil, map[ssa.Value]bool{}), id, p.FuncName(fn), fmt.Sprintf("return %d is not nil", i), p.Pos(r.Pos()), "a package-level table, or an asserted value on its ok edge", "the tracer returned can be nil (a failed type assertion's zero value is returned as it is): the first `trace.X` of any build on a context without a tracer panics")
			}
		}
	}
}

// C10.absdir — the builder works in an absolute directory.
func ruleBuilderAbsDir(id string) func(*Checker) {
	return func(c *Checker) {
		c.rule(id, "The value stored in Builder.targetDir by the constructor passes through filepath.Abs: every package directory, the manifest and every forward lookup are joined onto it, so a relative one (filepath.EvalSymlinks does not make a path absolute) follows the process's working directory — after a chdir the bundle is written into, and read from, another place.", 1)
		p := c.P
		n := 0
		for _, fn := range p.Funcs {
			if !inBundlePkg(p, fn) {
				continue
			}
			eachInstr(fn, func(in ssa.Instruction) {
				st, ok := in.(*ssa.Store)
				if !ok {
					return
				}
				fa, ok := st.Addr.(*ssa.FieldAddr)
				if !ok || fieldOf(fa) == nil || !((isNamedT(derefType(fa.X.Type()), "Builder") && fieldOf(fa).Name() == "targetDir") || (isNamedT(derefType(fa.X.Type()), "Bundle") && fieldOf(fa).Name() == "rootDir")) {
					return
				}
				if _, isC := st.Val.(*ssa.Const); isC {
					return
				}
				n++
				viaAbs := false
				for w := range p.backSlice(st.Val, 0) {
					if cl, ok := w.(*ssa.Call); ok && isFunc(calleeObj(cl), "path/filepath", "Abs") {
						viaAbs = true
					}
				}
				c.check(viaAbs, id, p.FuncName(fn), fieldOf(fa).Name()+" made absolute", p.Pos(st.Pos()), "filepath.Abs", "the builder's directory is stored without passing through filepath.Abs: given a relative directory it follows the working directory")
			})
		}
		_ = n
	}
}

// ruleNameAgreement — same-typed values are not crossed over.
func ruleNameAgreement(id string, pkgs ...string) func(*Checker) {
	return func(c *Checker) {
		c.rule(id, "Where a value with a name (a parameter, a struct field) is stored into a field, returned by an accessor, or passed as an argument, and the destination has a name too: if the destination is not named like the source but IS named like a sibling of the source of identical type (another parameter of the function, another field of the same struct), the two have been crossed over — gitCommitMessage stored as gitCommitID, subPath handed over as sourceType. 'Named like' ignores case and underscores and accepts one name being a suffix of the other (commitID / gitCommitID).", 3)
		p := c.P
		norm := func(s string) string { return strings.ToLower(strings.ReplaceAll(s, "_", "")) }
		like := func(a, b string) bool {
			a, b = norm(a), norm(b)
			return a == b || (len(b) >= 4 && strings.HasSuffix(a, b)) || (len(a) >= 4 && strings.HasSuffix(b, a))
		}
		inScope := map[string]bool{}
		for _, n := range pkgs {
			inScope[p.PkgPath(n)] = true
		}
		// a named source: its name, type, and the names of its same-typed siblings
		type named struct {
			name     string
			siblings []string
		}
		var source func(v ssa.Value, fn *ssa.Function) (named, bool)
		depth := 0
		source = func(v ssa.Value, fn *ssa.Function) (named, bool) {
			// a value run through a one-argument function (a sanitiser, a cleaner) keeps the name of what went in
			if depth < 2 {
				var cl *ssa.Call
				switch y := canon(v).(type) {
				case *ssa.Extract:
					if y.Index == 0 {
						cl, _ = y.Tuple.(*ssa.Call)
					}
				case *ssa.Call:
					cl = y
				}
				if cl != nil && len(cl.Call.Args) == 1 && types.Identical(cl.Call.Args[0].Type(), v.Type()) {
					depth++
					r, ok := source(cl.Call.Args[0], fn)
					depth--
					return r, ok
				}
			}
			switch x := canon(v).(type) {
			case *ssa.Parameter:
				out := named{name: x.Name()}
				for _, q := range x.Parent().Params {
					if q != x && types.Identical(q.Type(), x.Type()) {
						out.siblings = append(out.siblings, q.Name())
					}
				}
				return out, true
			case *ssa.Field, *ssa.UnOp:
				f := loadedField(x)
				if f == nil {
					return named{}, false
				}
				var st *types.Struct
				switch y := x.(type) {
				case *ssa.Field:
					st, _ = y.X.Type().Underlying().(*types.Struct)
				case *ssa.UnOp:
					if fa, ok := y.X.(*ssa.FieldAddr); ok {
						st, _ = derefType(fa.X.Type()).Underlying().(*types.Struct)
					}
				}
				out := named{name: f.Name()}
				if st != nil {
					for i := 0; i < st.NumFields(); i++ {
						if g := st.Field(i); g != f && types.Identical(g.Type(), f.Type()) {
							out.siblings = append(out.siblings, g.Name())
						}
					}
				}
				return out, true
			}
			return named{}, false
		}
		crossed := func(src named, dst string) (string, bool) {
			if like(src.name, dst) {
				return "", false
			}
			for _, sname := range src.siblings {
				if like(sname, dst) {
					return sname, true
				}
			}
			return "", false
		}
		for _, fn := range p.Funcs {
			outer := p.Outer(fn)
			if outer.Package() == nil || !inScope[outer.Package().Pkg.Path()] {
				continue
			}
			name := p.FuncName(fn)
			eachInstr(fn, func(in ssa.Instruction) {
				switch x := in.(type) {
				case *ssa.Store:
					fa, ok := x.Addr.(*ssa.FieldAddr)
					if !ok || fieldOf(fa) == nil {
						return
					}
					if src, ok := source(x.Val, fn); ok {
						if sib, bad := crossed(src, fieldOf(fa).Name()); bad {
							c.fail(id, name, "field "+fieldOf(fa).Name()+" stored from "+src.name, p.Pos(x.Pos()), "the field "+fieldOf(fa).Name()+" is set from "+src.name+", while "+sib+" — same type, and named like the field — is at hand: the two values are crossed over")
						} else {
							c.pass(id, name, "field "+fieldOf(fa).Name()+" stored from "+src.name, p.Pos(x.Pos()), "names agree (or nothing to confuse it with)")
						}
					}
				case *ssa.Return:
					// an accessor: a method whose name is like a field of its receiver
					if fn.Signature.Recv() == nil || len(x.Results) != 1 || fn.Object() == nil {
						return
					}
					// ... or one that delegates to a method of a field: then to the method of its own name
					if cl, ok := canon(x.Results[0]).(*ssa.Call); ok && !cl.Call.IsInvoke() && len(cl.Call.Args) == 1 && loadedField(cl.Call.Args[0]) != nil {
						if g := cl.Common().StaticCallee(); g != nil && g.Signature.Recv() != nil && g.Name() != fn.Object().Name() {
							ms := types.NewMethodSet(g.Signature.Recv().Type())
							for i := 0; i < ms.Len(); i++ {
								if m, ok := ms.At(i).Obj().(*types.Func); ok && m.Name() == fn.Object().Name() && types.Identical(m.Type().(*types.Signature).Results(), g.Signature.Results()) {
									c.fail(id, name, "accessor delegates to "+g.Name(), p.Pos(x.Pos()), "the method "+fn.Object().Name()+" answers with "+g.Name()+"() of its field, although that field has a "+m.Name()+"() of the same result type: it returns something else than it is named for")
								}
							}
						}
					}
					if src, ok := source(x.Results[0], fn); ok {
						if _, isPrm := canon(x.Results[0]).(*ssa.Parameter); isPrm {
							return
						}
						if sib, bad := crossed(src, fn.Object().Name()); bad {
							c.fail(id, name, "accessor returns "+src.name, p.Pos(x.Pos()), "the method "+fn.Object().Name()+" returns the field "+src.name+", while the receiver has a field "+sib+" of the same type named like the method: it answers with the other value")
						} else if like(src.name, fn.Object().Name()) {
							c.pass(id, name, "accessor returns "+src.name, p.Pos(x.Pos()), "names agree")
						}
					}
				case ssa.CallInstruction:
					g := x.Common().StaticCallee()
					if g == nil || !p.InModule(g) || len(g.Params) < 2 {
						return
					}
					for i, a := range x.Common().Args {
						if i >= len(g.Params) {
							break
						}
						src, ok := source(a, fn)
						if !ok {
							continue
						}
						own := g.Params[i].Name()
						if like(src.name, own) {
							continue
						}
						for j, pj := range g.Params {
							if j != i && types.Identical(pj.Type(), g.Params[i].Type()) && like(src.name, pj.Name()) {
								c.fail(id, name, fmt.Sprintf("argument %d of %s is %s", i, g.Name(), src.name), p.Pos(x.Pos()), src.name+" is handed over as parameter "+own+" of "+g.Name()+", which also has a parameter "+pj.Name()+" of the same type: the arguments are crossed over")
							}
						}
					}
				}
			})
		}
	}
}

// C10.chain — the bundle walk's values are used in their own roles.
func ruleBundleWalkChain(id string) func(*Checker) {
	return func(c *Checker) {
		c.rule(id, "In the bundle preparation walk: (1) the entry's name is the walked path relative to the factory's root parameter, and the root entry itself (\".\") returns before any rule is consulted; (2) a rule verdict is used only past the nil edge of its error; (3) the verdict for the directory form (the name plus separator) is what decides the recursive removal — on its Dominating edge — and takes part in the empty-directory removal; (4) a link's target is joined onto filepath.Dir of the entry's name; (5) the resolved-path containment compares EvalSymlinks(Abs(root)) with EvalSymlinks of that root joined with the name, and (6) the type test is an Lstat of that same resolved path. Every one of these has a same-typed neighbour (root / absRoot / absPath / reAbsPath / realPath; ignored / subtree) that compiles in its place.", 8)
		p := c.P
		var w, g *ssa.Function
		for _, fn := range p.Funcs {
			if !inBundlePkg(p, fn) || fn.Parent() == nil || len(fn.Params) != 3 {
				continue
			}
			if len(callsTo(fn, func(o *types.Func) bool { return o != nil && o.Name() == "Excludes" })) > 0 && len(callsTo(fn, func(o *types.Func) bool { return isFunc(o, "path/filepath", "Rel") })) > 0 {
				w, g = fn, fn.Parent()
			}
		}
		if w == nil {
			c.anchorMissing(id, "the bundle preparation walk callback")
			return
		}
		name := p.FuncName(w)
		pathPrm := w.Params[0]
		rootIdx := -1
		for i, prm := range g.Params {
			if isStringType(prm.Type()) {
				rootIdx = i
			}
		}
		// (1)
		var rel1 *ssa.Call
		for _, ci := range callsTo(w, func(o *types.Func) bool { return isFunc(o, "path/filepath", "Rel") }) {
			if cl, ok := ci.(*ssa.Call); ok && canon(cl.Call.Args[1]) == ssa.Value(pathPrm) {
				rel1 = cl
			}
		}
		if rel1 == nil {
			c.fail(id, name, "entry name", p.Pos(w.Pos()), "the walked path is never made relative")
			return
		}
		c.check(capturedParamOf(rel1.Call.Args[0], g) == rootIdx, id, name, "entry name relative to the package root", p.Pos(rel1.Pos()), "filepath.Rel(root, path)", "the walked path is made relative to something other than the factory's root")
		relPath := extractOf(rel1, 0)
		_, notDot := condEdges(w, func(v ssa.Value) bool {
			bo, ok := v.(*ssa.BinOp)
			if !ok || bo.Op != token.EQL {
				return false
			}
			k, isC := constString(bo.Y)
			return isC && k == "." && canon(bo.X) == relPath
		})
		neDot, _ := condEdges(w, func(v ssa.Value) bool {
			bo, ok := v.(*ssa.BinOp)
			if !ok || bo.Op != token.NEQ {
				return false
			}
			k, isC := constString(bo.Y)
			return isC && k == "." && canon(bo.X) == relPath
		})
		notDot = append(notDot, neDot...)
		var exCalls []*ssa.Call
		for _, ci := range callsTo(w, func(o *types.Func) bool { return o != nil && o.Name() == "Excludes" }) {
			if cl, ok := ci.(*ssa.Call); ok {
				exCalls = append(exCalls, cl)
			}
		}
		for i, cl := range exCalls {
			c.check(len(notDot) > 0 && guarded(cl.Block(), notDot), id, name, fmt.Sprintf("rules consulted %d only for entries below the root", i), p.Pos(cl.Pos()), "past the name-is-not-\".\" edge", "the package root itself (name \".\") is matched against the ignore rules: a rule such as */ or * then removes the whole package directory and the build fails")
			// (2) verdict used past the nil-error edge
			okE, _ := okEdgesOfCall(cl)
			if v := extractOf(cl, 0); v != nil && v.Referrers() != nil {
				early := false
				var uses []ssa.Instruction
				for _, r := range *v.Referrers() {
					switch x := r.(type) {
					case *ssa.DebugRef:
					case *ssa.Store:
						// kept in a local: the reads of that local are the uses
						if al, ok := x.Addr.(*ssa.Alloc); ok && al.Referrers() != nil {
							for _, r2 := range *al.Referrers() {
								if fa, ok := r2.(*ssa.FieldAddr); ok {
									uses = append(uses, fa)
								}
								if ld, ok := r2.(*ssa.UnOp); ok {
									uses = append(uses, ld)
								}
							}
						} else {
							uses = append(uses, r)
						}
					default:
						uses = append(uses, r)
					}
				}
				for _, r := range uses {
					if len(okE) == 0 || !guarded(r.Block(), okE) {
						early = true
					}
				}
				c.check(!early, id, name, fmt.Sprintf("verdict %d used only past its error check", i), p.Pos(cl.Pos()), "every use of the verdict lies past err == nil", "a rule verdict is used before its error was looked at: an invalid rule's error is dropped on the path that acts on the (zero) verdict first, and the build goes on with rules it could not evaluate")
			}
		}
		// (3) the directory form
		var subtree *ssa.Call
		for _, cl := range exCalls {
			for _, a := range cl.Call.Args {
				if bo, ok := canon(a).(*ssa.BinOp); ok && bo.Op == token.ADD {
					subtree = cl
				}
			}
		}
		if subtree == nil {
			c.fail(id, name, "directory form consulted", p.Pos(w.Pos()), "the rules are never asked about the directory form (name + separator)")
		} else {
			sv := extractOf(subtree, 0)
			var svCell ssa.Value
			if sv != nil && sv.Referrers() != nil {
				for _, r := range *sv.Referrers() {
					if st, ok := r.(*ssa.Store); ok {
						svCell = st.Addr
					}
				}
			}
			fieldOfVerdict := func(v ssa.Value, verdict ssa.Value, fname string) bool {
				if f, ok := v.(*ssa.Field); ok {
					return f.X == verdict && fieldOf(f) != nil && fieldOf(f).Name() == fname
				}
				if ld, ok := v.(*ssa.UnOp); ok && ld.Op == token.MUL {
					if fa, ok := ld.X.(*ssa.FieldAddr); ok && svCell != nil && fa.X == svCell {
						return fieldOf(fa) != nil && fieldOf(fa).Name() == fname
					}
				}
				return false
			}
			domT, _ := condEdges(w, func(v ssa.Value) bool { return fieldOfVerdict(v, sv, "Dominating") })
			rec := false
			for _, ci := range removeAllCalls(p, w) {
				if len(domT) > 0 && guarded(ci.Block(), domT) {
					rec = true
				}
			}
			c.check(rec, id, name, "dominating directory match removes the subtree", p.Pos(subtree.Pos()), "os.RemoveAll past the Dominating edge of the directory-form verdict", "no recursive removal sits on the Dominating edge of the directory-form verdict (the block is gone, moved behind the empty-directory case, or tests the other verdict): excluded trees such as .git stay in the bundle as directory skeletons")
			// the empty-directory removal can be reached on the directory form's Excluded alone
			usesSub := false
			for _, ci := range callsTo(w, func(o *types.Func) bool { return isFunc(o, "os", "Remove") }) {
				for _, b := range w.Blocks {
					ifi, ok := b.Instrs[len(b.Instrs)-1].(*ssa.If)
					if !ok {
						continue
					}
					cnd, _ := stripNot(ifi.Cond)
					mentions := fieldOfVerdict(cnd, sv, "Excluded")
					if ph, isPhi := cnd.(*ssa.Phi); isPhi {
						rs, _ := flagReasons(ph, map[ssa.Value]bool{})
						for _, r := range rs {
							if fieldOfVerdict(r.Cond, sv, "Excluded") {
								mentions = true
							}
						}
					}
					if mentions && (b.Succs[0] == ci.Block() || reachFromEdge(Edge{b, 0})[ci.Block()]) {
						usesSub = true
					}
				}
			}
			// ... and is not decided by the plain-name verdict alone
			for _, cl := range exCalls {
				if cl == subtree {
					continue
				}
				iv := extractOf(cl, 0)
				var ivCell ssa.Value
				if iv != nil && iv.Referrers() != nil {
					for _, r := range *iv.Referrers() {
						if st, ok := r.(*ssa.Store); ok {
							ivCell = st.Addr
						}
					}
				}
				isIE := func(v ssa.Value) bool {
					if ld, ok := v.(*ssa.UnOp); ok && ld.Op == token.MUL {
						if fa, ok := ld.X.(*ssa.FieldAddr); ok && ivCell != nil && fa.X == ivCell {
							return fieldOf(fa) != nil && fieldOf(fa).Name() == "Excluded"
						}
					}
					if f, ok := v.(*ssa.Field); ok && f.X == iv {
						return fieldOf(f) != nil && fieldOf(f).Name() == "Excluded"
					}
					return false
				}
				ieT, _ := condEdges(w, isIE)
				for _, ci := range callsTo(w, func(o *types.Func) bool { return isFunc(o, "os", "Remove") }) {
					if len(ieT) > 0 && guarded(ci.Block(), ieT) {
						usesSub = false
					}
				}
			}
			// the recursive removal is not behind the empty-directory case
			exF := func() []Edge {
				_, f := condEdges(w, func(v ssa.Value) bool { return fieldOfVerdict(v, sv, "Excluded") })
				return f
			}()
			for _, ci := range removeAllCalls(p, w) {
				if len(domT) > 0 && guarded(ci.Block(), domT) && len(exF) > 0 {
					behind := false
					for _, e := range exF {
						if guarded(ci.Block(), []Edge{e}) {
							behind = true
						}
					}
					c.check(!behind, id, name, "recursive removal decided before the empty-directory case", p.Pos(ci.Pos()), "not behind an Excluded-is-false edge of the same verdict", "the recursive removal can only be reached when the directory form is NOT excluded (it was moved behind the empty-directory case, which returns for every excluded directory): a dominating match no longer removes the subtree")
				}
			}
			c.check(usesSub, id, name, "directory-form verdict takes part in the empty-directory removal", p.Pos(subtree.Pos()), "os.Remove reachable on the directory form's Excluded", "the removal of an excluded, empty directory does not depend on the directory-form verdict: a directory excluded only in its name/ form (logs/, .terraform/) is left in the package")
		}
		// (4)
		for _, ci := range callsTo(w, func(o *types.Func) bool { return isFunc(o, "path/filepath", "Dir") }) {
			usedInJoin := false
			if refs := ci.Value().Referrers(); refs != nil {
				for _, r := range *refs {
					if st, ok := r.(*ssa.Store); ok {
						if _, ok := st.Addr.(*ssa.IndexAddr); ok {
							usedInJoin = true
						}
					}
				}
			}
			if !usedInJoin {
				continue
			}
			c.check(canon(ci.Common().Args[0]) == relPath, id, name, "link target joined onto the directory of the entry's name", p.Pos(ci.Pos()), "filepath.Dir(name relative to the root)", "the link's target is joined onto the directory of something other than the entry's name (the root, the absolute path, the target itself): every '..' then counts from the wrong place — escaping links pass, or sub/link -> ../file is refused")
		}
		// (5), (6) — in the callback itself or in the one helper it hands (root, name) to
		hw := w
		isRootV := func(v ssa.Value) bool { return capturedParamOf(v, g) == rootIdx }
		isRelV := func(v ssa.Value) bool { return canon(v) == relPath }
		if len(callsTo(w, func(o *types.Func) bool { return isFunc(o, "path/filepath", "IsLocal") })) == 0 {
			for _, ci := range callsIn(w) {
				h := ci.Common().StaticCallee()
				if h == nil || !p.InModule(h) || len(callsTo(h, func(o *types.Func) bool { return isFunc(o, "path/filepath", "IsLocal") })) == 0 {
					continue
				}
				ri, ni := -1, -1
				for i, a := range ci.Common().Args {
					if isRootV(a) {
						ri = i
					}
					if isRelV(a) {
						ni = i
					}
				}
				if ri >= 0 && ni >= 0 && ri < len(h.Params) && ni < len(h.Params) {
					hw = h
					rp, np := h.Params[ri], h.Params[ni]
					isRootV = func(v ssa.Value) bool { return canon(v) == ssa.Value(rp) }
					isRelV = func(v ssa.Value) bool { return canon(v) == ssa.Value(np) }
				}
			}
		}
		hname := p.FuncName(hw)
		_ = hname
		var absRoot, realPath ssa.Value
		for _, ci := range callsTo(hw, func(o *types.Func) bool { return isFunc(o, "path/filepath", "EvalSymlinks") }) {
			cl, ok := ci.(*ssa.Call)
			if !ok {
				continue
			}
			bs := p.backSlice(cl.Call.Args[0], 0)
			viaAbs := false
			for x := range bs {
				if ac, ok := x.(*ssa.Call); ok && isFunc(calleeObj(ac), "path/filepath", "Abs") && isRootV(ac.Call.Args[0]) {
					viaAbs = true
				}
			}
			if jc := callOf(canon(cl.Call.Args[0])); jc != nil && isFunc(calleeObj(jc), "path/filepath", "Join") {
				realPath = extractOf(cl, 0)
				ja := joinArgs(jc)
				okJ := len(ja) == 2 && isRelV(ja[1]) && absRoot != nil && (canon(ja[0]) == absRoot || p.backSlice(ja[0], 0)[absRoot])
				c.check(okJ, id, name, "resolved path = resolved root joined with the name", p.Pos(cl.Pos()), "EvalSymlinks(Join(resolved root, name))", "the path that is resolved is not the resolved root joined with the entry's name")
			} else if viaAbs {
				absRoot = extractOf(cl, 0)
			}
		}
		for _, ci := range callsTo(hw, func(o *types.Func) bool { return isFunc(o, "path/filepath", "Rel") }) {
			cl, ok := ci.(*ssa.Call)
			if !ok || cl == rel1 {
				continue
			}
			c.check(absRoot != nil && realPath != nil && canon(cl.Call.Args[0]) == absRoot && canon(cl.Call.Args[1]) == realPath, id, name, "containment compares the resolved root with the resolved path", p.Pos(cl.Pos()), "filepath.Rel(EvalSymlinks(Abs(root)), EvalSymlinks(Join(…)))", "the resolved-path containment is computed between the wrong pair of paths (the unresolved root, the unresolved path, or the path with itself): in-package links are refused, or — with a target directory reached through a link — everything is")
		}
		for _, ci := range callsTo(hw, func(o *types.Func) bool { return isFunc(o, "os", "Lstat") || isFunc(o, "os", "Stat") }) {
			c.check(realPath != nil && canon(ci.Common().Args[0]) == realPath, id, name, "type test on the resolved path", p.Pos(ci.Pos()), "os.Lstat(resolved path)", "the regular-file-or-directory test looks at another path than the one the entry resolves to (the root: always a directory; the unresolved path: always a link): special files are let through, or every link is refused")
		}
	}
}

// C08.dirname — what the package-ensuring function hands back is the name it
// recorded.
func ruleC08DirName(c *Checker) {
	const R = "C08.dirname"
	c.rule(R, "Every success return of the function that fetches a package returns, as the package's directory, either the value it found in Builder.remotePackageDirs for that package or the very value it stored there on the way: the caller opens targetDir/<that> for the dependency finder, and any other same-typed string at hand (the temporary directory, the hash with its prefix, the absolute final path, an empty variable) makes the finder see nothing — dependencies of a second address with the same content are then never discovered.", 2)
	p := c.P
	fn, _ := ensureFunc(p)
	if fn == nil {
		c.anchorMissing(R, "the package-ensuring function")
		return
	}
	name := p.FuncName(fn)
	var stored []ssa.Value
	var found []ssa.Value
	eachInstr(fn, func(in ssa.Instruction) {
		switch x := in.(type) {
		case *ssa.MapUpdate:
			if builderMapOf(x.Map) == "remotePackageDirs" {
				stored = append(stored, canon(x.Value))
			}
		case *ssa.Lookup:
			if builderMapOf(x.X) == "remotePackageDirs" && x.CommaOk {
				if refs := x.Referrers(); refs != nil {
					for _, r := range *refs {
						if ex, ok := r.(*ssa.Extract); ok && ex.Index == 0 {
							found = append(found, ex)
						}
					}
				}
			}
		}
	})
	n := 0
	for i, r := range successReturns(fn) {
		for _, v := range returnValues(r, 0) {
			if v == nil {
				continue
			}
			n++
			ok := false
			for _, s2 := range stored {
				if canon(v) == s2 || sameLoc(v, s2) {
					ok = true
				}
			}
			for _, s2 := range found {
				if canon(v) != s2 {
					continue
				}
				// the looked-up value counts on the found edge only
				if ex, isEx := s2.(*ssa.Extract); isEx {
					if okv := extractOf2(ex.Tuple, 1); okv != nil {
						tE, _ := boolEdges(fn, okv)
						if len(tE) > 0 && guarded(r.Block(), tE) {
							ok = true
						}
					}
				}
			}
			c.check(ok, R, name, fmt.Sprintf("success return %d hands back the recorded directory", i), p.Pos(r.Pos()), "the value stored in (or found in) remotePackageDirs", "a success return hands back a string other than the directory name recorded for the package: the caller builds the finder's file system from it, sees an empty or wrong directory, and the package's dependencies are never discovered")
		}
	}
	c.check(n > 0, R, name, "success returns", p.Pos(fn.Pos()), fmt.Sprintf("%d", n), "the function has no success return")
}

// C08.complete — a record is complete when it is copied into the list.
func ruleRecordComplete(id string) func(*Checker) {
	return func(c *Checker) {
		c.rule(id, "In the manifest writer, a local struct that is appended to a list (append copies it) has all its field writes before the append on every path: a field set after the copy was taken is set on the local only and never reaches the manifest.", 1)
		p := c.P
		for _, fn := range p.Funcs {
			if !inBundlePkg(p, fn) {
				continue
			}
			eachInstr(fn, func(in ssa.Instruction) {
				cl, ok := in.(*ssa.Call)
				if !ok {
					return
				}
				bi, ok := cl.Call.Value.(*ssa.Builtin)
				if !ok || bi.Name() != "append" || len(cl.Call.Args) != 2 {
					return
				}
				sl, ok := cl.Call.Args[1].(*ssa.Slice)
				if !ok {
					return
				}
				arr, ok := sl.X.(*ssa.Alloc)
				if !ok {
					return
				}
				for _, w := range elemWrites(arr) {
					ld, ok := w.Val.(*ssa.UnOp)
					if !ok || ld.Op != token.MUL {
						continue
					}
					loc, ok := ld.X.(*ssa.Alloc)
					if !ok {
						continue
					}
					if _, isStruct := derefType(loc.Type()).Underlying().(*types.Struct); !isStruct {
						continue
					}
					late := token.NoPos
					after := reachFromBlock(ld.Block())
					var fieldStores []*ssa.Store
					eachInstr(fn, func(x ssa.Instruction) {
						st, ok := x.(*ssa.Store)
						if !ok {
							return
						}
						a := st.Addr
						depth := 0
						for {
							fa, ok := a.(*ssa.FieldAddr)
							if !ok {
								break
							}
							a = fa.X
							depth++
						}
						if depth > 0 && a == ssa.Value(loc) {
							fieldStores = append(fieldStores, st)
						}
					})
					forEach := func(f func(*ssa.Store)) {
						for _, st := range fieldStores {
							f(st)
						}
					}
					forEach(func(st *ssa.Store) {
						if st.Block() == ld.Block() {
							// same block: later in the block?
							seenLoad := false
							for _, x := range ld.Block().Instrs {
								if x == ssa.Instruction(ld) {
									seenLoad = true
								}
								if x == ssa.Instruction(st) && seenLoad {
									late = st.Pos()
								}
							}
							return
						}
						// a different block reachable from the copy without passing the local's re-initialisation
						// (the loop head re-zeroes it): only blocks dominated by the copy's block count
						if after[st.Block()] && blockDominates(ld.Block(), st.Block()) {
							late = st.Pos()
						}
					})
					c.check(late == token.NoPos, id, p.FuncName(fn), "record "+loc.Comment+" complete when appended", p.Pos(cl.Pos()), "every field write precedes the append", "a field of the record is written at "+p.Pos(late)+", after the record was copied into the list: the value never reaches the list (the manifest entry lacks the fetcher's metadata)")
				}
			})
		}
	}
}

// extractOf2: the Extract of the given index of a tuple value, if any.
func extractOf2(tuple ssa.Value, idx int) ssa.Value {
	if tuple.Referrers() == nil {
		return nil
	}
	for _, r := range *tuple.Referrers() {
		if ex, ok := r.(*ssa.Extract); ok && ex.Index == idx {
			return ex
		}
	}
	return nil
}

// removeAllCalls: the calls in fn that remove a tree — os.RemoveAll itself, or a
// module helper that calls it.
func removeAllCalls(p *Prog, fn *ssa.Function) []ssa.CallInstruction {
	var out []ssa.CallInstruction
	for _, ci := range callsIn(fn) {
		if isFunc(calleeObj(ci), "os", "RemoveAll") {
			out = append(out, ci)
			continue
		}
		if h := ci.Common().StaticCallee(); h != nil && p.InModule(h) && h != fn {
			if len(callsTo(h, func(o *types.Func) bool { return isFunc(o, "os", "RemoveAll") })) > 0 {
				out = append(out, ci)
			}
		}
	}
	return out
}

// loadedFieldOwner: like loadedField, with the struct type the field belongs to.
func loadedFieldOwner(v ssa.Value) (*types.Var, string) {
	own := func(t types.Type) string {
		if pt, ok := t.Underlying().(*types.Pointer); ok {
			t = pt.Elem()
		}
		return types.TypeString(t, nil)
	}
	switch x := canon(v).(type) {
	case *ssa.UnOp:
		if fa, ok := x.X.(*ssa.FieldAddr); ok && x.Op == token.MUL {
			return fieldOf(fa), own(fa.X.Type())
		}
	case *ssa.Field:
		return fieldOf(x), own(x.X.Type())
	}
	return nil, ""
}

// ruleGuardOwnField — a metadata field that is copied under a "not empty" test
// is copied under a test of ITSELF, and a metadata record is only made where
// one of its fields is present.
// condEdgesNilTest: the edges on which v (compared with nil somewhere in fn)
// is known not to be nil, and those on which it is nil.
func condEdgesNilTest(fn *ssa.Function, v ssa.Value) (notNil, isNil []Edge) {
	for _, b := range fn.Blocks {
		ifi, ok := b.Instrs[len(b.Instrs)-1].(*ssa.If)
		if !ok {
			continue
		}
		cond, neg := stripNot(ifi.Cond)
		bo, ok := cond.(*ssa.BinOp)
		if !ok || (bo.Op != token.EQL && bo.Op != token.NEQ) {
			continue
		}
		var other ssa.Value
		switch {
		case isNilConst(bo.Y):
			other = bo.X
		case isNilConst(bo.X):
			other = bo.Y
		default:
			continue
		}
		if canon(other) != canon(v) {
			continue
		}
		nn := 1
		if (bo.Op == token.NEQ) != neg {
			nn = 0
		}
		notNil = append(notNil, Edge{b, nn})
		isNil = append(isNil, Edge{b, 1 - nn})
	}
	return
}

func ruleGuardOwnField(id string) func(*Checker) {
	return func(c *Checker) {
		c.rule(id, "In the manifest writer and reader, (a) a string field that is stored, recorded or handed to a module function in a block that lies behind `field != \"\"` tests of fields of the same struct lies behind the not-empty edge of a test of that very field — `if m.message != \"\" { out.id = m.id }` drops a commit id whenever there is no message, and a reader that asks only for one field of two loses the other one alone (F49); (b) a *PackageMeta built from manifest fields is put into the bundle's table only behind the not-empty tests of exactly those fields (RemotePackageMeta answers nil where nothing is known).", 3)
		p := c.P
		type test struct {
			fld   *types.Var
			owner string
			e     Edge
		}
		for _, fn := range p.Funcs {
			if !inBundlePkg(p, fn) {
				continue
			}
			var tests []test
			for _, b := range fn.Blocks {
				ifi, ok := b.Instrs[len(b.Instrs)-1].(*ssa.If)
				if !ok {
					continue
				}
				cond, neg := stripNot(ifi.Cond)
				bo, ok := cond.(*ssa.BinOp)
				if !ok || (bo.Op != token.EQL && bo.Op != token.NEQ) {
					continue
				}
				e, isC := constString(bo.Y)
				if !isC {
					continue
				}
				fld, owner := loadedFieldOwner(bo.X)
				if fld == nil || !(strings.Contains(owner, "Meta") || strings.Contains(owner, "GitCommit")) {
					continue
				}
				if e != "" {
					c.fail(id, p.FuncName(fn), "field "+fld.Name()+" compared with the empty string", p.Pos(ifi.Cond.Pos()), "the metadata field "+fld.Name()+" is compared with "+strconv.Quote(e)+": the presence test of a metadata field is a comparison with the empty string; any other literal drops (or keeps) exactly the values equal to it")
					continue
				}
				ne := 1
				if (bo.Op == token.NEQ) != neg {
					ne = 0
				}
				tests = append(tests, test{fld, owner, Edge{b, ne}})
			}
			for _, b2 := range fn.Blocks {
				for _, in := range b2.Instrs {
					var vals []ssa.Value
					isRecord := false
					switch x := in.(type) {
					case *ssa.Store:
						vals = []ssa.Value{x.Val}
					case *ssa.MapUpdate:
						vals = []ssa.Value{x.Value}
						if call, ok := canon(x.Value).(*ssa.Call); ok && strings.HasSuffix(types.TypeString(x.Value.Type(), nil), "PackageMeta") {
							if g := call.Common().StaticCallee(); g != nil && p.InModule(g) {
								vals = call.Call.Args
								isRecord = true
							}
						}
					case *ssa.Call:
						if g := x.Common().StaticCallee(); g != nil && p.InModule(g) {
							vals = x.Call.Args
						}
					}
					var recEdges []Edge
					var recEdgeField []string
					recFields := []string{}
					for _, v := range vals {
						fld, owner := loadedFieldOwner(v)
						if fld == nil {
							continue
						}
						var own, all []Edge
						for _, t := range tests {
							if t.owner != owner {
								continue
							}
							all = append(all, t.e)
							if t.fld == fld {
								own = append(own, t.e)
							}
						}
						if isRecord {
							recEdges = append(recEdges, own...)
							recFields = append(recFields, fld.Name())
							for range own {
								recEdgeField = append(recEdgeField, fld.Name())
							}
						}
						if len(all) == 0 || !guarded(b2, all) {
							continue
						}
						ok := false
						for _, e := range own {
							if blockDominates(e.To(), b2) {
								ok = true
							}
						}
						c.check(ok, id, p.FuncName(fn), fmt.Sprintf("field %s copied behind its own not-empty test", fld.Name()), p.Pos(in.Pos()), "a not-empty test of the field leads to the copy", "the copy of "+fld.Name()+" lies behind not-empty tests of other fields of "+owner+" only: the field is lost whenever those are empty, and copied empty when they are not")
					}
					if isRecord {
						// … and wherever one of them is present: the not-empty edge of each leads to the record
						// (leaving the record out where the value to record is nil loses nothing)
						var nilSide []Edge
						if mu, ok := in.(*ssa.MapUpdate); ok {
							_, nilSide = condEdgesNilTest(fn, mu.Value)
						}
						for ei, e := range recEdges {
							rec := in
							first := e.To().Instrs[0]
							okp := first == rec
							if _, isRet := first.(*ssa.Return); !okp && !isRet {
								okp, _ = mustPass(first, func(x ssa.Instruction) bool { return x == rec }, nilSide)
							}
							c.check(okp, id, p.FuncName(fn), fmt.Sprintf("metadata recorded wherever %s is present", recEdgeField[ei]), p.Pos(in.Pos()), "the not-empty edge of the field's test always reaches the record", "a *PackageMeta is put into the table only when several of its fields are present at once (`id != \"\" && message != \"\"`): metadata with one of them alone is dropped when the bundle is opened")
						}
						c.check(len(recEdges) > 0 && guarded(b2, recEdges), id, p.FuncName(fn), "metadata recorded only where a field is present", p.Pos(in.Pos()), "behind the not-empty tests of "+strings.Join(recFields, ", "), "a *PackageMeta is put into the table on a path that passes no not-empty test of the fields it is made of ("+strings.Join(recFields, ", ")+"): every package then has metadata, all of it empty")
					}
				}
			}
		}
	}
}

// samePureValue: a and b are the same SSA value, loads of the same location, or results of the same pure path /
// string function applied to such arguments (filepath.ToSlash(x.f) computed once for the test and once for the use).
func samePureValue(a, b ssa.Value, depth int) bool {
	if canon(a) == canon(b) || sameLoc(a, b) {
		return true
	}
	if depth > 3 {
		return false
	}
	ca, okA := canon(a).(*ssa.Call)
	cb, okB := canon(b).(*ssa.Call)
	if !okA || !okB || calleeObj(ca) == nil || calleeObj(ca) != calleeObj(cb) {
		return false
	}
	switch fullName(calleeObj(ca)) {
	case "path/filepath.ToSlash", "path/filepath.FromSlash", "path/filepath.Clean", "path.Clean", "strings.TrimSpace", "strings.ToLower":
	default:
		return false
	}
	if len(ca.Call.Args) != len(cb.Call.Args) {
		return false
	}
	for i := range ca.Call.Args {
		if !samePureValue(ca.Call.Args[i], cb.Call.Args[i], depth+1) {
			return false
		}
	}
	return true
}
