package main

import (
	"fmt"
	"go/token"
	"go/types"
	"sort"
	"strings"

	"golang.org/x/tools/go/ssa"
)

func init() {
	register("C16", &propDef{
		Title: "Pack output depends only on the tree and the options",
		Rules: []func(*Checker){ruleC16Globals, ruleGlobalAddrNotShared("C16.globaladdr"), rulePackerWriters("C16.packer"), ruleC16ProcState, ruleC16Readlink, ruleC16Nondet, ruleC16CleanRoot, ruleRootLink("C16.rootlink"), ruleC16Spelled, ruleWalkingListResolved("C16.walkinglist"), ruleSourceAsGivenOnlyFollowed("C16.asgiven"),
			aliasRuleFiltered(ruleC04Accept2("C02.links"), "C02.links", "C16.spelledalike", 1, func(o Oblig) bool { return strings.Contains(o.Key, "spelled alike") }),
			// a directory copied in for a link is walked under the name its entries are made relative to: walked under
			// another spelling of it (resolved, cleaned) the entries' names depend on how the path to it is spelled
			aliasRuleFiltered(ruleNestedWalk("C05.nested"), "C05.nested", "C16.nested", 1, func(o Oblig) bool { return strings.Contains(o.Key, "walk base is the walked directory") })},
		NotDecided: []string{
			"equality of outputs across spellings of the source path (dot segments, trailing slash) — path algebra of filepath.Abs/Rel",
			"the order in which filepath.Walk visits entries (library: lexical)",
		},
	})
}

// aliasRoots: the storage objects a reference-like value (slice, map,
// pointer) may point into. Only append's first argument aliases its result.
type aliasRoot struct {
	Kind string // global fresh param unknown
	V    ssa.Value
}

func (p *Prog) aliasRoots(v ssa.Value, depth int, seen map[ssa.Value]bool, out *[]aliasRoot) {
	if v == nil || seen[v] {
		return
	}
	seen[v] = true
	switch x := v.(type) {
	case *ssa.Global:
		*out = append(*out, aliasRoot{"global", x})
	case *ssa.Const:
	case *ssa.Alloc:
		*out = append(*out, aliasRoot{"fresh", x})
	case *ssa.MakeSlice, *ssa.MakeMap, *ssa.MakeChan:
		*out = append(*out, aliasRoot{"fresh", v})
	case *ssa.Phi:
		for _, e := range x.Edges {
			p.aliasRoots(e, depth, seen, out)
		}
	case *ssa.Slice:
		p.aliasRoots(x.X, depth, seen, out)
	case *ssa.IndexAddr:
		p.aliasRoots(x.X, depth, seen, out)
	case *ssa.FieldAddr:
		p.aliasRoots(x.X, depth, seen, out)
	case *ssa.ChangeType:
		p.aliasRoots(x.X, depth, seen, out)
	case *ssa.Convert:
		p.aliasRoots(x.X, depth, seen, out)
	case *ssa.UnOp:
		if x.Op != token.MUL {
			return
		}
		switch a := x.X.(type) {
		case *ssa.Global:
			// the reference stored in a package-level variable points into shared storage
			if isRefLike(x.Type()) {
				*out = append(*out, aliasRoot{"global", a})
			}
		case *ssa.Alloc, *ssa.FreeVar:
			root := rootCell(a)
			if al, ok := root.(*ssa.Alloc); ok {
				ws := cellWrites(al)
				if len(ws) == 0 {
					*out = append(*out, aliasRoot{"fresh", al})
				}
				for _, st := range ws {
					if isRefLike(st.Val.Type()) {
						p.aliasRoots(st.Val, depth, seen, out)
					} else {
						*out = append(*out, aliasRoot{"fresh", al})
					}
				}
			}
		case *ssa.FieldAddr, *ssa.IndexAddr:
			// a reference loaded from inside another object: same roots as that object
			p.aliasRoots(a, depth, seen, out)
			// ... and, for a local struct, whatever was stored into it (the struct value a call
			// returned carries the pointers the callee put there)
			if fa, ok := a.(*ssa.FieldAddr); ok && isRefLike(x.Type()) {
				if al, ok := rootCell(fa.X).(*ssa.Alloc); ok {
					for _, st := range cellWrites(al) {
						p.aliasRoots(st.Val, depth, seen, out)
					}
					for _, st := range fieldWrites(al, fa.Field) {
						p.aliasRoots(st.Val, depth, seen, out)
					}
				}
			}
		}
	case *ssa.Parameter:
		if depth > 0 {
			fn := x.Parent()
			idx := -1
			for i, q := range fn.Params {
				if q == x {
					idx = i
				}
			}
			sites := p.callersOf(fn)
			if len(sites) > 0 && idx >= 0 {
				for _, s := range sites {
					if idx < len(s.Common().Args) {
						p.aliasRoots(s.Common().Args[idx], depth-1, seen, out)
					}
				}
				return
			}
		}
		*out = append(*out, aliasRoot{"param", x})
	case *ssa.FreeVar:
		for _, b := range resolveFreeVar(x) {
			p.aliasRoots(b, depth, seen, out)
		}
	case *ssa.Extract:
		if cl, ok := x.Tuple.(*ssa.Call); ok {
			p.aliasCall(cl, x.Index, depth, seen, out)
		}
	case *ssa.Call:
		p.aliasCall(x, 0, depth, seen, out)
	default:
		*out = append(*out, aliasRoot{"unknown", v})
	}
}

func (p *Prog) aliasCall(cl *ssa.Call, idx, depth int, seen map[ssa.Value]bool, out *[]aliasRoot) {
	if b, ok := cl.Call.Value.(*ssa.Builtin); ok {
		if b.Name() == "append" {
			p.aliasRoots(cl.Call.Args[0], depth, seen, out)
			*out = append(*out, aliasRoot{"fresh", cl})
		}
		return
	}
	if cl.Call.IsInvoke() {
		// what an implementation of an interface hands out is its own storage
		*out = append(*out, aliasRoot{"foreign", cl})
		return
	}
	g := cl.Common().StaticCallee()
	if g != nil && p.InModule(g) && depth > 0 {
		for _, r := range returnsOf(g) {
			if idx < len(r.Results) {
				for _, v := range returnValues(r, idx) {
					p.aliasRoots(v, depth-1, seen, out)
				}
			}
		}
		return
	}
	*out = append(*out, aliasRoot{"fresh", cl}) // library results are not module globals
}

func isRefLike(t types.Type) bool {
	switch t.Underlying().(type) {
	case *types.Slice, *types.Map, *types.Pointer, *types.Chan:
		return true
	}
	return false
}

func isInitFunc(fn *ssa.Function) bool {
	for fn.Parent() != nil {
		fn = fn.Parent()
	}
	return fn.Name() == "init" || strings.HasPrefix(fn.Name(), "init#")
}

func packSideEntries(p *Prog) []*ssa.Function {
	var out []*ssa.Function
	for _, n := range [][2]string{{"slug", "Packer.Pack"}, {"slug", "Packer.Unpack"}, {"slug", "Pack"}, {"slug", "Unpack"}, {"slug", "NewPacker"},
		{"ignorefiles", "ParseIgnoreFileContent"}, {"ignorefiles", "LoadPackageIgnoreRules"}, {"ignorefiles", "Ruleset.Excludes"}, {"ignorefiles", "Ruleset.Includes"}} {
		if f := p.Fn(n[0], n[1]); f != nil {
			out = append(out, f)
		}
	}
	return out
}

func ruleC16Globals(c *Checker) {
	const R = "C16.globals"
	c.rule(R, "No store outside package initialisation writes into storage reachable from a package-level variable (the variable itself, the backing array / map / pointee of a reference loaded from it, or a sync / sync/atomic container kept in one, through its mutating methods) in any function reachable from Pack, Unpack or the ignore-file parser; append aliases only its first argument. Earlier calls therefore cannot change later ones.", 1)
	c.absence(R)
	p := c.P
	entries := packSideEntries(p)
	if len(entries) == 0 {
		c.anchorMissing(R, "Pack/Unpack/ignore parser entry points")
		return
	}
	nStores := 0
	for _, fn := range sortedFuncs(p.reach(entries...)) {
		if !p.InModule(fn) || isInitFunc(fn) {
			continue
		}
		eachInstr(fn, func(in ssa.Instruction) {
			var addr ssa.Value
			switch x := in.(type) {
			case *ssa.Store:
				addr = x.Addr
			case *ssa.MapUpdate:
				addr = x.Map
			case ssa.CallInstruction:
				// a mutating method of a sync / sync/atomic container kept in a package-level variable
				o := calleeObj(x)
				if o == nil || (objPkgPath(o) != "sync" && objPkgPath(o) != "sync/atomic") || len(x.Common().Args) == 0 {
					return
				}
				switch o.Name() {
				case "Lock", "Unlock", "RLock", "RUnlock", "TryLock", "TryRLock", "Load", "Range", "Wait":
					return
				}
				var roots []aliasRoot
				p.aliasRoots(x.Common().Args[0], 6, map[ssa.Value]bool{}, &roots)
				for _, r := range roots {
					if r.Kind == "global" {
						c.fail(R, p.FuncName(fn), "write into package state "+r.V.Name()+" through "+recvTypeName(o)+"."+o.Name(), p.Pos(in.Pos()), "a "+objPkgPath(o)+" container kept in package-level variable "+r.V.Name()+" is changed ("+o.Name()+"): what one call memoises, a later call — for another tree, another working directory, a rewritten file — reads back")
					}
				}
				return
			default:
				return
			}
			// plain local cells are not interesting
			if al, ok := addr.(*ssa.Alloc); ok && !al.Heap {
				return
			}
			nStores++
			var roots []aliasRoot
			p.aliasRoots(addr, 6, map[ssa.Value]bool{}, &roots)
			var globals []string
			for _, r := range roots {
				if r.Kind == "global" {
					globals = append(globals, r.V.Name())
				}
			}
			if len(globals) > 0 {
				sort.Strings(globals)
				c.fail(R, p.FuncName(fn), "write into package state "+strings.Join(uniq(globals), ","), p.Pos(in.Pos()), "a store reaches storage shared through package-level variable "+strings.Join(uniq(globals), ",")+": one call changes what later (or concurrent) calls see")
			}
		})
	}
	c.pass(R, "-", "stores inspected", "-", fmt.Sprintf("%d store(s) in Pack/Unpack/parser code resolved to their alias roots; none not reported reaches a package-level variable", nStores))
}

func ruleC16ProcState(c *Checker) {
	const R = "C16.procstate"
	c.rule(R, "Nothing reachable from Pack, Unpack or the ignore parser changes process-global state (os.Chdir, os.Setenv/Unsetenv/Clearenv, syscall.Umask, os.Exit …) or reads the environment / working directory other than through filepath.Abs.", 1)
	c.absence(R)
	p := c.P
	entries := packSideEntries(p)
	n := 0
	for _, fn := range sortedFuncs(p.reach(entries...)) {
		for _, ci := range callsIn(fn) {
			o := calleeObj(ci)
			cls, _ := classifyFS(o)
			n++
			if cls == "proc" {
				c.fail(R, p.FuncName(fn), "call "+shortCallee(fullName(o)), p.Pos(ci.Pos()), "process-global state is changed during Pack/Unpack: concurrent or later calls are affected")
			}
			if isFunc(o, "os", "Getenv") || isFunc(o, "os", "LookupEnv") || isFunc(o, "os", "Getwd") || isFunc(o, "os", "Environ") || isFunc(o, "time", "Now") || isFunc(o, "os", "Getpid") || isFunc(o, "os", "Hostname") {
				c.fail(R, p.FuncName(fn), "call "+shortCallee(fullName(o)), p.Pos(ci.Pos()), "the slug would depend on the environment / working directory / clock, not only on the tree and the options")
			}
		}
	}
	c.pass(R, "-", "calls inspected", "-", fmt.Sprintf("%d call(s) reachable from Pack/Unpack inspected against the process-state table", n))
}

// ruleC16Nondet: map iteration or randomness feeding the archive.
func ruleC16Nondet(c *Checker) {
	const R = "C16.order"
	c.rule(R, "No map iteration, goroutine or random source lies on the way from the tree walk to the archive writer: functions reachable from Pack contain no range over a map, no go statement and no call into math/rand or crypto/rand.", 1)
	p := c.P
	pack := p.Fn("slug", "Packer.Pack")
	if pack == nil {
		c.anchorMissing(R, "(*Packer).Pack")
		return
	}
	n := 0
	for _, fn := range sortedFuncs(p.reach(pack)) {
		eachInstr(fn, func(in ssa.Instruction) {
			n++
			switch x := in.(type) {
			case *ssa.Range:
				if _, ok := x.X.Type().Underlying().(*types.Map); ok {
					c.fail(R, p.FuncName(fn), "range over map", p.Pos(x.Pos()), "entry order or content may depend on map iteration order")
				}
			case *ssa.Go:
				c.fail(R, p.FuncName(fn), "go statement", p.Pos(x.Pos()), "concurrent writers make the entry order scheduler-dependent")
			case ssa.CallInstruction:
				if o := calleeObj(x); o != nil && (objPkgPath(o) == "math/rand" || objPkgPath(o) == "crypto/rand" || objPkgPath(o) == "math/rand/v2") {
					c.fail(R, p.FuncName(fn), "random source", p.Pos(x.Pos()), "randomness reaches the packer")
				}
			}
		})
	}
	c.pass(R, "-", "instructions inspected", "-", fmt.Sprintf("%d instruction(s) reachable from Pack inspected", n))
}

// ---------- C16.readlink ----------

// isAbsTrueEdges: edges on which filepath.IsAbs(v) is true.
func isAbsEdges(fn *ssa.Function, v ssa.Value) (t, f []Edge) {
	return condEdges(fn, func(c ssa.Value) bool {
		cl, ok := c.(*ssa.Call)
		return ok && isFunc(calleeObj(cl), "path/filepath", "IsAbs") && sameLoc(cl.Call.Args[0], v)
	})
}

// reachesFS: parameter idx of module function g flows (without being joined
// onto a directory) into a filesystem call or filepath.Abs.
func (p *Prog) paramReachesFS(g *ssa.Function, idx, depth int) bool {
	if g == nil || g.Blocks == nil || idx >= len(g.Params) || depth == 0 {
		return false
	}
	hit, _ := p.rawPathReaches(g, g.Params[idx], nil, depth)
	return hit
}

// rawPathReaches propagates a possibly-relative link target forward and
// reports whether it reaches a filesystem call / filepath.Abs unsanitised.
// linkArg is the path the target was read from (Dir(linkArg) sanitises).
func (p *Prog) rawPathReaches(fn *ssa.Function, start ssa.Value, linkArg ssa.Value, depth int) (bool, ssa.Instruction) {
	tainted := map[ssa.Value]bool{start: true}
	work := []ssa.Value{start}
	absT, _ := isAbsEdges(fn, start)
	for len(work) > 0 {
		v := work[len(work)-1]
		work = work[:len(work)-1]
		refs := v.Referrers()
		if refs == nil {
			continue
		}
		add := func(x ssa.Value) {
			if !tainted[x] {
				tainted[x] = true
				work = append(work, x)
			}
		}
		for _, r := range *refs {
			switch x := r.(type) {
			case *ssa.Phi:
				// only if the tainted operand can arrive without IsAbs having been true
				for i, e := range x.Edges {
					if e != v {
						continue
					}
					pred := x.Block().Preds[i]
					if len(absT) > 0 && (guarded(pred, absT) || edgeFromAbsTrue(pred, x.Block(), absT)) {
						continue
					}
					add(x)
				}
			case *ssa.Store:
				if x.Val != v {
					continue
				}
				if al, ok := x.Addr.(*ssa.Alloc); ok {
					for _, ld := range reachingLoads(x, al) {
						add(ld)
					}
				}
				if ia, ok := x.Addr.(*ssa.IndexAddr); ok {
					// element of a variadic slice: the slice is tainted
					if al, ok := ia.X.(*ssa.Alloc); ok {
						if rr := al.Referrers(); rr != nil {
							for _, q := range *rr {
								if sl, ok := q.(*ssa.Slice); ok {
									add(sl)
								}
							}
						}
					}
				}
			case ssa.CallInstruction:
				o := calleeObj(x)
				cls, _ := classifyFS(o)
				switch {
				case isFunc(o, "path/filepath", "Join"):
					// sanitised when another element is Dir(link path)
					san := false
					for _, a := range joinArgs(x) {
						if cl := callOf(canon(a)); cl != nil && isFunc(calleeObj(cl), "path/filepath", "Dir") {
							san = true
						}
					}
					if !san {
						if val, ok := x.(ssa.Value); ok {
							add(val)
						}
					}
				case isFunc(o, "path/filepath", "Clean") || isFunc(o, "path/filepath", "ToSlash") || isFunc(o, "path/filepath", "FromSlash"):
					if val, ok := x.(ssa.Value); ok {
						add(val)
					}
				case isFunc(o, "path/filepath", "Abs") || isFunc(o, "path/filepath", "EvalSymlinks") || isFunc(o, "path/filepath", "Walk") || cls == "sink" || cls == "readonly" && takesPath(o):
					if guardedByIsAbs(x, absT) {
						continue
					}
					return true, x
				default:
					if g := x.Common().StaticCallee(); g != nil && p.InModule(g) && depth > 0 {
						for i, a := range x.Common().Args {
							if a == v && p.paramReachesFS(g, i, depth-1) {
								if guardedByIsAbs(x, absT) {
									continue
								}
								return true, x
							}
						}
					}
				}
			case *ssa.Slice:
				add(x)
			}
		}
	}
	return false, nil
}

func takesPath(o *types.Func) bool {
	switch fullName(o) {
	case "os.Lstat", "os.Stat", "os.Open", "os.ReadFile", "os.ReadDir", "os.Readlink":
		return true
	}
	return false
}

func guardedByIsAbs(in ssa.Instruction, absT []Edge) bool {
	return len(absT) > 0 && guarded(in.Block(), absT)
}

func edgeFromAbsTrue(pred, to *ssa.BasicBlock, absT []Edge) bool {
	for _, e := range absT {
		if e.From == pred && e.To() == to {
			return true
		}
	}
	return false
}

// joinArgs: the elements of a variadic filepath.Join call.
func joinArgs(ci ssa.CallInstruction) []ssa.Value {
	args := ci.Common().Args
	if len(args) != 1 {
		return args
	}
	sl, ok := args[0].(*ssa.Slice)
	if !ok {
		return args
	}
	al, ok := sl.X.(*ssa.Alloc)
	if !ok {
		return args
	}
	var out []ssa.Value
	for _, st := range elemWrites(al) {
		out = append(out, st.Val)
	}
	return out
}

func ruleC16Readlink(c *Checker) {
	const R = "C16.readlink"
	c.rule(R, "A link target obtained from os.Readlink(p) that reaches a filesystem call or filepath.Abs must, when it is relative, first be joined onto filepath.Dir(p) (as the external-link resolver does); otherwise it is interpreted relative to the process working directory and Pack's output depends on where it is run from. Sibling contradiction rule over all Readlink sites reachable from Pack.", 2)
	p := c.P
	pack := p.Fn("slug", "Packer.Pack")
	if pack == nil {
		c.anchorMissing(R, "(*Packer).Pack")
		return
	}
	for _, fn := range sortedFuncs(p.reach(pack)) {
		for _, ci := range callsTo(fn, func(o *types.Func) bool { return isFunc(o, "os", "Readlink") }) {
			cl, ok := ci.(*ssa.Call)
			if !ok {
				continue
			}
			t := extractOf(cl, 0)
			if t == nil {
				continue
			}
			hit, at := p.rawPathReaches(fn, t, cl.Call.Args[0], 2)
			pos := p.Pos(cl.Pos())
			detail := "the target is resolved against the link's directory (or only used as text) before any filesystem use"
			if hit && at != nil {
				pos = p.Pos(at.Pos())
			}
			keyFn := p.FuncName(fn)
			if p.family(pack)[fn] {
				keyFn = p.FuncName(pack) // a private helper of Pack: the finding is Pack's
			}
			c.check(!hit, R, keyFn, "Readlink target", pos, detail, "a possibly-relative link target reaches a filesystem call / filepath.Abs without being joined onto the link's directory: it is resolved against the working directory")
		}
	}
}

// ruleC16CleanRoot: every spelling of the source directory is normalised.
func ruleC16CleanRoot(c *Checker) {
	const R = "C16.cleanroot"
	c.rule(R, "The source root Pack walks, hands to the walk callback and (through it) to the link validator is the result of filepath.Abs on every path (Abs also cleans), and the link validator compares against a root that is itself the result of filepath.Abs / Clean: otherwise equivalent spellings of one directory (dot segments, doubled slashes, trailing slash) give different slugs.", 2)
	p := c.P
	pack := p.Fn("slug", "Packer.Pack")
	if pack == nil {
		c.anchorMissing(R, "(*Packer).Pack")
		return
	}
	n := 0
	for _, ci := range callsIn(pack) {
		cl, ok := ci.(*ssa.Call)
		if !ok {
			continue
		}
		o := calleeObj(cl)
		if isFunc(o, "path/filepath", "Walk") || isFunc(o, "path/filepath", "WalkDir") {
			n++
			c.check(cleanedValue(cl.Call.Args[0], map[ssa.Value]bool{}), R, p.FuncName(pack), "walk root is absolute and clean", p.Pos(cl.Pos()), "filepath.Abs result on every path", "the walk root is not normalised on every path (filepath.Abs skipped for some spellings): entry names and link classification then depend on how the source path was spelled")
		}
		if g := cl.Common().StaticCallee(); g != nil && p.InModule(g) && len(g.AnonFuncs) > 0 {
			for i, a := range cl.Call.Args {
				if isStringType(a.Type()) {
					n++
					c.check(cleanedValue(a, map[ssa.Value]bool{}), R, p.FuncName(pack), fmt.Sprintf("walker root argument %d is absolute and clean", i), p.Pos(cl.Pos()), "filepath.Abs result on every path", "a root handed to the walk callback is not normalised on every path")
				}
			}
		}
	}
	c.check(n > 0, R, p.FuncName(pack), "walk present", p.Pos(pack.Pos()), "walk found", "Pack no longer walks the source tree")
}

// C16.rootlink / C12.rootlink — the walk never starts on a symlink.
func ruleRootLink(id string) func(*Checker) {
	return func(c *Checker) {
		c.rule(id, "filepath.Walk does not descend into a root that is a symbolic link: it visits the link and stops, and Pack then returns an empty slug with a nil error. So the path Pack starts the walk from is known not to be a link: the value handed to filepath.Walk is (filepath.Abs / Clean of) a value that was Lstat-ed in its cleaned spelling — with a trailing separator or \"/.\" Lstat reports on the link's target — and the call lies past the not-a-symlink edge of that Lstat, with no re-assignment (Readlink) in between.", 1)
		p := c.P
		pack := p.Fn("slug", "Packer.Pack")
		if pack == nil {
			c.anchorMissing(id, "(*slug.Packer).Pack")
			return
		}
		n := 0
		for _, ci := range callsTo(pack, func(o *types.Func) bool {
			return isFunc(o, "path/filepath", "Walk") || isFunc(o, "path/filepath", "WalkDir")
		}) {
			cl, ok := ci.(*ssa.Call)
			if !ok {
				continue
			}
			n++
			// strip Abs / Clean
			strip := func(v ssa.Value) ssa.Value {
				for i := 0; i < 6; i++ {
					v = canon(v)
					c2 := callOf(v)
					if c2 == nil {
						if ex, ok := v.(*ssa.Extract); ok {
							if c3, ok := ex.Tuple.(*ssa.Call); ok && ex.Index == 0 {
								c2 = c3
							}
						}
					}
					if c2 == nil || !(isFunc(calleeObj(c2), "path/filepath", "Abs") || isFunc(calleeObj(c2), "path/filepath", "Clean")) {
						return v
					}
					v = c2.Call.Args[0]
				}
				return v
			}
			var judge func(fn *ssa.Function, root ssa.Value, at *ssa.BasicBlock, depth int) (bool, string)
			judge = func(fn *ssa.Function, root ssa.Value, at *ssa.BasicBlock, depth int) (bool, string) {
				base := strip(root)
				// the path was prepared by a private helper: judged at the helper's successful returns
				if ex, ok := base.(*ssa.Extract); ok && depth < 2 {
					if hc, ok := ex.Tuple.(*ssa.Call); ok {
						if h := hc.Common().StaticCallee(); h != nil && p.InModule(h) && len(h.Blocks) > 0 && p.family(pack)[h] {
							okAll, whyH, n := true, "", 0
							for _, r := range returnsOf(h) {
								if !mayReturnNilErr(r) {
									continue
								}
								for _, rv := range returnValues(r, ex.Index) {
									if rv == nil {
										continue
									}
									n++
									if ok2, w := judge(h, rv, r.Block(), depth+1); !ok2 {
										okAll, whyH = false, w
									}
								}
							}
							if n > 0 {
								return okAll, whyH
							}
						}
					}
				}
				okLink := false
				why := "no os.Lstat of the walked path with a test for os.ModeSymlink guards the walk"
				for _, li := range callsTo(fn, func(o *types.Func) bool { return isFunc(o, "os", "Lstat") }) {
					ls := li.(*ssa.Call)
					arg := ls.Call.Args[0]
					if strip(arg) != base && canon(arg) != canon(root) && canon(arg) != base {
						continue
					}
					// cleaned spelling
					cleaned := false
					if c2 := callOf(canon(arg)); c2 != nil && (isFunc(calleeObj(c2), "path/filepath", "Clean") || isFunc(calleeObj(c2), "path/filepath", "Abs")) {
						cleaned = true
					}
					if ex, ok := canon(arg).(*ssa.Extract); ok {
						if c3, ok := ex.Tuple.(*ssa.Call); ok && isFunc(calleeObj(c3), "path/filepath", "Abs") {
							cleaned = true
						}
					}
					fi := extractOf(ls, 0)
					if fi == nil {
						continue
					}
					// the symlink test on that FileInfo, in any of its spellings
					_, notLink := symlinkEdges(fn, fi)
					if len(notLink) == 0 {
						continue
					}
					if !guarded(at, notLink) {
						why = "the walk can be reached without passing the not-a-symlink edge of the Lstat of its root (e.g. after following the link once, without looking at what it points to)"
						continue
					}
					if !cleaned {
						why = "the root is Lstat-ed as it was spelled by the caller: with a trailing separator or \"/.\" Lstat reports on the link's target, the link is not noticed, and filepath.Abs then cleans the spelling back to the link itself"
						continue
					}
					okLink = true
				}
				return okLink, why
			}
			okLink, why := judge(pack, cl.Call.Args[0], cl.Block(), 0)
			c.check(okLink, id, p.FuncName(pack), "walk root is not a symlink", p.Pos(cl.Pos()), "the walked path was Lstat-ed in cleaned form and is past the not-a-symlink edge", why+": filepath.Walk visits a symlink root without descending, so Pack returns an empty slug and a nil error")
		}
		c.check(n > 0, id, p.FuncName(pack), "walk call", p.Pos(pack.Pos()), fmt.Sprintf("%d", n), "Pack no longer walks the source directory with filepath.Walk")
	}
}

// C16.spelled — Pack examines its source argument as the caller spelled it.
func ruleC16Spelled(c *Checker) {
	const R = "C16.spelled"
	c.rule(R, "Before Pack cleans its source argument (filepath.Clean turns \"\" into \".\", dir/missing/.. into dir and dir/file/ into dir/file), it hands the argument as given to os.Lstat and returns that error: otherwise a source that does not exist as spelled is silently replaced by another directory — the working directory, a parent — or a file is packed as an empty slug.", 1)
	p := c.P
	pk := p.Fn("slug", "Packer.Pack")
	if pk == nil {
		c.anchorMissing(R, "(*Packer).Pack")
		return
	}
	var srcP *ssa.Parameter
	for _, prm := range pk.Params {
		if isStringType(prm.Type()) {
			srcP = prm
		}
	}
	if srcP == nil {
		return
	}
	var clean ssa.Instruction
	for _, ci := range callsTo(pk, func(o *types.Func) bool {
		return isFunc(o, "path/filepath", "Clean") || isFunc(o, "path/filepath", "Abs")
	}) {
		if clean == nil {
			clean = ci
		}
	}
	if clean == nil {
		c.pass(R, p.FuncName(pk), "source examined as spelled", p.Pos(pk.Pos()), "the source is never cleaned")
		return
	}
	okS := false
	for _, ci := range callsTo(pk, func(o *types.Func) bool { return isFunc(o, "os", "Lstat") || isFunc(o, "os", "Stat") }) {
		cl, ok := ci.(*ssa.Call)
		if !ok || canon(cl.Call.Args[0]) != ssa.Value(srcP) {
			continue
		}
		_, errE := okEdgesOfCall(cl)
		rej := false
		for _, e := range errE {
			if r, _ := returnsNonNilErrorFrom(e.To()); r {
				rej = true
			}
		}
		if rej && (dominates(cl, clean) || cl.Block() == clean.Block()) {
			okS = true
		}
	}
	c.check(okS, R, p.FuncName(pk), "source examined as spelled", p.Pos(clean.Pos()), "os.Lstat(src as given), error returned, before the first Clean", "the source argument is cleaned without having been examined as the caller spelled it: Pack(\"\") packs the working directory, Pack(\"dir/missing/..\") packs dir, Pack(\"dir/file/\") succeeds with an empty slug")
}
