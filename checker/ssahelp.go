package main

import (
	"go/constant"
	"go/token"
	"go/types"
	"sort"

	"golang.org/x/tools/go/ssa"
)

// ---------- callee identity (G1: never by name text alone) ----------

// calleeObj returns the called *types.Func: the static callee's object, or the
// interface method for invoke-mode calls. nil for calls of function values.
func calleeObj(c ssa.CallInstruction) *types.Func {
	cc := c.Common()
	if cc.IsInvoke() {
		return cc.Method
	}
	if f := cc.StaticCallee(); f != nil {
		if o, ok := f.Object().(*types.Func); ok {
			return o
		}
		// instantiated generic or wrapper
		if f.Origin() != nil {
			if o, ok := f.Origin().Object().(*types.Func); ok {
				return o
			}
		}
	}
	return nil
}

func objPkgPath(o *types.Func) string {
	if o == nil || o.Pkg() == nil {
		return ""
	}
	return o.Pkg().Path()
}

// recvTypeName returns the receiver's named type name ("" for functions).
func recvTypeName(o *types.Func) string {
	if o == nil {
		return ""
	}
	sig, _ := o.Type().(*types.Signature)
	if sig == nil || sig.Recv() == nil {
		return ""
	}
	t := sig.Recv().Type()
	if pt, ok := t.(*types.Pointer); ok {
		t = pt.Elem()
	}
	if n, ok := types.Unalias(t).(*types.Named); ok {
		return n.Obj().Name()
	}
	return ""
}

// isFunc: package-level function pkg.name.
func isFunc(o *types.Func, pkg, name string) bool {
	return o != nil && objPkgPath(o) == pkg && o.Name() == name && recvTypeName(o) == ""
}

// isMethod: method pkg.(T).name (pointer or value receiver, or interface T).
func isMethod(o *types.Func, pkg, typ, name string) bool {
	return o != nil && objPkgPath(o) == pkg && o.Name() == name && recvTypeName(o) == typ
}

// fullName gives "pkg.Func" or "pkg.(T).Method".
func fullName(o *types.Func) string {
	if o == nil {
		return "<dynamic>"
	}
	if r := recvTypeName(o); r != "" {
		return objPkgPath(o) + ".(" + r + ")." + o.Name()
	}
	return objPkgPath(o) + "." + o.Name()
}

// callOf returns v as a call instruction, looking through Extract.
func callOf(v ssa.Value) *ssa.Call {
	switch v := v.(type) {
	case *ssa.Call:
		return v
	case *ssa.Extract:
		if c, ok := v.Tuple.(*ssa.Call); ok {
			return c
		}
	}
	return nil
}

// ---------- instruction enumeration ----------

func eachInstr(fn *ssa.Function, f func(ssa.Instruction)) {
	for _, b := range fn.Blocks {
		for _, in := range b.Instrs {
			f(in)
		}
	}
}

// callsIn lists call instructions (Call, Defer, Go) of fn in block order.
func callsIn(fn *ssa.Function) []ssa.CallInstruction {
	var out []ssa.CallInstruction
	eachInstr(fn, func(in ssa.Instruction) {
		if c, ok := in.(ssa.CallInstruction); ok {
			out = append(out, c)
		}
	})
	return out
}

// callsTo lists calls in fn whose callee satisfies match.
func callsTo(fn *ssa.Function, match func(*types.Func) bool) []ssa.CallInstruction {
	var out []ssa.CallInstruction
	for _, c := range callsIn(fn) {
		if o := calleeObj(c); o != nil && match(o) {
			out = append(out, c)
		}
	}
	return out
}

// ---------- reachability over the module (H7) ----------

// succFuncs: functions fn may transfer control to or hand out as values.
func (p *Prog) succFuncs(fn *ssa.Function) []*ssa.Function {
	var out []*ssa.Function
	seen := map[*ssa.Function]bool{}
	add := func(f *ssa.Function) {
		if f != nil && !seen[f] {
			seen[f] = true
			out = append(out, f)
		}
	}
	var ops [16]*ssa.Value
	eachInstr(fn, func(in ssa.Instruction) {
		for _, op := range in.Operands(ops[:0]) {
			if op == nil || *op == nil {
				continue
			}
			switch v := (*op).(type) {
			case *ssa.Function:
				add(v)
			case *ssa.MakeClosure:
				if f, ok := v.Fn.(*ssa.Function); ok {
					add(f)
				}
			}
		}
		if c, ok := in.(ssa.CallInstruction); ok && c.Common().IsInvoke() {
			for _, f := range p.implementers(c.Common()) {
				add(f)
			}
		}
	})
	return out
}

// implementers: module methods that an invoke-mode call may dispatch to.
func (p *Prog) implementers(cc *ssa.CallCommon) []*ssa.Function {
	var out []*ssa.Function
	iface, _ := cc.Value.Type().Underlying().(*types.Interface)
	if iface == nil {
		return nil
	}
	for _, sp := range p.SPkgs {
		for _, m := range sp.Members {
			t, ok := m.(*ssa.Type)
			if !ok {
				continue
			}
			for _, T := range []types.Type{t.Type(), types.NewPointer(t.Type())} {
				if types.IsInterface(T) || !types.Implements(T, iface) {
					continue
				}
				sel := p.SSA.MethodSets.MethodSet(T).Lookup(cc.Method.Pkg(), cc.Method.Name())
				if sel != nil {
					if f := p.SSA.MethodValue(sel); f != nil {
						out = append(out, f)
					}
				}
			}
		}
	}
	return out
}

// reach returns all module functions reachable from the entries (including
// the entries), following static calls, closures, function values and
// interface dispatch into the module.
func (p *Prog) reach(entries ...*ssa.Function) map[*ssa.Function]bool {
	seen := map[*ssa.Function]bool{}
	var work []*ssa.Function
	for _, e := range entries {
		if e != nil && !seen[e] {
			seen[e] = true
			work = append(work, e)
		}
	}
	for len(work) > 0 {
		f := work[len(work)-1]
		work = work[:len(work)-1]
		if f.Blocks == nil {
			continue
		}
		for _, g := range p.succFuncs(f) {
			// unwrap synthetic wrappers/bound methods
			if !seen[g] {
				seen[g] = true
				work = append(work, g)
			}
		}
	}
	out := map[*ssa.Function]bool{}
	for f := range seen {
		if p.InModule(f) || (f.Synthetic != "" && f.Blocks != nil) {
			out[f] = true
		}
	}
	return out
}

func sortedFuncs(m map[*ssa.Function]bool) []*ssa.Function {
	var out []*ssa.Function
	for f := range m {
		out = append(out, f)
	}
	sort.Slice(out, func(i, j int) bool {
		if out[i].Pos() != out[j].Pos() {
			return out[i].Pos() < out[j].Pos()
		}
		return out[i].String() < out[j].String()
	})
	return out
}

// callersOf lists call sites (in module functions) that statically call fn or
// that create a closure over / pass fn as a value.
func (p *Prog) callersOf(fn *ssa.Function) []ssa.CallInstruction {
	var out []ssa.CallInstruction
	for _, g := range p.Funcs {
		for _, c := range callsIn(g) {
			if c.Common().StaticCallee() == fn {
				out = append(out, c)
			}
		}
	}
	return out
}

// ---------- CFG edges, guards (H1) ----------

// Edge is the succ-th outgoing edge of a block ending in If (0 = true).
type Edge struct {
	From *ssa.BasicBlock
	Succ int
}

func (e Edge) To() *ssa.BasicBlock { return e.From.Succs[e.Succ] }

// reachableBlocks computes blocks reachable from entry with some edges cut.
func reachableBlocks(fn *ssa.Function, cut []Edge) map[*ssa.BasicBlock]bool {
	isCut := func(b *ssa.BasicBlock, i int) bool {
		for _, e := range cut {
			if e.From == b && e.Succ == i {
				return true
			}
		}
		return false
	}
	seen := map[*ssa.BasicBlock]bool{}
	if len(fn.Blocks) == 0 {
		return seen
	}
	work := []*ssa.BasicBlock{fn.Blocks[0]}
	seen[fn.Blocks[0]] = true
	for len(work) > 0 {
		b := work[len(work)-1]
		work = work[:len(work)-1]
		for i, s := range b.Succs {
			if isCut(b, i) {
				continue
			}
			// an If whose two successors coincide cannot be cut half-way
			if !seen[s] {
				seen[s] = true
				work = append(work, s)
			}
		}
	}
	// recover block of fn if present is reachable only via panics: ignore
	return seen
}

// guarded reports whether the block can only be entered after one of the
// given edges was taken (the block is unreachable once all are cut).
func guarded(b *ssa.BasicBlock, edges []Edge) bool {
	if len(edges) == 0 {
		return false
	}
	for _, e := range edges {
		if e.From.Succs[0] == e.From.Succs[1] {
			return false
		}
	}
	return !reachableBlocks(b.Parent(), edges)[b]
}

// stripNot peels !x, returning x and whether the polarity flipped.
func stripNot(v ssa.Value) (ssa.Value, bool) {
	neg := false
	for {
		u, ok := v.(*ssa.UnOp)
		if !ok || u.Op != token.NOT {
			return v, neg
		}
		v = u.X
		neg = !neg
	}
}

// condEdges returns, for every If in fn whose (NOT-stripped) condition matches,
// the edge on which the matched predicate is true and the one on which it is
// false.
func condEdges(fn *ssa.Function, match func(v ssa.Value) bool) (trueE, falseE []Edge) {
	for _, b := range fn.Blocks {
		if len(b.Instrs) == 0 {
			continue
		}
		ifi, ok := b.Instrs[len(b.Instrs)-1].(*ssa.If)
		if !ok {
			continue
		}
		c, neg := stripNot(ifi.Cond)
		if !match(c) {
			continue
		}
		t, f := 0, 1
		if neg {
			t, f = 1, 0
		}
		trueE = append(trueE, Edge{b, t})
		falseE = append(falseE, Edge{b, f})
	}
	return
}

// isNilConst / constant helpers
func isNilConst(v ssa.Value) bool {
	c, ok := v.(*ssa.Const)
	return ok && c.Value == nil && !isBasic(c.Type())
}

func isBasic(t types.Type) bool {
	_, ok := t.Underlying().(*types.Basic)
	return ok
}

func constString(v ssa.Value) (string, bool) {
	c, ok := v.(*ssa.Const)
	if !ok || c.Value == nil || c.Value.Kind() != constant.String {
		return "", false
	}
	return constant.StringVal(c.Value), true
}

func constInt(v ssa.Value) (int64, bool) {
	c, ok := v.(*ssa.Const)
	if !ok || c.Value == nil || c.Value.Kind() != constant.Int {
		return 0, false
	}
	i, ok := constant.Int64Val(c.Value)
	return i, ok
}

func constBool(v ssa.Value) (bool, bool) {
	c, ok := v.(*ssa.Const)
	if !ok || c.Value == nil || c.Value.Kind() != constant.Bool {
		return false, false
	}
	return constant.BoolVal(c.Value), true
}

// resolveLoad looks through a load of a local cell (captured variable or
// defer-spilled result) to the value most recently stored, when that is
// unambiguous: the last store to the cell earlier in the same block, else the
// unique store in the function.
func resolveLoad(v ssa.Value) ssa.Value {
	u, ok := v.(*ssa.UnOp)
	if !ok || u.Op != token.MUL {
		return v
	}
	cell := u.X
	switch cell.(type) {
	case *ssa.Alloc, *ssa.FreeVar:
	default:
		return v
	}
	b := u.Block()
	var last ssa.Value
	for _, in := range b.Instrs {
		if in == ssa.Instruction(u) {
			break
		}
		if st, ok := in.(*ssa.Store); ok && st.Addr == cell {
			last = st.Val
		}
		if _, ok := in.(ssa.CallInstruction); ok && last != nil {
			// a call between store and load may write a captured cell
			if _, isFree := cell.(*ssa.FreeVar); isFree || escapesToClosure(cell) {
				// keep last: in this repository closures writing the cell are
				// deferred or callbacks that run elsewhere; conservative users
				// call storesTo for the full set.
			}
		}
	}
	if last != nil {
		return last
	}
	if _, isFree := cell.(*ssa.FreeVar); isFree {
		return v // written by other functions too
	}
	sts := storesTo(u.Parent(), cell)
	if len(sts) == 1 && dominates(sts[0], u) && !escapesToClosure(cell) {
		return sts[0].Val
	}
	return v
}

func escapesToClosure(cell ssa.Value) bool {
	refs := cell.Referrers()
	if refs == nil {
		return false
	}
	for _, r := range *refs {
		if _, ok := r.(*ssa.MakeClosure); ok {
			return true
		}
	}
	return false
}

// storesTo lists stores whose address is exactly cell, in fn.
func storesTo(fn *ssa.Function, cell ssa.Value) []*ssa.Store {
	var out []*ssa.Store
	eachInstr(fn, func(in ssa.Instruction) {
		if st, ok := in.(*ssa.Store); ok && st.Addr == cell {
			out = append(out, st)
		}
	})
	return out
}

// errCheckEdges: for an error value e, the edges on which `e != nil` holds
// (nonNil) and on which `e == nil` holds (isNil). Loads of cells are resolved.
func errCheckEdges(fn *ssa.Function, e ssa.Value) (nonNil, isNil []Edge) {
	for _, b := range fn.Blocks {
		if len(b.Instrs) == 0 {
			continue
		}
		ifi, ok := b.Instrs[len(b.Instrs)-1].(*ssa.If)
		if !ok {
			continue
		}
		c, neg := stripNot(ifi.Cond)
		bo, ok := c.(*ssa.BinOp)
		if !ok || (bo.Op != token.NEQ && bo.Op != token.EQL) {
			continue
		}
		var x ssa.Value
		if isNilConst(bo.Y) {
			x = bo.X
		} else if isNilConst(bo.X) {
			x = bo.Y
		} else {
			continue
		}
		if x != e && resolveLoad(x) != e {
			continue
		}
		ne := bo.Op == token.NEQ
		if neg {
			ne = !ne
		}
		if ne {
			nonNil = append(nonNil, Edge{b, 0})
			isNil = append(isNil, Edge{b, 1})
		} else {
			nonNil = append(nonNil, Edge{b, 1})
			isNil = append(isNil, Edge{b, 0})
		}
	}
	return
}

// ---------- must-pass-through (H2) ----------

// instrIndex returns the index of in within its block.
func instrIndex(in ssa.Instruction) int {
	for i, x := range in.Block().Instrs {
		if x == in {
			return i
		}
	}
	return -1
}

// mustPass reports whether every path from just after `from` to a normal
// Return passes an instruction satisfying pass. It returns an offending
// return (or nil). Blocks ending in Panic are not exits. stopEdges, when
// given, are edges the search does not follow (e.g. the error edge of the
// starting call).
func mustPass(from ssa.Instruction, pass func(ssa.Instruction) bool, stopEdges []Edge) (ok bool, offending ssa.Instruction) {
	startB := from.Block()
	idx := instrIndex(from)
	seen := map[*ssa.BasicBlock]bool{}
	type item struct {
		b *ssa.BasicBlock
		i int
	}
	work := []item{{startB, idx + 1}}
	isStop := func(b *ssa.BasicBlock, i int) bool {
		for _, e := range stopEdges {
			if e.From == b && e.Succ == i {
				return true
			}
		}
		return false
	}
	for len(work) > 0 {
		it := work[len(work)-1]
		work = work[:len(work)-1]
		passed := false
		for i := it.i; i < len(it.b.Instrs); i++ {
			in := it.b.Instrs[i]
			if pass(in) {
				passed = true
				break
			}
			if r, ok := in.(*ssa.Return); ok {
				return false, r
			}
		}
		if passed {
			continue
		}
		for i, s := range it.b.Succs {
			if isStop(it.b, i) {
				continue
			}
			if !seen[s] {
				seen[s] = true
				work = append(work, item{s, 0})
			}
		}
	}
	return true, nil
}

// blocksFrom returns blocks reachable from b's successors via the given edge
// filter (used for "after the ok-edge of").
func reachFromEdge(e Edge) map[*ssa.BasicBlock]bool {
	seen := map[*ssa.BasicBlock]bool{}
	start := e.To()
	seen[start] = true
	work := []*ssa.BasicBlock{start}
	for len(work) > 0 {
		b := work[len(work)-1]
		work = work[:len(work)-1]
		for _, s := range b.Succs {
			if !seen[s] {
				seen[s] = true
				work = append(work, s)
			}
		}
	}
	return seen
}

// returnsOf lists Return instructions of fn.
func returnsOf(fn *ssa.Function) []*ssa.Return {
	var out []*ssa.Return
	eachInstr(fn, func(in ssa.Instruction) {
		if r, ok := in.(*ssa.Return); ok && r.Block() != fn.Recover {
			out = append(out, r)
		}
	})
	return out
}

// returnValues resolves the idx-th result at a Return through defer spills:
// when the returned value is a load of a result cell, the values that may be
// stored to that cell on paths reaching this return.
func returnValues(r *ssa.Return, idx int) []ssa.Value {
	if idx >= len(r.Results) {
		return nil
	}
	v := r.Results[idx]
	u, ok := v.(*ssa.UnOp)
	if !ok || u.Op != token.MUL {
		return []ssa.Value{v}
	}
	cell, ok := u.X.(*ssa.Alloc)
	if !ok {
		return []ssa.Value{v}
	}
	// walk backwards from the return collecting the nearest store per path
	var out []ssa.Value
	seen := map[*ssa.BasicBlock]bool{}
	var walk func(b *ssa.BasicBlock, from int)
	walk = func(b *ssa.BasicBlock, from int) {
		for i := from; i >= 0; i-- {
			if st, ok := b.Instrs[i].(*ssa.Store); ok && st.Addr == cell {
				out = append(out, st.Val)
				return
			}
		}
		if len(b.Preds) == 0 {
			out = append(out, ssa.Value(nil)) // zero value at entry
			return
		}
		for _, p := range b.Preds {
			if !seen[p] {
				seen[p] = true
				walk(p, len(p.Instrs)-1)
			}
		}
	}
	walk(r.Block(), instrIndex(r)-1)
	return out
}

// dominates: does instruction a dominate instruction b (same function)?
func dominates(a, b ssa.Instruction) bool {
	if a.Block() == b.Block() {
		return instrIndex(a) < instrIndex(b)
	}
	return blockDominates(a.Block(), b.Block())
}

// reachFromBlock: the blocks reachable from b (b included).
func reachFromBlock(b *ssa.BasicBlock) map[*ssa.BasicBlock]bool {
	seen := map[*ssa.BasicBlock]bool{}
	work := []*ssa.BasicBlock{b}
	for len(work) > 0 {
		x := work[len(work)-1]
		work = work[:len(work)-1]
		if seen[x] {
			continue
		}
		seen[x] = true
		work = append(work, x.Succs...)
	}
	return seen
}
