package main

import "golang.org/x/tools/go/ssa"

// Dominance computed here, not taken from go/ssa: the loader edits control-flow
// graphs after go/ssa built them (constant branches pruned, helpers inlined),
// and go/ssa's dominator tree is neither updated by nor accessible to such edits.
// Cooper/Harvey/Kennedy iteration over the reverse postorder of the blocks
// reachable from the entry block; computed once per function on first use
// (all edits happen at load time, before any rule runs).

type domInfo struct {
	idom map[*ssa.BasicBlock]*ssa.BasicBlock
}

var domCache = map[*ssa.Function]*domInfo{}

func domOf(fn *ssa.Function) *domInfo {
	if d := domCache[fn]; d != nil {
		return d
	}
	d := &domInfo{idom: map[*ssa.BasicBlock]*ssa.BasicBlock{}}
	domCache[fn] = d
	if len(fn.Blocks) == 0 {
		return d
	}
	entry := fn.Blocks[0]
	// postorder
	var post []*ssa.BasicBlock
	seen := map[*ssa.BasicBlock]bool{}
	var dfs func(b *ssa.BasicBlock)
	dfs = func(b *ssa.BasicBlock) {
		seen[b] = true
		for _, s := range b.Succs {
			if !seen[s] {
				dfs(s)
			}
		}
		post = append(post, b)
	}
	dfs(entry)
	num := map[*ssa.BasicBlock]int{}
	for i, b := range post {
		num[b] = i
	}
	d.idom[entry] = entry
	intersect := func(a, b *ssa.BasicBlock) *ssa.BasicBlock {
		for a != b {
			for num[a] < num[b] {
				a = d.idom[a]
			}
			for num[b] < num[a] {
				b = d.idom[b]
			}
		}
		return a
	}
	for changed := true; changed; {
		changed = false
		for i := len(post) - 2; i >= 0; i-- {
			b := post[i]
			var ni *ssa.BasicBlock
			for _, p := range b.Preds {
				if _, ok := d.idom[p]; !ok || !seen[p] {
					continue
				}
				if ni == nil {
					ni = p
				} else {
					ni = intersect(p, ni)
				}
			}
			if ni != nil && d.idom[b] != ni {
				d.idom[b] = ni
				changed = true
			}
		}
	}
	delete(d.idom, entry) // the entry block has no immediate dominator
	return d
}

// idomOf: the immediate dominator (nil for the entry block and for blocks not
// reachable from it).
func idomOf(b *ssa.BasicBlock) *ssa.BasicBlock {
	if b == nil || b.Parent() == nil {
		return nil
	}
	return domOf(b.Parent()).idom[b]
}

// blockDominates: a dominates b (reflexive, as (*ssa.BasicBlock).Dominates is).
func blockDominates(a, b *ssa.BasicBlock) bool {
	if a == nil || b == nil {
		return false
	}
	for x := b; x != nil; x = idomOf(x) {
		if x == a {
			return true
		}
	}
	return false
}
