package main

import (
	"golang.org/x/tools/go/ssa"
)

// Query-level "virtual inlining": rules anchored in a function F also see
// what F does through its private helpers, so that extracting a block into a
// helper (or inlining one) does not change a verdict.

// family returns F together with the module functions that are reachable
// from it by static calls and are only ever called from inside the family
// (F's private helpers). Closures of members are members.
func (p *Prog) family(F *ssa.Function) map[*ssa.Function]bool {
	fam := map[*ssa.Function]bool{F: true}
	for changed := true; changed; {
		changed = false
		for f := range fam {
			for _, a := range f.AnonFuncs {
				if !fam[a] {
					fam[a] = true
					changed = true
				}
			}
			for _, ci := range callsIn(f) {
				g := ci.Common().StaticCallee()
				if g == nil || fam[g] || !p.InModule(g) || g.Parent() != nil {
					continue
				}
				if g.Object() != nil && g.Object().Exported() {
					continue
				}
				only := true
				for _, cs := range p.callersOf(g) {
					if !fam[cs.Parent()] {
						only = false
					}
				}
				if only {
					fam[g] = true
					changed = true
				}
			}
		}
	}
	return fam
}

// singleSite returns the unique static call site of an unexported,
// non-closure module function (nil if there is none or several).
func (p *Prog) singleSite(g *ssa.Function) ssa.CallInstruction {
	if g == nil || g.Parent() != nil || !p.InModule(g) {
		return nil
	}
	if g.Object() != nil && g.Object().Exported() {
		return nil
	}
	cs := p.callersOf(g)
	if len(cs) != 1 {
		return nil
	}
	return cs[0]
}

// canonX is canon that also looks through parameters of single-call-site
// private helpers to the argument at that site.
func (p *Prog) canonX(v ssa.Value) ssa.Value {
	for i := 0; i < 6; i++ {
		v = canon(v)
		prm, ok := v.(*ssa.Parameter)
		if !ok {
			return v
		}
		site := p.singleSite(prm.Parent())
		if site == nil {
			return v
		}
		idx := -1
		for k, q := range prm.Parent().Params {
			if q == prm {
				idx = k
			}
		}
		args := site.Common().Args
		if idx < 0 || idx >= len(args) {
			return v
		}
		v = args[idx]
	}
	return v
}

// vsite is a call presented at the level of an anchor function.
type vsite struct {
	Site  ssa.CallInstruction // the call instruction in the anchor function through which Inner is reached (== Inner for direct calls)
	Inner ssa.CallInstruction // the actual call
	Args  []ssa.Value         // Inner's arguments, with helper parameters replaced by the values passed from the anchor function
	Depth int
}

// vcalls lists the calls F makes directly or through private helpers (depth
// bounded, recursion cut), with arguments mapped back to F's values.
func (p *Prog) vcalls(F *ssa.Function, maxDepth int) []vsite {
	var out []vsite
	fam := p.family(F)
	var walk func(f *ssa.Function, site ssa.CallInstruction, bind map[*ssa.Parameter]ssa.Value, depth int, chain map[*ssa.Function]bool)
	walk = func(f *ssa.Function, site ssa.CallInstruction, bind map[*ssa.Parameter]ssa.Value, depth int, chain map[*ssa.Function]bool) {
		for _, ci := range callsIn(f) {
			top := site
			if top == nil {
				top = ci
			}
			var args []ssa.Value
			for _, a := range ci.Common().Args {
				ca := canon(a)
				if prm, ok := ca.(*ssa.Parameter); ok {
					if b, ok := bind[prm]; ok {
						args = append(args, b)
						continue
					}
				}
				args = append(args, a)
			}
			out = append(out, vsite{Site: top, Inner: ci, Args: args, Depth: depth})
			g := ci.Common().StaticCallee()
			if g == nil || !fam[g] || g == F || chain[g] || depth >= maxDepth || g.Parent() != nil {
				continue
			}
			nb := map[*ssa.Parameter]ssa.Value{}
			for k, prm := range g.Params {
				if k < len(args) {
					nb[prm] = args[k]
				}
			}
			chain[g] = true
			walk(g, top, nb, depth+1, chain)
			delete(chain, g)
		}
	}
	walk(F, nil, map[*ssa.Parameter]ssa.Value{}, 0, map[*ssa.Function]bool{F: true})
	return out
}

// helperAlways: every path from the entry of H to a return that may report
// success passes an instruction satisfying pred (calls to private helpers of
// H that themselves always pass count).
func (p *Prog) helperAlways(H *ssa.Function, pred func(ssa.Instruction) bool, depth int) bool {
	if H == nil || len(H.Blocks) == 0 || depth > 3 {
		return false
	}
	lifted := func(in ssa.Instruction) bool {
		if pred(in) {
			return true
		}
		if ci, ok := in.(ssa.CallInstruction); ok {
			if g := ci.Common().StaticCallee(); g != nil && g != H && p.family(H)[g] && g.Parent() == nil {
				return p.helperAlways(g, pred, depth+1)
			}
		}
		return false
	}
	first := H.Blocks[0].Instrs[0]
	if lifted(first) {
		return true
	}
	ok, _ := mustPassOK(first, lifted, func(r *ssa.Return) bool { return !mayReturnNilErr(r) }, nil)
	return ok
}

// liftPred turns an instruction predicate into one that also accepts a call
// to a private helper which always passes an instruction satisfying inner,
// where inner is evaluated with the helper's parameters bound to the call's
// arguments through the provided binder.
func (p *Prog) liftPred(F *ssa.Function, pred func(ssa.Instruction) bool) func(ssa.Instruction) bool {
	fam := p.family(F)
	return func(in ssa.Instruction) bool {
		if pred(in) {
			return true
		}
		ci, ok := in.(ssa.CallInstruction)
		if !ok {
			return false
		}
		g := ci.Common().StaticCallee()
		if g == nil || !fam[g] || g == F || g.Parent() != nil {
			return false
		}
		return p.helperAlways(g, pred, 1)
	}
}

// mustPassIP is mustPassOK across the private helpers of an anchor function:
// it starts at an instruction that may sit inside a helper, continues after
// the helper's call site(s) when a return that okReturn does not accept is
// reached there, and treats a call to a family helper that always passes an
// accepting instruction as passing.
func (p *Prog) mustPassIP(anchor *ssa.Function, from ssa.Instruction, pass func(ssa.Instruction) bool, okReturn func(*ssa.Return) bool, forbidden func(ssa.Instruction) bool) (bool, ssa.Instruction) {
	fam := p.family(anchor)
	type item struct {
		b *ssa.BasicBlock
		i int
	}
	seen := map[*ssa.BasicBlock]bool{}
	work := []item{{from.Block(), instrIndex(from) + 1}}
	lifted := func(in ssa.Instruction) bool {
		if pass(in) {
			return true
		}
		if ci, ok := in.(*ssa.Call); ok {
			if g := ci.Common().StaticCallee(); g != nil && g != anchor && fam[g] && g.Parent() == nil && g != in.Parent() {
				return p.helperAlways(g, pass, 1)
			}
		}
		return false
	}
	for len(work) > 0 {
		it := work[len(work)-1]
		work = work[:len(work)-1]
		passed := false
		for i := it.i; i < len(it.b.Instrs); i++ {
			in := it.b.Instrs[i]
			if lifted(in) {
				passed = true
				break
			}
			if forbidden != nil && forbidden(in) {
				return false, in
			}
			if r, ok := in.(*ssa.Return); ok {
				if okReturn != nil && okReturn(r) {
					continue
				}
				fn := r.Parent()
				if fn == anchor || !fam[fn] {
					return false, r
				}
				// continue behind every call of the helper inside the family
				sites := 0
				for _, cs := range p.callersOf(fn) {
					if !fam[cs.Parent()] {
						continue
					}
					sites++
					work = append(work, item{cs.Block(), instrIndex(cs) + 1})
				}
				if sites == 0 {
					return false, r
				}
			}
		}
		if passed {
			continue
		}
		for _, s := range it.b.Succs {
			if !seen[s] {
				seen[s] = true
				work = append(work, item{s, 0})
			}
		}
	}
	return true, nil
}
