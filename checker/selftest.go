package main

import (
	"encoding/json"
	"fmt"
	"go/types"
	"os"
	"os/exec"
	"path/filepath"
	"sort"
	"strings"
)

// closedWorld verifies premise G6 on every run: the fields the
// constructor-discipline rules quantify over cannot be written from outside
// the module.
func closedWorld(p *Prog) error {
	want := map[string][]string{
		"sourceaddrs":  {"LocalSource", "RemoteSource", "RemotePackage", "RegistrySource", "RegistrySourceFinal"},
		"sourcebundle": {"Bundle", "Builder", "PackageMeta", "Dependencies"},
		"slug":         {"Packer"},
	}
	for pk, ts := range want {
		for _, tn := range ts {
			n := p.NamedType(pk, tn)
			if n == nil {
				return cerrf("closed-world premise: type %s.%s not found", pk, tn)
			}
			st, ok := n.Underlying().(*types.Struct)
			if !ok {
				return cerrf("closed-world premise: %s.%s is not a struct", pk, tn)
			}
			for i := 0; i < st.NumFields(); i++ {
				if st.Field(i).Exported() {
					return cerrf("closed-world premise broken: %s.%s has exported field %s; constructor-discipline rules are no longer sound", pk, tn, st.Field(i).Name())
				}
			}
		}
	}
	return nil
}

// ---------- self-test: mutants and benign variants (thorough tier) ----------

type variantMeta struct {
	Patch      string   `json:"patch"`
	Properties []string `json:"properties"`
	Rules      []string `json:"expect_rules"` // any of these rules must report
	Kind       string   `json:"kind"`         // "mutant" | "benign" | "repair"
	Note       string   `json:"note"`
}

func loadVariants() ([]variantMeta, error) {
	b, err := os.ReadFile(filepath.Join(verifDir, "selftest", "variants.json"))
	if err != nil {
		if os.IsNotExist(err) {
			return nil, nil
		}
		return nil, err
	}
	var v []variantMeta
	if err := json.Unmarshal(b, &v); err != nil {
		return nil, err
	}
	return v, nil
}

// copyTree copies the Go sources of root (no .git, no testdata) to a fresh
// temporary directory outside /repo and /verif.
func copyTree(root string) (string, error) {
	tmp, err := os.MkdirTemp("", "slugcheck-variant-")
	if err != nil {
		return "", err
	}
	err = filepath.Walk(root, func(path string, info os.FileInfo, err error) error {
		if err != nil {
			return err
		}
		rel, _ := filepath.Rel(root, path)
		if info.IsDir() {
			if info.Name() == ".git" || info.Name() == "testdata" {
				return filepath.SkipDir
			}
			return os.MkdirAll(filepath.Join(tmp, rel), 0o755)
		}
		if !info.Mode().IsRegular() {
			return nil
		}
		if !(strings.HasSuffix(rel, ".go") || rel == "go.mod" || rel == "go.sum") {
			return nil
		}
		b, err := os.ReadFile(path)
		if err != nil {
			return err
		}
		return os.WriteFile(filepath.Join(tmp, rel), b, 0o644)
	})
	if err != nil {
		os.RemoveAll(tmp)
		return "", err
	}
	return tmp, nil
}

func applyPatch(dir, patch string) error {
	cmd := exec.Command("patch", "-p1", "-s", "--no-backup-if-mismatch", "-f", "-i", patch)
	cmd.Dir = dir
	out, err := cmd.CombinedOutput()
	if err != nil {
		return fmt.Errorf("%v: %s", err, strings.TrimSpace(string(out)))
	}
	return nil
}

func failingKeys(c *Checker) map[string]Oblig {
	m := map[string]Oblig{}
	for _, o := range c.Obls {
		if !o.OK {
			m[o.Rule+"|"+o.Key] = o
		}
	}
	return m
}

// selfTest runs the checker against known-bad and known-good variants of the
// tree. Returns report lines and whether the checker behaved.
func selfTest(prop string, def *propDef, tier, root string) ([]string, bool) {
	var lines []string
	ok := true
	if tier != "thorough" {
		return []string{"mutant/benign variants run in the thorough tier only"}, true
	}
	vs, err := loadVariants()
	if err != nil {
		return []string{"cannot load variants.json: " + err.Error()}, false
	}
	base, err := analyse(prop, def, tier, root, defaultConfig)
	if err != nil {
		return []string{"base analysis failed: " + err.Error()}, false
	}
	baseFail := failingKeys(base)
	for _, v := range vs {
		mine := false
		for _, p := range v.Properties {
			if p == prop {
				mine = true
			}
		}
		if !mine {
			continue
		}
		patch := filepath.Join(verifDir, v.Patch)
		tmp, err := copyTree(root)
		if err != nil {
			lines = append(lines, "cannot copy tree: "+err.Error())
			ok = false
			continue
		}
		func() {
			defer os.RemoveAll(tmp)
			if err := applyPatch(tmp, patch); err != nil {
				lines = append(lines, fmt.Sprintf("%s %s: SKIPPED (patch does not apply to the current tree)", v.Kind, v.Patch))
				return
			}
			c, err := analyse(prop, def, tier, tmp, defaultConfig)
			if err != nil {
				if v.Kind == "mutant" {
					lines = append(lines, fmt.Sprintf("mutant %s: SKIPPED (variant does not load: %v)", v.Patch, firstLine(err.Error())))
				} else {
					lines = append(lines, fmt.Sprintf("benign %s: analysis error: %v", v.Patch, firstLine(err.Error())))
					ok = false
				}
				return
			}
			var newFails []string
			ruleHit := false
			for k, o := range failingKeys(c) {
				if _, was := baseFail[k]; was {
					continue
				}
				newFails = append(newFails, o.Key)
				for _, r := range v.Rules {
					if o.Rule == r {
						ruleHit = true
					}
				}
			}
			sort.Strings(newFails)
			switch v.Kind {
			case "mutant":
				if len(newFails) == 0 {
					lines = append(lines, fmt.Sprintf("mutant %s: NOT DETECTED (%s)", v.Patch, v.Note))
					ok = false
				} else if len(v.Rules) > 0 && !ruleHit {
					lines = append(lines, fmt.Sprintf("mutant %s: detected, but not by the expected rule %v: %v", v.Patch, v.Rules, trunc(newFails, 3)))
				} else {
					lines = append(lines, fmt.Sprintf("mutant %s: detected by %v", v.Patch, trunc(newFails, 3)))
				}
			case "repair":
				// a scratch repair of an open known finding: the finding's obligation must be discharged and nothing else may fire
				gone := false
				now := failingKeys(c)
				for k, o := range baseFail {
					for _, r := range v.Rules {
						if o.Rule == r {
							if _, still := now[k]; !still {
								gone = true
							}
						}
					}
				}
				if len(newFails) > 0 || !gone {
					lines = append(lines, fmt.Sprintf("repair %s: NOT RECOGNISED (finding still reported: %v; new failures: %v)", v.Patch, !gone, trunc(newFails, 3)))
					ok = false
				} else {
					lines = append(lines, fmt.Sprintf("repair %s: finding discharged, nothing else fires", v.Patch))
				}
			case "benign":
				if len(newFails) > 0 {
					lines = append(lines, fmt.Sprintf("benign %s: FALSE ALARM %v", v.Patch, trunc(newFails, 3)))
					ok = false
				} else {
					lines = append(lines, fmt.Sprintf("benign %s: silent", v.Patch))
				}
			}
		}()
	}
	if len(lines) == 0 {
		lines = append(lines, "no variants registered for this property")
	}
	return lines, ok
}

func firstLine(s string) string {
	if i := strings.Index(s, "\n"); i >= 0 {
		return s[:i]
	}
	return s
}

func trunc(s []string, n int) []string {
	if len(s) > n {
		return append(append([]string{}, s[:n]...), fmt.Sprintf("… +%d", len(s)-n))
	}
	return s
}
