package main

import (
	"encoding/json"
	"fmt"
	"go/types"
	"os"
	"os/exec"
	"path/filepath"
	"runtime"
	"sort"
	"strings"
	"sync"
)

// closedWorld verifies premise G6 on every run: the fields the
// constructor-discipline rules quantify over cannot be written from outside
// the module.
func closedWorld(p *Prog) error {
	want := map[string][]string{
		"sourceaddrs":  {"LocalSource", "RemoteSource", "RemotePackage", "RegistrySource", "RegistrySourceFinal"},
		"sourcebundle": {"Bundle", "Builder", "PackageMeta", "Dependencies"},
		"slug":         {"Packer"},
	}
	for pk, ts := range want {
		for _, tn := range ts {
			n := p.NamedType(pk, tn)
			if n == nil {
				return cerrf("closed-world premise: type %s.%s not found", pk, tn)
			}
			st, ok := n.Underlying().(*types.Struct)
			if !ok {
				return cerrf("closed-world premise: %s.%s is not a struct", pk, tn)
			}
			for i := 0; i < st.NumFields(); i++ {
				if st.Field(i).Exported() {
					return cerrf("closed-world premise broken: %s.%s has exported field %s; constructor-discipline rules are no longer sound", pk, tn, st.Field(i).Name())
				}
			}
		}
	}
	return nil
}

// ---------- self-test: mutants and benign variants (thorough tier) ----------

type variantMeta struct {
	Patch      string   `json:"patch"`
	Properties []string `json:"properties"`
	Rules      []string `json:"expect_rules"` // any of these rules must report
	Kind       string   `json:"kind"`         // "mutant" | "benign" | "repair"
	Note       string   `json:"note"`
}

func loadVariants() ([]variantMeta, error) {
	b, err := os.ReadFile(filepath.Join(verifDir, "selftest", "variants.json"))
	if err != nil {
		if os.IsNotExist(err) {
			return nil, nil
		}
		return nil, err
	}
	var v []variantMeta
	if err := json.Unmarshal(b, &v); err != nil {
		return nil, err
	}
	return v, nil
}

// copyTree copies the Go sources of root (no .git, no testdata) to a fresh
// temporary directory outside /repo and /verif.
func copyTree(root string) (string, error) {
	tmp, err := os.MkdirTemp("", "slugcheck-variant-")
	if err != nil {
		return "", err
	}
	err = filepath.Walk(root, func(path string, info os.FileInfo, err error) error {
		if err != nil {
			return err
		}
		rel, _ := filepath.Rel(root, path)
		if info.IsDir() {
			if info.Name() == ".git" || info.Name() == "testdata" {
				return filepath.SkipDir
			}
			return os.MkdirAll(filepath.Join(tmp, rel), 0o755)
		}
		if !info.Mode().IsRegular() {
			return nil
		}
		if !(strings.HasSuffix(rel, ".go") || rel == "go.mod" || rel == "go.sum") {
			return nil
		}
		b, err := os.ReadFile(path)
		if err != nil {
			return err
		}
		return os.WriteFile(filepath.Join(tmp, rel), b, 0o644)
	})
	if err != nil {
		os.RemoveAll(tmp)
		return "", err
	}
	return tmp, nil
}

func applyPatch(dir, patch string) error {
	cmd := exec.Command("patch", "-p1", "-s", "--no-backup-if-mismatch", "-f", "-i", patch)
	cmd.Dir = dir
	out, err := cmd.CombinedOutput()
	if err != nil {
		return fmt.Errorf("%v: %s", err, strings.TrimSpace(string(out)))
	}
	return nil
}

func failingKeys(c *Checker) map[string]Oblig {
	m := map[string]Oblig{}
	for _, o := range c.Obls {
		if !o.OK {
			m[o.Rule+"|"+o.Key] = o
		}
	}
	return m
}

// selfTest runs the checker against known-bad and known-good variants of the
// tree. Returns report lines and whether the checker behaved.
func selfTest(prop string, def *propDef, tier, root string) ([]string, bool) {
	var lines []string
	ok := true
	if tier != "thorough" {
		return []string{"mutant/benign variants run in the thorough tier only"}, true
	}
	vs, err := loadVariants()
	if err != nil {
		return []string{"cannot load variants.json: " + err.Error()}, false
	}
	base, err := analyse(prop, def, tier, root, defaultConfig)
	if err != nil {
		return []string{"base analysis failed: " + err.Error()}, false
	}
	baseFail := failingKeys(base)
	// every variant is analysed in a process of its own (the analyser keeps per-load state in package variables),
	// as many at a time as there are processors; the verdicts are drawn afterwards, in the order of the list
	var mineVs []variantMeta
	for _, v := range vs {
		for _, p := range v.Properties {
			if p == prop {
				mineVs = append(mineVs, v)
				break
			}
		}
	}
	type vout struct {
		keys     map[string]Oblig
		err      error
		copyErr  error
		patchErr error
	}
	outs := make([]vout, len(mineVs))
	{
		self, _ := os.Executable()
		nw := runtime.NumCPU()
		if nw > 16 {
			nw = 16
		}
		if nw < 1 {
			nw = 1
		}
		jobs := make(chan int)
		var wg sync.WaitGroup
		for w := 0; w < nw; w++ {
			wg.Add(1)
			go func() {
				defer wg.Done()
				for i := range jobs {
					v := mineVs[i]
					tmp, err := copyTree(root)
					if err != nil {
						outs[i].copyErr = err
						continue
					}
					if err := applyPatch(tmp, filepath.Join(verifDir, v.Patch)); err != nil {
						outs[i].patchErr = err
						os.RemoveAll(tmp)
						continue
					}
					cmd := exec.Command(self, "-all", "-root", tmp)
					cmd.Env = append(os.Environ(), "SLUGCHECK_ONLY="+prop)
					b, _ := cmd.Output()
					os.RemoveAll(tmp)
					text := string(b)
					keys := map[string]Oblig{}
					var aerr error
					for _, ln := range strings.Split(text, "\n") {
						switch {
						case strings.HasPrefix(ln, "CHECKER-ERROR"):
							aerr = fmt.Errorf("%s", strings.TrimSpace(strings.TrimPrefix(ln, "CHECKER-ERROR")))
						case strings.HasPrefix(ln, "FAILKEY "+prop+" "):
							k := strings.TrimPrefix(ln, "FAILKEY "+prop+" ")
							rule, key := k, ""
							if j := strings.Index(k, "|"); j >= 0 {
								rule, key = k[:j], k[j+1:]
							}
							if rule == "analyser-panic" {
								aerr = fmt.Errorf("analyser panic: %s", key)
								continue
							}
							keys[k] = Oblig{Rule: rule, Key: key}
						}
					}
					if aerr == nil && !strings.Contains(text, "ALLDONE") {
						aerr = fmt.Errorf("the analysis of the variant did not finish")
					}
					outs[i].keys, outs[i].err = keys, aerr
				}
			}()
		}
		for i := range mineVs {
			jobs <- i
		}
		close(jobs)
		wg.Wait()
	}
	for vi, v := range mineVs {
		if outs[vi].copyErr != nil {
			lines = append(lines, "cannot copy tree: "+outs[vi].copyErr.Error())
			ok = false
			continue
		}
		func() {
			if outs[vi].patchErr != nil {
				lines = append(lines, fmt.Sprintf("%s %s: SKIPPED (patch does not apply to the current tree)", v.Kind, v.Patch))
				return
			}
			cKeys, err := outs[vi].keys, outs[vi].err
			if err != nil {
				if v.Kind == "mutant" {
					lines = append(lines, fmt.Sprintf("mutant %s: SKIPPED (variant does not load: %v)", v.Patch, firstLine(err.Error())))
				} else {
					lines = append(lines, fmt.Sprintf("benign %s: analysis error: %v", v.Patch, firstLine(err.Error())))
					ok = false
				}
				return
			}
			var newFails []string
			ruleHit := false
			for k, o := range cKeys {
				if _, was := baseFail[k]; was {
					continue
				}
				newFails = append(newFails, o.Key)
				for _, r := range v.Rules {
					if o.Rule == r {
						ruleHit = true
					}
				}
			}
			sort.Strings(newFails)
			switch v.Kind {
			case "mutant":
				if len(newFails) == 0 {
					lines = append(lines, fmt.Sprintf("mutant %s: NOT DETECTED (%s)", v.Patch, v.Note))
					ok = false
				} else if len(v.Rules) > 0 && !ruleHit {
					lines = append(lines, fmt.Sprintf("mutant %s: detected, but not by the expected rule %v: %v", v.Patch, v.Rules, trunc(newFails, 3)))
				} else {
					lines = append(lines, fmt.Sprintf("mutant %s: detected by %v", v.Patch, trunc(newFails, 3)))
				}
			case "repair":
				// a scratch repair of an open known finding: the finding's obligation must be discharged and nothing else may fire
				gone := false
				now := cKeys
				for k, o := range baseFail {
					for _, r := range v.Rules {
						if o.Rule == r {
							if _, still := now[k]; !still {
								gone = true
							}
						}
					}
				}
				if len(newFails) > 0 || !gone {
					lines = append(lines, fmt.Sprintf("repair %s: NOT RECOGNISED (finding still reported: %v; new failures: %v)", v.Patch, !gone, trunc(newFails, 3)))
					ok = false
				} else {
					lines = append(lines, fmt.Sprintf("repair %s: finding discharged, nothing else fires", v.Patch))
				}
			case "benign":
				if len(newFails) > 0 {
					lines = append(lines, fmt.Sprintf("benign %s: FALSE ALARM %v", v.Patch, trunc(newFails, 3)))
					ok = false
				} else {
					lines = append(lines, fmt.Sprintf("benign %s: silent", v.Patch))
				}
			}
		}()
	}
	if len(lines) == 0 {
		lines = append(lines, "no variants registered for this property")
	}
	return lines, ok
}

func firstLine(s string) string {
	if i := strings.Index(s, "\n"); i >= 0 {
		return s[:i]
	}
	return s
}

func trunc(s []string, n int) []string {
	if len(s) > n {
		return append(append([]string{}, s[:n]...), fmt.Sprintf("… +%d", len(s)-n))
	}
	return s
}
