package main

import (
	"go/token"
	"go/types"

	"golang.org/x/tools/go/ssa"
)

// H3: provenance (origins) and dependence (backSlice).

// Leaf is one origin of a value.
type Leaf struct {
	Kind   string // param const call field global alloc lookup range zero other
	V      ssa.Value
	Callee *types.Func // Kind=="call"
	Field  *types.Var  // Kind=="field"
	Base   ssa.Value   // struct / map / collection the leaf was read from
}

// transferFuncs: pure path/string functions whose result is made of their
// arguments only (trusted library semantics, DESIGN 3.7). Value: which
// argument indices flow (nil = all).
var transferFuncs = map[string][]int{
	"path/filepath.Join":         nil,
	"path/filepath.Clean":        nil,
	"path/filepath.Dir":          nil,
	"path/filepath.Abs":          nil,
	"path/filepath.Rel":          nil,
	"path/filepath.ToSlash":      nil,
	"path/filepath.FromSlash":    nil,
	"path/filepath.EvalSymlinks": nil,
	"path/filepath.Base":         nil,
	"path.Join":                  nil,
	"path.Clean":                 nil,
	"path.Dir":                   nil,
	"path.Base":                  nil,
	"strings.TrimPrefix":         {0},
	"strings.TrimSuffix":         {0},
	"strings.TrimSpace":          {0},
	"strings.Replace":            {0, 2},
	"strings.ReplaceAll":         {0, 2},
	"strings.ToLower":            {0},
	"strings.Join":               nil,
	"strings.Split":              {0},
	"strings.Cut":                {0},
	"fmt.Sprintf":                nil,
}

// fieldOf returns the struct field selected by a Field/FieldAddr instruction.
func fieldOf(v ssa.Value) *types.Var {
	var t types.Type
	var idx int
	switch v := v.(type) {
	case *ssa.Field:
		t, idx = v.X.Type(), v.Field
	case *ssa.FieldAddr:
		t, idx = v.X.Type(), v.Field
		if pt, ok := t.Underlying().(*types.Pointer); ok {
			t = pt.Elem()
		}
	default:
		return nil
	}
	st, ok := t.Underlying().(*types.Struct)
	if !ok || idx >= st.NumFields() {
		return nil
	}
	return st.Field(idx)
}

// closureSites returns the MakeClosure instructions creating fn.
func closureSites(fn *ssa.Function) []*ssa.MakeClosure {
	var out []*ssa.MakeClosure
	par := fn.Parent()
	if par == nil {
		return nil
	}
	var visit func(f *ssa.Function)
	visit = func(f *ssa.Function) {
		eachInstr(f, func(in ssa.Instruction) {
			if mc, ok := in.(*ssa.MakeClosure); ok && mc.Fn == ssa.Value(fn) {
				out = append(out, mc)
			}
		})
	}
	visit(par)
	return out
}

// resolveFreeVar maps a free variable to the values bound to it at the
// closure's creation sites (normally the address of the captured variable).
func resolveFreeVar(fv *ssa.FreeVar) []ssa.Value {
	fn := fv.Parent()
	idx := -1
	for i, x := range fn.FreeVars {
		if x == fv {
			idx = i
		}
	}
	var out []ssa.Value
	if idx < 0 {
		return nil
	}
	for _, mc := range closureSites(fn) {
		if idx < len(mc.Bindings) {
			out = append(out, mc.Bindings[idx])
		}
	}
	return out
}

// rootCell follows free variables up to the defining Alloc (or returns v).
func rootCell(v ssa.Value) ssa.Value {
	for i := 0; i < 8; i++ {
		fv, ok := v.(*ssa.FreeVar)
		if !ok {
			return v
		}
		b := resolveFreeVar(fv)
		if len(b) != 1 {
			return v
		}
		v = b[0]
	}
	return v
}

// cellWrites lists every value stored to a local cell (an Alloc), including
// stores made through free variables in nested closures.
func cellWrites(cell ssa.Value) []*ssa.Store {
	cell = rootCell(cell)
	al, ok := cell.(*ssa.Alloc)
	if !ok {
		return nil
	}
	var out []*ssa.Store
	var visit func(fn *ssa.Function, addr ssa.Value)
	visit = func(fn *ssa.Function, addr ssa.Value) {
		eachInstr(fn, func(in ssa.Instruction) {
			switch in := in.(type) {
			case *ssa.Store:
				if in.Addr == addr {
					out = append(out, in)
				}
			case *ssa.MakeClosure:
				for i, b := range in.Bindings {
					if b == addr {
						if cf, ok := in.Fn.(*ssa.Function); ok && i < len(cf.FreeVars) {
							visit(cf, cf.FreeVars[i])
						}
					}
				}
			}
		})
	}
	visit(al.Parent(), al)
	return out
}

// fieldWrites lists stores to field f of the struct held in cell (an Alloc of
// struct type or pointer thereto), including through closures.
func fieldWrites(cell ssa.Value, field int) []*ssa.Store {
	cell = rootCell(cell)
	al, ok := cell.(*ssa.Alloc)
	if !ok {
		return nil
	}
	var out []*ssa.Store
	var visit func(fn *ssa.Function, addr ssa.Value)
	visit = func(fn *ssa.Function, addr ssa.Value) {
		eachInstr(fn, func(in ssa.Instruction) {
			switch in := in.(type) {
			case *ssa.Store:
				if fa, ok := in.Addr.(*ssa.FieldAddr); ok && fa.X == addr && fa.Field == field {
					out = append(out, in)
				}
			case *ssa.MakeClosure:
				for i, b := range in.Bindings {
					if b == addr {
						if cf, ok := in.Fn.(*ssa.Function); ok && i < len(cf.FreeVars) {
							visit(cf, cf.FreeVars[i])
						}
					}
				}
			}
		})
	}
	visit(al.Parent(), al)
	return out
}

// elemWrites lists stores into elements of a local array (the backing store
// of a variadic argument list or a slice literal).
func elemWrites(al *ssa.Alloc) []*ssa.Store {
	var out []*ssa.Store
	eachInstr(al.Parent(), func(in ssa.Instruction) {
		if st, ok := in.(*ssa.Store); ok {
			if ia, ok := st.Addr.(*ssa.IndexAddr); ok && ia.X == ssa.Value(al) {
				out = append(out, st)
			}
		}
	})
	return out
}

type provCtx struct {
	p     *Prog
	depth int
	seen  map[ssa.Value]bool
	out   []Leaf
}

// origins computes the leaves a value is made of. Unknown calls are leaves.
// depth bounds how many levels of parameters are followed to call sites.
func (p *Prog) origins(v ssa.Value, depth int) []Leaf {
	c := &provCtx{p: p, depth: depth, seen: map[ssa.Value]bool{}}
	c.walk(v, depth)
	return c.out
}

func (c *provCtx) leaf(l Leaf) { c.out = append(c.out, l) }

func (c *provCtx) walk(v ssa.Value, depth int) {
	if v == nil {
		c.leaf(Leaf{Kind: "zero"})
		return
	}
	if c.seen[v] {
		return
	}
	c.seen[v] = true
	switch v := v.(type) {
	case *ssa.Const:
		c.leaf(Leaf{Kind: "const", V: v})
	case *ssa.Phi:
		for _, e := range v.Edges {
			c.walk(e, depth)
		}
	case *ssa.Parameter:
		if depth > 0 {
			fn := v.Parent()
			idx := -1
			for i, p := range fn.Params {
				if p == v {
					idx = i
				}
			}
			sites := c.p.callersOf(fn)
			if len(sites) > 0 && idx >= 0 && fn.Parent() == nil {
				for _, s := range sites {
					args := s.Common().Args
					if idx < len(args) {
						c.walk(args[idx], depth-1)
					}
				}
				return
			}
		}
		c.leaf(Leaf{Kind: "param", V: v})
	case *ssa.FreeVar:
		bs := resolveFreeVar(v)
		if len(bs) == 0 {
			c.leaf(Leaf{Kind: "other", V: v})
		}
		for _, b := range bs {
			c.walk(b, depth)
		}
	case *ssa.Global:
		c.leaf(Leaf{Kind: "global", V: v})
	case *ssa.Alloc:
		// address of a local: its content
		ws := append(cellWrites(v), elemWrites(v)...)
		if len(ws) == 0 {
			c.leaf(Leaf{Kind: "alloc", V: v})
		}
		for _, st := range ws {
			c.walk(st.Val, depth)
		}
	case *ssa.UnOp:
		if v.Op == token.MUL {
			c.load(v, depth)
			return
		}
		c.walk(v.X, depth)
	case *ssa.BinOp:
		c.walk(v.X, depth)
		c.walk(v.Y, depth)
	case *ssa.Slice:
		c.walk(v.X, depth)
	case *ssa.Convert:
		c.walk(v.X, depth)
	case *ssa.ChangeType:
		c.walk(v.X, depth)
	case *ssa.ChangeInterface:
		c.walk(v.X, depth)
	case *ssa.MakeInterface:
		c.walk(v.X, depth)
	case *ssa.TypeAssert:
		c.walk(v.X, depth)
	case *ssa.Index:
		c.walk(v.X, depth)
	case *ssa.Field:
		c.leaf(Leaf{Kind: "field", V: v, Field: fieldOf(v), Base: v.X})
	case *ssa.FieldAddr:
		c.leaf(Leaf{Kind: "field", V: v, Field: fieldOf(v), Base: v.X})
	case *ssa.IndexAddr:
		c.walk(v.X, depth)
	case *ssa.Lookup:
		c.leaf(Leaf{Kind: "lookup", V: v, Base: v.X})
	case *ssa.Extract:
		switch t := v.Tuple.(type) {
		case *ssa.Call:
			c.call(t, v, depth)
		case *ssa.Next:
			if r, ok := t.Iter.(*ssa.Range); ok {
				c.leaf(Leaf{Kind: "range", V: v, Base: r.X})
			} else {
				c.leaf(Leaf{Kind: "other", V: v})
			}
		case *ssa.Lookup:
			c.leaf(Leaf{Kind: "lookup", V: v, Base: t.X})
		case *ssa.TypeAssert:
			c.walk(t.X, depth)
		default:
			c.leaf(Leaf{Kind: "other", V: v})
		}
	case *ssa.Call:
		c.call(v, v, depth)
	case *ssa.MakeSlice, *ssa.MakeMap, *ssa.MakeChan:
		c.leaf(Leaf{Kind: "alloc", V: v})
	case *ssa.MakeClosure, *ssa.Function:
		c.leaf(Leaf{Kind: "func", V: v})
	default:
		c.leaf(Leaf{Kind: "other", V: v})
	}
}

func (c *provCtx) call(call *ssa.Call, res ssa.Value, depth int) {
	o := calleeObj(call)
	if o != nil {
		if idxs, ok := transferFuncs[fullName(o)]; ok {
			args := call.Call.Args
			if idxs == nil {
				for _, a := range args {
					c.walk(a, depth)
				}
			} else {
				for _, i := range idxs {
					if i < len(args) {
						c.walk(args[i], depth)
					}
				}
			}
			return
		}
	}
	// builtin append: elements and base
	if b, ok := call.Call.Value.(*ssa.Builtin); ok && b.Name() == "append" {
		for _, a := range call.Call.Args {
			c.walk(a, depth)
		}
		return
	}
	c.leaf(Leaf{Kind: "call", V: res, Callee: o})
}

func (c *provCtx) load(u *ssa.UnOp, depth int) {
	switch a := u.X.(type) {
	case *ssa.Alloc:
		ws := cellWrites(a)
		if len(ws) == 0 {
			c.leaf(Leaf{Kind: "zero", V: u})
		}
		for _, st := range ws {
			c.walk(st.Val, depth)
		}
	case *ssa.FreeVar:
		root := rootCell(a)
		if al, ok := root.(*ssa.Alloc); ok {
			ws := cellWrites(al)
			if len(ws) == 0 {
				c.leaf(Leaf{Kind: "zero", V: u})
			}
			for _, st := range ws {
				c.walk(st.Val, depth)
			}
			return
		}
		c.walk(root, depth)
	case *ssa.FieldAddr:
		// a field of a local struct under construction: follow its stores
		if al, ok := rootCell(a.X).(*ssa.Alloc); ok {
			ws := fieldWrites(al, a.Field)
			whole := cellWrites(al)
			if len(ws) > 0 && len(whole) == 0 {
				for _, st := range ws {
					c.walk(st.Val, depth)
				}
				return
			}
		}
		c.leaf(Leaf{Kind: "field", V: u, Field: fieldOf(a), Base: a.X})
	case *ssa.IndexAddr:
		c.walk(a.X, depth)
	case *ssa.Global:
		c.leaf(Leaf{Kind: "global", V: a})
	default:
		c.walk(u.X, depth)
	}
}

// backSlice returns every value the given value may (data-)depend on, going
// through calls (a call result depends on all its arguments), local cells,
// free variables and, up to depth levels, parameters to their call sites.
func (p *Prog) backSlice(v ssa.Value, depth int) map[ssa.Value]bool {
	return p.backSliceOpt(v, depth, false)
}

// backSliceOpt: with stopAtClosures the slice does not enter closures (what a
// callback captures is not what the value handed out depends on).
func (p *Prog) backSliceOpt(v ssa.Value, depth int, stopAtClosures bool) map[ssa.Value]bool {
	seen := map[ssa.Value]bool{}
	var walk func(v ssa.Value, depth int)
	walk = func(v ssa.Value, depth int) {
		if v == nil || seen[v] {
			return
		}
		seen[v] = true
		if _, isMC := v.(*ssa.MakeClosure); isMC && stopAtClosures {
			return
		}
		switch x := v.(type) {
		case *ssa.Parameter:
			if depth > 0 {
				fn := x.Parent()
				for i, pp := range fn.Params {
					if pp == x {
						for _, s := range p.callersOf(fn) {
							if i < len(s.Common().Args) {
								walk(s.Common().Args[i], depth-1)
							}
						}
					}
				}
			}
			return
		case *ssa.FreeVar:
			for _, b := range resolveFreeVar(x) {
				walk(b, depth)
			}
			return
		case *ssa.Alloc:
			for _, st := range cellWrites(x) {
				walk(st.Val, depth)
			}
			for _, st := range elemWrites(x) {
				walk(st.Val, depth)
			}
			// field-wise construction
			eachAllocFieldStore(x, func(st *ssa.Store) { walk(st.Val, depth) })
			return
		case *ssa.UnOp:
			if x.Op == token.MUL {
				switch a := x.X.(type) {
				case *ssa.FieldAddr:
					if al, ok := rootCell(a.X).(*ssa.Alloc); ok {
						for _, st := range fieldWrites(al, a.Field) {
							walk(st.Val, depth)
						}
					}
				}
			}
		case *ssa.Extract:
			if n, ok := x.Tuple.(*ssa.Next); ok {
				if r, ok := n.Iter.(*ssa.Range); ok {
					walk(r.X, depth)
				}
			}
		}
		in, ok := v.(ssa.Instruction)
		if !ok {
			return
		}
		var ops [16]*ssa.Value
		for _, op := range in.Operands(ops[:0]) {
			if op != nil && *op != nil {
				walk(*op, depth)
			}
		}
	}
	walk(v, depth)
	return seen
}

func eachAllocFieldStore(al *ssa.Alloc, f func(*ssa.Store)) {
	pt, ok := al.Type().Underlying().(*types.Pointer)
	if !ok {
		return
	}
	st, ok := pt.Elem().Underlying().(*types.Struct)
	if !ok {
		return
	}
	for i := 0; i < st.NumFields(); i++ {
		for _, s := range fieldWrites(al, i) {
			f(s)
		}
	}
}
