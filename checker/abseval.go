package main

import (
	"fmt"
	"go/constant"
	"go/token"
	"go/types"
	"path"
	"sort"
	"strings"

	"golang.org/x/tools/go/ssa"
)

// H6: finite-domain partial evaluation. A tiny abstract interpreter over
// go/ssa: values are sets of constants (or ⊤), structs with known fields are
// tracked field-wise, branches whose condition evaluates to a single boolean
// are followed one way only. Everything unknown is ⊤ (both ways). This is
// abstract interpretation over constants — nothing is executed and no path
// condition is handed to a solver.

type absVal struct {
	top  bool
	vals []constant.Value
	obj  *absStruct
}

type absStruct struct{ fields map[int]absVal }

var absTop = absVal{top: true}

func absConst(c constant.Value) absVal { return absVal{vals: []constant.Value{c}} }
func absBool(b bool) absVal            { return absConst(constant.MakeBool(b)) }

func (a absVal) isTop() bool { return a.top || (len(a.vals) == 0 && a.obj == nil) }

func (a absVal) key() string {
	if a.isTop() {
		return "T"
	}
	if a.obj != nil {
		var ks []int
		for k := range a.obj.fields {
			ks = append(ks, k)
		}
		sort.Ints(ks)
		s := "{"
		for _, k := range ks {
			s += fmt.Sprintf("%d:%s,", k, a.obj.fields[k].key())
		}
		return s + "}"
	}
	var ss []string
	for _, v := range a.vals {
		ss = append(ss, v.ExactString())
	}
	sort.Strings(ss)
	return fmt.Sprint(ss)
}

func joinAbs(a, b absVal) absVal {
	if a.isTop() || b.isTop() {
		return absTop
	}
	if a.obj != nil || b.obj != nil {
		if a.obj == nil || b.obj == nil {
			return absTop
		}
		out := &absStruct{fields: map[int]absVal{}}
		for k, v := range a.obj.fields {
			if w, ok := b.obj.fields[k]; ok {
				out.fields[k] = joinAbs(v, w)
			}
		}
		return absVal{obj: out}
	}
	out := absVal{vals: append([]constant.Value{}, a.vals...)}
	for _, v := range b.vals {
		dup := false
		for _, w := range out.vals {
			if w.Kind() == v.Kind() && constant.Compare(w, token.EQL, v) {
				dup = true
			}
		}
		if !dup {
			out.vals = append(out.vals, v)
		}
	}
	if len(out.vals) > 64 {
		return absTop
	}
	return out
}

// mayBe reports which boolean outcomes are possible.
func (a absVal) mayBe() (t, f bool) {
	if a.isTop() || a.obj != nil {
		return true, true
	}
	for _, v := range a.vals {
		if v.Kind() != constant.Bool {
			return true, true
		}
		if constant.BoolVal(v) {
			t = true
		} else {
			f = true
		}
	}
	return
}

type evalResult struct {
	Blocks  map[*ssa.BasicBlock]bool
	Calls   map[ssa.CallInstruction]bool // reachable calls, including in evaluated callees
	Returns []absVal                     // join per result index over reachable returns
	RetInst map[*ssa.Return]bool
	Eval    func(ssa.Value) absVal      // value of an instruction of the evaluated function in the final state
	Edges   map[[2]*ssa.BasicBlock]bool // reachable control-flow edges
}

type evaluator struct {
	p       *Prog
	subject func(fn *ssa.Function, v ssa.Value) (absVal, bool)
	memo    map[string]*evalResult
	calls   map[ssa.CallInstruction]bool
	depth   int
}

func (p *Prog) newEvaluator(subject func(fn *ssa.Function, v ssa.Value) (absVal, bool)) *evaluator {
	return &evaluator{p: p, subject: subject, memo: map[string]*evalResult{}, calls: map[ssa.CallInstruction]bool{}}
}

type frame struct {
	ev     *evaluator
	fn     *ssa.Function
	params map[*ssa.Parameter]absVal
	edges  map[[2]*ssa.BasicBlock]bool
	blocks map[*ssa.BasicBlock]bool
	memo   map[ssa.Value]absVal
	busy   map[ssa.Value]bool
}

// evalFunc evaluates fn with the given abstract parameters.
func (ev *evaluator) evalFunc(fn *ssa.Function, params []absVal) *evalResult {
	key := fn.String()
	for _, a := range params {
		key += "|" + a.key()
	}
	if r, ok := ev.memo[key]; ok {
		if r != nil {
			for c := range r.Calls {
				ev.calls[c] = true
			}
			return r
		}
		// recursion: unknown
		return &evalResult{Returns: nil}
	}
	ev.memo[key] = nil
	fr := &frame{ev: ev, fn: fn, params: map[*ssa.Parameter]absVal{}}
	for i, prm := range fn.Params {
		if i < len(params) {
			fr.params[prm] = params[i]
		} else {
			fr.params[prm] = absTop
		}
	}
	fr.edges = map[[2]*ssa.BasicBlock]bool{}
	fr.blocks = map[*ssa.BasicBlock]bool{}
	if len(fn.Blocks) > 0 {
		fr.blocks[fn.Blocks[0]] = true
	}
	// monotone fixpoint over reachable edges
	for iter := 0; iter < 64; iter++ {
		changed := false
		fr.memo = map[ssa.Value]absVal{}
		fr.busy = map[ssa.Value]bool{}
		for _, b := range fn.Blocks {
			if !fr.blocks[b] || len(b.Instrs) == 0 {
				continue
			}
			take := func(s *ssa.BasicBlock) {
				k := [2]*ssa.BasicBlock{b, s}
				if !fr.edges[k] {
					fr.edges[k] = true
					changed = true
				}
				if !fr.blocks[s] {
					fr.blocks[s] = true
					changed = true
				}
			}
			switch t := b.Instrs[len(b.Instrs)-1].(type) {
			case *ssa.If:
				mt, mf := fr.eval(t.Cond).mayBe()
				if mt {
					take(b.Succs[0])
				}
				if mf {
					take(b.Succs[1])
				}
			case *ssa.Jump:
				take(b.Succs[0])
			}
		}
		if !changed {
			break
		}
	}
	res := &evalResult{Blocks: fr.blocks, Calls: map[ssa.CallInstruction]bool{}, RetInst: map[*ssa.Return]bool{}, Edges: fr.edges}
	res.Eval = func(v ssa.Value) absVal { return fr.eval(v) }
	fr.memo = map[ssa.Value]absVal{}
	fr.busy = map[ssa.Value]bool{}
	before := map[ssa.CallInstruction]bool{}
	for c := range ev.calls {
		before[c] = true
	}
	for _, b := range fn.Blocks {
		if !fr.blocks[b] {
			continue
		}
		for _, in := range b.Instrs {
			switch in := in.(type) {
			case ssa.CallInstruction:
				res.Calls[in] = true
				ev.calls[in] = true
				// evaluate module callees for their reachable calls
				if g := in.Common().StaticCallee(); g != nil && ev.p.InModule(g) && ev.depth < 5 {
					var args []absVal
					for _, a := range in.Common().Args {
						args = append(args, fr.eval(a))
					}
					ev.depth++
					sub := ev.evalFunc(g, args)
					ev.depth--
					for c := range sub.Calls {
						res.Calls[c] = true
					}
				}
			case *ssa.Return:
				res.RetInst[in] = true
				for i, r := range in.Results {
					var v absVal
					// defer-spilled results
					vals := returnValues(in, i)
					first := true
					for _, rv := range vals {
						var x absVal
						if rv == nil {
							x = absTop
						} else {
							x = fr.eval(rv)
						}
						if first {
							v, first = x, false
						} else {
							v = joinAbs(v, x)
						}
					}
					_ = r
					if i >= len(res.Returns) {
						res.Returns = append(res.Returns, v)
					} else {
						res.Returns[i] = joinAbs(res.Returns[i], v)
					}
				}
			}
		}
	}
	ev.memo[key] = res
	return res
}

func (fr *frame) eval(v ssa.Value) absVal {
	if v == nil {
		return absTop
	}
	if r, ok := fr.memo[v]; ok {
		return r
	}
	if fr.busy[v] {
		return absTop
	}
	fr.busy[v] = true
	r := fr.eval1(v)
	delete(fr.busy, v)
	fr.memo[v] = r
	return r
}

func (fr *frame) eval1(v ssa.Value) absVal {
	if fr.ev.subject != nil {
		if a, ok := fr.ev.subject(fr.fn, v); ok {
			return a
		}
	}
	switch x := v.(type) {
	case *ssa.Const:
		if x.Value == nil {
			return absTop
		}
		return absConst(x.Value)
	case *ssa.Parameter:
		if a, ok := fr.params[x]; ok {
			return a
		}
		return absTop
	case *ssa.Phi:
		var out absVal
		first := true
		for i, e := range x.Edges {
			pred := x.Block().Preds[i]
			if !fr.edges[[2]*ssa.BasicBlock{pred, x.Block()}] {
				continue
			}
			if e == ssa.Value(x) {
				continue // carried round a loop unchanged: contributes nothing new
			}
			a := fr.eval(e)
			if first {
				out, first = a, false
			} else {
				out = joinAbs(out, a)
			}
		}
		if first {
			return absTop
		}
		return out
	case *ssa.UnOp:
		switch x.Op {
		case token.NOT:
			a := fr.eval(x.X)
			t, f := a.mayBe()
			switch {
			case t && f:
				return absTop
			case t:
				return absBool(false)
			default:
				return absBool(true)
			}
		case token.MUL:
			return fr.load(x)
		}
		return absTop
	case *ssa.Field:
		a := fr.eval(x.X)
		if a.obj != nil {
			if f, ok := a.obj.fields[x.Field]; ok {
				return f
			}
		}
		return absTop
	case *ssa.ChangeType:
		return fr.eval(x.X)
	case *ssa.Convert:
		a := fr.eval(x.X)
		if a.isTop() || a.obj != nil {
			return absTop
		}
		// integer-to-integer and string-ish conversions keep the constant
		out := absVal{}
		for _, c := range a.vals {
			if c.Kind() == constant.Int {
				if b, ok := x.Type().Underlying().(*types.Basic); ok && b.Info()&types.IsString != 0 {
					if i, ok := constant.Int64Val(c); ok {
						out.vals = append(out.vals, constant.MakeString(string(rune(i))))
						continue
					}
				}
			}
			out.vals = append(out.vals, c)
		}
		return out
	case *ssa.BinOp:
		return fr.binop(x)
	case *ssa.Extract:
		if call, ok := x.Tuple.(*ssa.Call); ok {
			r := fr.callResult(call)
			if r != nil && x.Index < len(r) {
				return r[x.Index]
			}
		}
		return absTop
	case *ssa.Call:
		r := fr.callResult(x)
		if len(r) == 1 {
			return r[0]
		}
		return absTop
	}
	return absTop
}

func (fr *frame) callResult(call *ssa.Call) []absVal {
	if r, ok := fr.pureLibrary(call); ok {
		return r
	}
	g := call.Common().StaticCallee()
	if g == nil || !fr.ev.p.InModule(g) || fr.ev.depth >= 5 {
		return nil
	}
	var args []absVal
	for _, a := range call.Common().Args {
		args = append(args, fr.eval(a))
	}
	fr.ev.depth++
	r := fr.ev.evalFunc(g, args)
	fr.ev.depth--
	return r.Returns
}

func (fr *frame) load(u *ssa.UnOp) absVal {
	switch a := u.X.(type) {
	case *ssa.Alloc:
		return fr.cell(a)
	case *ssa.FieldAddr:
		var base absVal
		switch b := a.X.(type) {
		case *ssa.Alloc:
			base = fr.cell(b)
		default:
			base = fr.eval(a.X)
		}
		if base.obj != nil {
			if f, ok := base.obj.fields[a.Field]; ok {
				return f
			}
		}
		return absTop
	}
	return absTop
}

// cell: abstract content of a local struct/scalar cell.
func (fr *frame) cell(al *ssa.Alloc) absVal {
	if al.Parent() != fr.fn {
		return absTop
	}
	if escapesToClosure(al) {
		return absTop
	}
	whole := storesTo(fr.fn, al)
	nField := 0
	fields := map[int][]*ssa.Store{}
	eachInstr(fr.fn, func(in ssa.Instruction) {
		if st, ok := in.(*ssa.Store); ok {
			if fa, ok := st.Addr.(*ssa.FieldAddr); ok && fa.X == ssa.Value(al) {
				fields[fa.Field] = append(fields[fa.Field], st)
				nField++
			}
		}
	})
	switch {
	case len(whole) == 1 && nField == 0:
		return fr.eval(whole[0].Val)
	case len(whole) == 0 && nField > 0:
		out := &absStruct{fields: map[int]absVal{}}
		for i, sts := range fields {
			var v absVal
			for j, st := range sts {
				if j == 0 {
					v = fr.eval(st.Val)
				} else {
					v = joinAbs(v, fr.eval(st.Val))
				}
			}
			out.fields[i] = v
		}
		return absVal{obj: out}
	case len(whole) > 1 && nField == 0:
		var v absVal
		for j, st := range whole {
			if j == 0 {
				v = fr.eval(st.Val)
			} else {
				v = joinAbs(v, fr.eval(st.Val))
			}
		}
		return v
	}
	return absTop
}

func (fr *frame) binop(x *ssa.BinOp) absVal {
	a, b := fr.eval(x.X), fr.eval(x.Y)
	if a.isTop() || b.isTop() || a.obj != nil || b.obj != nil {
		return absTop
	}
	switch x.Op {
	case token.EQL, token.NEQ, token.LSS, token.LEQ, token.GTR, token.GEQ:
		var t, f bool
		for _, va := range a.vals {
			for _, vb := range b.vals {
				if va.Kind() != vb.Kind() {
					return absTop
				}
				if constant.Compare(va, x.Op, vb) {
					t = true
				} else {
					f = true
				}
			}
		}
		switch {
		case t && f:
			return absTop
		case t:
			return absBool(true)
		default:
			return absBool(false)
		}
	case token.AND, token.OR, token.ADD, token.SUB:
		out := absVal{}
		for _, va := range a.vals {
			for _, vb := range b.vals {
				if va.Kind() != vb.Kind() || (va.Kind() != constant.Int && va.Kind() != constant.String) {
					return absTop
				}
				if va.Kind() == constant.String && x.Op != token.ADD {
					return absTop
				}
				out.vals = append(out.vals, constant.BinaryOp(va, x.Op, vb))
			}
		}
		if len(out.vals) > 64 {
			return absTop
		}
		return out
	}
	return absTop
}

// pureLibrary folds calls of side-effect-free string and path functions of the
// standard library whose arguments all evaluate to single constants (constant
// folding across documented pure functions; nothing of the module is run).
func (fr *frame) pureLibrary(call *ssa.Call) ([]absVal, bool) {
	one := func(v ssa.Value) (string, bool) {
		a := fr.eval(v)
		if a.isTop() || a.obj != nil || len(a.vals) != 1 || a.vals[0].Kind() != constant.String {
			return "", false
		}
		return constant.StringVal(a.vals[0]), true
	}
	if b, ok := call.Call.Value.(*ssa.Builtin); ok {
		if b.Name() == "len" && len(call.Call.Args) == 1 {
			if s, ok := one(call.Call.Args[0]); ok {
				return []absVal{absConst(constant.MakeInt64(int64(len(s))))}, true
			}
		}
		return nil, false
	}
	o := calleeObj(call)
	if o == nil || o.Pkg() == nil {
		return nil, false
	}
	str := func(s string) []absVal { return []absVal{absConst(constant.MakeString(s))} }
	bl := func(b bool) []absVal { return []absVal{absBool(b)} }
	args := call.Call.Args
	switch o.Pkg().Path() + "." + o.Name() {
	case "strings.HasPrefix", "strings.HasSuffix", "strings.Contains", "strings.ContainsAny", "strings.TrimPrefix", "strings.TrimSuffix", "strings.TrimLeft", "strings.TrimRight":
		if len(args) != 2 {
			return nil, false
		}
		a, ok1 := one(args[0])
		b, ok2 := one(args[1])
		if !ok1 || !ok2 {
			return nil, false
		}
		switch o.Name() {
		case "HasPrefix":
			return bl(strings.HasPrefix(a, b)), true
		case "HasSuffix":
			return bl(strings.HasSuffix(a, b)), true
		case "Contains":
			return bl(strings.Contains(a, b)), true
		case "ContainsAny":
			return bl(strings.ContainsAny(a, b)), true
		case "TrimPrefix":
			return str(strings.TrimPrefix(a, b)), true
		case "TrimSuffix":
			return str(strings.TrimSuffix(a, b)), true
		case "TrimLeft":
			return str(strings.TrimLeft(a, b)), true
		case "TrimRight":
			return str(strings.TrimRight(a, b)), true
		}
	case "path.Clean", "path.Base", "path.Dir", "strings.ToLower", "strings.TrimSpace":
		if len(args) != 1 {
			return nil, false
		}
		a, ok := one(args[0])
		if !ok {
			return nil, false
		}
		switch o.Name() {
		case "Clean":
			return str(path.Clean(a)), true
		case "Base":
			return str(path.Base(a)), true
		case "Dir":
			return str(path.Dir(a)), true
		case "ToLower":
			return str(strings.ToLower(a)), true
		case "TrimSpace":
			return str(strings.TrimSpace(a)), true
		}
	case "path.Join":
		if len(args) != 1 {
			return nil, false
		}
		sl, ok := args[0].(*ssa.Slice)
		if !ok {
			return nil, false
		}
		al, ok := sl.X.(*ssa.Alloc)
		if !ok {
			return nil, false
		}
		var parts []string
		for _, w := range elemWrites(al) {
			p1, ok := one(w.Val)
			if !ok {
				return nil, false
			}
			parts = append(parts, p1)
		}
		return str(path.Join(parts...)), true
	}
	return nil, false
}
