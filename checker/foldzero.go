package main

// New configuration that is off unless new API switches it on.
//
// A backwards-compatible addition typically comes as a new field of an
// existing struct (Packer.fixedModTime, Packer.onEntryPacked,
// Builder.remotePackageCheck, a new BuildTracer callback) that has its zero
// value unless a caller uses the new option, and a branch on that field in
// the middle of code the rules read: `if p.fixedModTime { header.ModTime =
// p.modTime }`. For every call sequence that was possible before the change
// the branch is dead code. The loader therefore evaluates the program with
// respect to the old API, in the inlined form only (the form as written keeps
// everything): a struct field that the reference tree does not have
// (known_funcs.txt lists the fields too) and that is stored to only in
// functions the reference tree does not have either — after inlining, so a
// store that old code reaches through a new helper counts as old code's — is
// read as its zero value; the branches this decides are pruned like the
// platform constants of item 27.
//
// A field that old code sets (Pack caching something on the Packer, a
// constructor installing a default) is not touched: its stores sit in
// functions of the reference tree.

import (
	"fmt"
	"go/constant"
	"go/token"
	"go/types"
	"sort"
	"strings"

	"golang.org/x/tools/go/ssa"
)

// fieldKey names a struct field the way known_funcs.txt does.
func fieldKey(pkgName, typeName, field string) string {
	return "field:" + pkgName + "." + typeName + "." + field
}

// moduleStructFields enumerates the fields of the named struct types of the module's packages.
func (p *Prog) moduleStructFields() map[*types.Var]string {
	out := map[*types.Var]string{}
	for _, sp := range p.SPkgs {
		scope := sp.Pkg.Scope()
		for _, name := range scope.Names() {
			tn, ok := scope.Lookup(name).(*types.TypeName)
			if !ok || tn.IsAlias() {
				continue
			}
			st, ok := tn.Type().Underlying().(*types.Struct)
			if !ok {
				continue
			}
			for i := 0; i < st.NumFields(); i++ {
				out[st.Field(i)] = fieldKey(sp.Pkg.Name(), name, st.Field(i).Name())
			}
		}
	}
	return out
}

func zeroConst(t types.Type) *ssa.Const {
	switch u := t.Underlying().(type) {
	case *types.Basic:
		switch {
		case u.Info()&types.IsBoolean != 0:
			return ssa.NewConst(constant.MakeBool(false), t)
		case u.Info()&types.IsString != 0:
			return ssa.NewConst(constant.MakeString(""), t)
		case u.Info()&types.IsInteger != 0:
			return ssa.NewConst(constant.MakeInt64(0), t)
		}
	case *types.Pointer, *types.Signature, *types.Interface, *types.Slice, *types.Map, *types.Chan:
		return ssa.NewConst(nil, t)
	}
	return nil
}

// foldDefaultZeroFields: see the comment at the top of the file.
func (p *Prog) foldDefaultZeroFields() {
	known := map[string]bool{}
	nKnownFields := 0
	knownFn := map[string]bool{}
	for _, l := range strings.Split(knownFuncsText, "\n") {
		l = strings.TrimSpace(l)
		if l == "" || strings.HasPrefix(l, "#") {
			continue
		}
		name, _, _ := strings.Cut(l, "\t")
		if strings.HasPrefix(name, "field:") {
			known[name] = true
			nKnownFields++
		} else {
			knownFn[name] = true
		}
	}
	if nKnownFields == 0 {
		return
	}
	fields := p.moduleStructFields()
	newField := map[*types.Var]bool{}
	for f, k := range fields {
		if !known[k] {
			newField[f] = true
		}
	}
	if len(newField) == 0 {
		return
	}
	isOld := func(fn *ssa.Function) bool {
		for fn.Parent() != nil {
			fn = fn.Parent()
		}
		if e := p.encl[fn]; e != nil {
			for e.Parent() != nil {
				e = e.Parent()
			}
			fn = e
		}
		return knownFn[p.FuncName(fn)]
	}
	folded := map[*types.Var]int{}
	touched := map[*ssa.Function]bool{}
	// to a fixed point: once Packer.modeMask reads as zero, `info.ModeMask = p.modeMask` in old code stores
	// the zero value, which does not set UnpackInfo.ModeMask either
	for round := 0; round < 4; round++ {
		progress := false
		// stores, per field
		setByOld := map[*types.Var]bool{}
		for _, fn := range p.Funcs {
			eachInstr(fn, func(in ssa.Instruction) {
				st, ok := in.(*ssa.Store)
				if !ok {
					return
				}
				fa, ok := st.Addr.(*ssa.FieldAddr)
				if !ok || fieldOf(fa) == nil || !newField[fieldOf(fa)] {
					return
				}
				if k, isC := st.Val.(*ssa.Const); isC {
					if z := zeroConst(fieldOf(fa).Type()); z != nil && ((k.Value == nil && z.Value == nil) || (k.Value != nil && z.Value != nil && constant.Compare(k.Value, token.EQL, z.Value))) {
						return // the zero value stored: nothing set
					}
				}
				if isOld(fn) {
					setByOld[fieldOf(fa)] = true
				}
			})
			// the address of the field handed somewhere (a decoder, a helper) may be written through
			eachInstr(fn, func(in ssa.Instruction) {
				fa, ok := in.(*ssa.FieldAddr)
				if !ok || fieldOf(fa) == nil || !newField[fieldOf(fa)] {
					return
				}
				if refs := fa.Referrers(); refs != nil {
					for _, r := range *refs {
						switch x := r.(type) {
						case *ssa.Store:
							if x.Addr != ssa.Value(fa) {
								setByOld[fieldOf(fa)] = true
							}
						case *ssa.UnOp, *ssa.DebugRef:
						default:
							setByOld[fieldOf(fa)] = true
						}
					}
				}
			})
		}
		// a struct that is decoded into, copied from outside or built by reflection gets its fields without a
		// Store we can see: only fields of structs whose old fields are all set by visible stores qualify — kept
		// simple here: structs that are json-decoded are left alone
		decoded := map[types.Type]bool{}
		for _, fn := range p.Funcs {
			for _, ci := range callsIn(fn) {
				o := calleeObj(ci)
				if isFunc(o, "encoding/json", "Unmarshal") || isMethod(o, "encoding/json", "Decoder", "Decode") {
					args := ci.Common().Args
					t := args[len(args)-1]
					if mi, ok := t.(*ssa.MakeInterface); ok {
						t = mi.X
					}
					var mark func(t types.Type, d int)
					mark = func(t types.Type, d int) {
						if t == nil || d > 8 || decoded[t] {
							return
						}
						decoded[t] = true
						switch x := t.Underlying().(type) {
						case *types.Pointer:
							mark(x.Elem(), d+1)
						case *types.Slice:
							mark(x.Elem(), d+1)
						case *types.Map:
							mark(x.Elem(), d+1)
						case *types.Struct:
							for i := 0; i < x.NumFields(); i++ {
								mark(x.Field(i).Type(), d+1)
							}
						}
					}
					mark(t.Type(), 0)
				}
			}
		}
		var ops [16]*ssa.Value
		for _, fn := range p.Funcs {
			for _, b := range fn.Blocks {
				for _, in := range b.Instrs {
					var f *types.Var
					var holder types.Type
					var val ssa.Value
					switch x := in.(type) {
					case *ssa.UnOp:
						if x.Op != token.MUL {
							continue
						}
						fa, ok := x.X.(*ssa.FieldAddr)
						if !ok {
							continue
						}
						f, holder, val = fieldOf(fa), derefType(fa.X.Type()), x
					case *ssa.Field:
						f, holder, val = fieldOf(x), x.X.Type(), x
					default:
						continue
					}
					if f == nil || !newField[f] || setByOld[f] || decoded[holder] {
						continue
					}
					z := zeroConst(f.Type())
					if z == nil {
						continue
					}
					refs := val.Referrers()
					if refs == nil || len(*refs) == 0 {
						continue
					}
					for _, r := range *refs {
						for _, op := range r.Operands(ops[:0]) {
							if *op == val {
								*op = z
							}
						}
					}
					*refs = nil
					folded[f]++
					touched[fn] = true
					progress = true
				}
			}
		}
		if !progress {
			break
		}
	}
	if len(folded) == 0 {
		return
	}
	var names []string
	for f, n := range folded {
		names = append(names, fmt.Sprintf("%s: new field, zero unless new API sets it: %d read(s) folded", strings.TrimPrefix(fields[f], "field:"), n))
		p.Inlined += n
	}
	sort.Strings(names)
	inlineLog = append(inlineLog, names...)
	for fn := range touched {
		pruneConstBranches(fn)
		delete(domCache, fn)
		fuseBlocks(fn)
		dropEmptyJumpBlocks(fn)
		simplifyPhis(fn)
		delete(domCache, fn)
	}
}

// dropNewSurface: in the inlined form the program is the one callers of the
// reference tree's API run. Functions the reference tree does not have and
// that nothing of it reaches — a new exported accessor, a new option
// constructor and its closure, a new constructor variant — are new API
// surface: no call sequence that was possible before gets there. They stay in
// the form as written (where the rules that forbid something still see them).
// Reachability is generous: direct calls, every function value mentioned,
// closures, and every module method an interface call may dispatch to.
func (p *Prog) dropNewSurface() {
	knownFn := map[string]bool{}
	for _, l := range strings.Split(knownFuncsText, "\n") {
		l = strings.TrimSpace(l)
		if l == "" || strings.HasPrefix(l, "#") || strings.HasPrefix(l, "field:") {
			continue
		}
		name, _, _ := strings.Cut(l, "\t")
		knownFn[name] = true
	}
	if len(knownFn) == 0 {
		return
	}
	outer := func(fn *ssa.Function) *ssa.Function {
		for {
			if par := fn.Parent(); par != nil {
				fn = par
				continue
			}
			if e := p.encl[fn]; e != nil && e != fn {
				fn = e
				continue
			}
			return fn
		}
	}
	// renamed known functions count as known (same heuristic as the inliner): a new name with the signature of a vanished one
	present := map[string]bool{}
	for _, fn := range p.Funcs {
		if fn.Parent() == nil {
			present[p.FuncName(fn)] = true
		}
	}
	gone := 0
	for n := range knownFn {
		if !present[n] {
			gone++
		}
	}
	if gone > 0 {
		return // a tree with renamed or deleted functions: nothing is dropped
	}
	var roots []*ssa.Function
	for _, fn := range p.Funcs {
		if knownFn[p.FuncName(outer(fn))] || isInitFunc(fn) {
			roots = append(roots, fn)
			continue
		}
		// methods a library finds through an interface are reached by the old API although nothing calls them by
		// name: the decoder calls UnmarshalJSON of a manifest type from OpenDir, fmt calls String and Error
		if fn.Parent() == nil && fn.Signature.Recv() != nil {
			switch fn.Name() {
			case "UnmarshalJSON", "MarshalJSON", "UnmarshalText", "MarshalText", "String", "Error", "Len", "Less", "Swap":
				roots = append(roots, fn)
			}
		}
	}
	live := p.reach(roots...)
	keep := p.Funcs[:0]
	var dropped []string
	for _, fn := range p.Funcs {
		if live[fn] || knownFn[p.FuncName(outer(fn))] {
			keep = append(keep, fn)
			continue
		}
		if fn.Parent() == nil {
			dropped = append(dropped, p.FuncName(fn))
		}
	}
	if len(dropped) == 0 {
		return
	}
	p.Funcs = keep
	p.Inlined += len(dropped)
	sort.Strings(dropped)
	inlineLog = append(inlineLog, "new API surface no function of the reference tree reaches, left to the form as written: "+strings.Join(dropped, ", "))
}
