package main

import (
	"fmt"
	"go/constant"
	"go/token"
	"go/types"
	"os"
	"path/filepath"
	"sort"
	"strings"

	"golang.org/x/tools/go/packages"
	"golang.org/x/tools/go/ssa"
	"golang.org/x/tools/go/ssa/ssautil"
)

// BuildConfig is one build configuration the analysed tree is loaded under.
type BuildConfig struct {
	Name string
	GOOS string
	ARCH string
	Tags string
}

var defaultConfig = BuildConfig{Name: "linux/amd64", GOOS: "linux", ARCH: "amd64"}

// thoroughConfigs are the additional configurations of DESIGN 3.2. The
// lchtimes_*.go files are selected by custom tags, so a plain load never sees
// unix.Lutimes.
var thoroughConfigs = []BuildConfig{
	{Name: "linux/amd64+linux_amd64", GOOS: "linux", ARCH: "amd64", Tags: "linux_amd64"},
	{Name: "linux/arm64+linux_arm64", GOOS: "linux", ARCH: "arm64", Tags: "linux_arm64"},
	{Name: "linux/386+linux_amd", GOOS: "linux", ARCH: "386", Tags: "linux_amd"},
	{Name: "darwin/arm64", GOOS: "darwin", ARCH: "arm64"},
}

// Prog is the loaded, type-checked program in SSA form.
type Prog struct {
	Root    string
	Config  BuildConfig
	Fset    *token.FileSet
	Pkgs    []*packages.Package
	SSA     *ssa.Program
	SPkgs   map[string]*ssa.Package // by import path
	ModPath string
	Funcs   []*ssa.Function // every function with a body in module packages (methods, closures)
	NFiles  int
	Inlined int // call sites replaced by the callee's body (ssainline.go)
	encl    map[*ssa.Function]*ssa.Function
}

type checkerError struct{ msg string }

func (e checkerError) Error() string { return e.msg }

func cerrf(format string, a ...any) error { return checkerError{fmt.Sprintf(format, a...)} }

func loadProg(root string, bc BuildConfig) (*Prog, error) {
	return loadProgView(root, bc, true)
}

// loadProgView: with inline set, functions the reference tree does not have are
// analysed as part of their callers (ssainline.go); without, the program is
// analysed as it is written.
func loadProgView(root string, bc BuildConfig, inline bool) (*Prog, error) {
	env := []string{}
	for _, e := range os.Environ() {
		if strings.HasPrefix(e, "GOWORK=") || strings.HasPrefix(e, "GOFLAGS=") || strings.HasPrefix(e, "GOOS=") ||
			strings.HasPrefix(e, "GOARCH=") || strings.HasPrefix(e, "CGO_ENABLED=") || strings.HasPrefix(e, "GOPROXY=") ||
			strings.HasPrefix(e, "GOTOOLCHAIN=") || strings.HasPrefix(e, "GOSUMDB=") {
			continue
		}
		env = append(env, e)
	}
	env = append(env, "GOWORK=off", "GOFLAGS=-mod=mod", "GOPROXY=off", "GOSUMDB=off", "GOTOOLCHAIN=local",
		"GOOS="+bc.GOOS, "GOARCH="+bc.ARCH, "CGO_ENABLED=0")
	cfg := &packages.Config{
		Mode:  packages.LoadSyntax | packages.NeedModule,
		Dir:   root,
		Env:   env,
		Tests: false,
	}
	if bc.Tags != "" {
		cfg.BuildFlags = []string{"-tags=" + bc.Tags}
	}
	pkgs, err := packages.Load(cfg, "./...")
	if err != nil {
		return nil, cerrf("go/packages load failed: %v", err)
	}
	if len(pkgs) == 0 {
		return nil, cerrf("no packages loaded from %s", root)
	}
	nerr := 0
	var first string
	for _, p := range pkgs {
		for _, e := range p.Errors {
			nerr++
			if first == "" {
				first = e.Error()
			}
		}
	}
	if nerr > 0 {
		return nil, cerrf("%d load/type errors under config %s, first: %s", nerr, bc.Name, first)
	}
	// renamed unexported fields and struct types are read under their reference names (rename.go)
	if ov, notes := renameBackOverlay(pkgs); len(ov) > 0 {
		cfg.Overlay = ov
		pkgs2, err2 := packages.Load(cfg, "./...")
		bad := err2 != nil || len(pkgs2) != len(pkgs)
		for _, p2 := range pkgs2 {
			if len(p2.Errors) > 0 {
				bad = true
			}
		}
		if !bad {
			pkgs = pkgs2
			for _, n := range notes {
				dup := false
				for _, l := range inlineLog {
					if l == n {
						dup = true
					}
				}
				if !dup {
					inlineLog = append(inlineLog, n)
				}
			}
		}
	}
	sort.Slice(pkgs, func(i, j int) bool { return pkgs[i].PkgPath < pkgs[j].PkgPath })
	prog, spkgs := ssautil.Packages(pkgs, ssa.InstantiateGenerics)
	prog.Build()
	P := &Prog{Root: root, Config: bc, Fset: prog.Fset, Pkgs: pkgs, SSA: prog, SPkgs: map[string]*ssa.Package{}, encl: map[*ssa.Function]*ssa.Function{}}
	for i, p := range pkgs {
		if spkgs[i] == nil {
			return nil, cerrf("no SSA package for %s", p.PkgPath)
		}
		P.SPkgs[p.PkgPath] = spkgs[i]
		P.NFiles += len(p.Syntax)
		if p.Module != nil && P.ModPath == "" {
			P.ModPath = p.Module.Path
		}
	}
	if P.ModPath == "" {
		P.ModPath = pkgs[0].PkgPath
	}
	// Collect every function with a body.
	seen := map[*ssa.Function]bool{}
	var add func(f *ssa.Function)
	add = func(f *ssa.Function) {
		if f == nil || seen[f] || f.Blocks == nil {
			return
		}
		seen[f] = true
		pruneConstBranches(f)
		P.Funcs = append(P.Funcs, f)
		for _, a := range f.AnonFuncs {
			P.encl[a] = f
			add(a)
		}
	}
	for _, sp := range spkgs {
		for _, m := range sp.Members {
			switch m := m.(type) {
			case *ssa.Function:
				add(m)
			case *ssa.Type:
				for _, T := range []types.Type{m.Type(), types.NewPointer(m.Type())} {
					ms := prog.MethodSets.MethodSet(T)
					for i := 0; i < ms.Len(); i++ {
						f := prog.MethodValue(ms.At(i))
						if f != nil && f.Synthetic == "" {
							add(f)
						}
					}
				}
			}
		}
	}
	// instances of the module's generic functions that module code calls: each has a body of its own,
	// with the type arguments in place
	for i := 0; i < len(P.Funcs); i++ {
		for _, b := range P.Funcs[i].Blocks {
			for _, in := range b.Instrs {
				ci, ok := in.(ssa.CallInstruction)
				if !ok {
					continue
				}
				if g := ci.Common().StaticCallee(); g != nil && g.Origin() != nil && g.Origin() != g && seen[g.Origin()] {
					add(g)
				}
			}
		}
	}
	sort.Slice(P.Funcs, func(i, j int) bool {
		a, b := P.Funcs[i], P.Funcs[j]
		if a.Pos() != b.Pos() {
			return a.Pos() < b.Pos()
		}
		return a.String() < b.String()
	})
	if inline {
		if err := P.inlineUnknownHelpers(); err != nil {
			return nil, err
		}
		if os.Getenv("SLUGCHECK_NOINLINE") == "" {
			P.foldDefaultZeroFields()
			P.dropNewSurface()
		}
	}
	if want := os.Getenv("SLUGCHECK_DUMPFN"); want != "" {
		for _, l := range inlineLog {
			fmt.Fprintln(os.Stderr, "inline:", l)
		}
		for _, fn := range P.Funcs {
			if strings.Contains(P.FuncName(fn), want) {
				fn.WriteTo(os.Stderr)
			}
		}
	}
	return P, nil
}

// PkgPath expands a short package name of this module.
func (p *Prog) PkgPath(short string) string {
	switch short {
	case "slug", "":
		return p.ModPath
	case "unpackinfo":
		return p.ModPath + "/internal/unpackinfo"
	case "ignorefiles":
		return p.ModPath + "/internal/ignorefiles"
	default:
		return p.ModPath + "/" + short
	}
}

// InModule reports whether fn is source code of the analysed module.
func (p *Prog) InModule(fn *ssa.Function) bool {
	if fn == nil || fn.Blocks == nil {
		return false
	}
	pk := fn.Package()
	if pk == nil {
		if e := p.encl[fn]; e != nil {
			return p.InModule(e)
		}
		if o := fn.Origin(); o != nil && o != fn {
			return p.InModule(o)
		}
		return false
	}
	_, ok := p.SPkgs[pk.Pkg.Path()]
	return ok
}

// Fn looks up an exported anchor: "Pack" or "Packer.Pack".
func (p *Prog) Fn(pkgShort, name string) *ssa.Function {
	sp := p.SPkgs[p.PkgPath(pkgShort)]
	if sp == nil {
		return nil
	}
	if i := strings.Index(name, "."); i >= 0 {
		tn, mn := name[:i], name[i+1:]
		t := sp.Type(tn)
		if t == nil {
			return nil
		}
		for _, T := range []types.Type{t.Type(), types.NewPointer(t.Type())} {
			sel := p.SSA.MethodSets.MethodSet(T).Lookup(sp.Pkg, mn)
			if sel != nil {
				f := p.SSA.MethodValue(sel)
				if f != nil && f.Synthetic == "" {
					return f
				}
				// wrapper of value method: find the declared one
				if f != nil {
					if fo, ok := sel.Obj().(*types.Func); ok {
						return p.SSA.FuncValue(fo)
					}
				}
			}
		}
		return nil
	}
	return sp.Func(name)
}

// NamedType returns the named type pkgShort.name.
func (p *Prog) NamedType(pkgShort, name string) *types.Named {
	sp := p.SPkgs[p.PkgPath(pkgShort)]
	if sp == nil {
		return nil
	}
	t := sp.Type(name)
	if t == nil {
		return nil
	}
	n, _ := t.Type().(*types.Named)
	return n
}

// FieldVar returns the *types.Var for a field of a named struct type.
func (p *Prog) FieldVar(pkgShort, typ, field string) *types.Var {
	n := p.NamedType(pkgShort, typ)
	if n == nil {
		return nil
	}
	st, ok := n.Underlying().(*types.Struct)
	if !ok {
		return nil
	}
	for i := 0; i < st.NumFields(); i++ {
		if st.Field(i).Name() == field {
			return st.Field(i)
		}
	}
	return nil
}

// Pos renders a position relative to the analysed root.
func (p *Prog) Pos(pos token.Pos) string {
	if !pos.IsValid() {
		return "-"
	}
	ps := p.Fset.Position(pos)
	rel, err := filepath.Rel(p.Root, ps.Filename)
	if err != nil {
		rel = ps.Filename
	}
	return fmt.Sprintf("%s:%d", rel, ps.Line)
}

// FuncName is a stable, line-free name for a function (closures get $n).
func (p *Prog) FuncName(fn *ssa.Function) string {
	if fn == nil {
		return "<nil>"
	}
	s := fn.String()
	s = strings.ReplaceAll(s, p.ModPath+"/internal/", "")
	s = strings.ReplaceAll(s, p.ModPath+"/", "")
	s = strings.ReplaceAll(s, p.ModPath, "slug")
	return s
}

// Outer returns the outermost enclosing named function.
func (p *Prog) Outer(fn *ssa.Function) *ssa.Function {
	for fn.Parent() != nil {
		fn = fn.Parent()
	}
	return fn
}

// pruneConstBranches removes what go/ssa leaves in place for a branch on a
// constant (`if false { … }`, `if debug && …` with a constant debug): the edge
// that is never taken, the blocks that become unreachable, and their
// instructions' entries in the referrer lists of live values. Without it a
// check disabled by `if false` would still count as "the error is tested" or
// "the call is made". The If itself stays, with both successors set to the
// taken block (so every `Succs[0]/Succs[1]` access stays valid and the edge
// discriminates nothing); phi operands follow the predecessor lists. The
// dominator tree is left as built — it under-approximates dominance in the
// pruned graph, which is the safe direction.
func pruneConstBranches(fn *ssa.Function) {
	if len(fn.Blocks) == 0 {
		return
	}
	removePred := func(to, from *ssa.BasicBlock) {
		for i := 0; i < len(to.Preds); i++ {
			if to.Preds[i] != from {
				continue
			}
			to.Preds = append(to.Preds[:i:i], to.Preds[i+1:]...)
			for _, in := range to.Instrs {
				ph, ok := in.(*ssa.Phi)
				if !ok {
					break
				}
				ph.Edges = append(ph.Edges[:i:i], ph.Edges[i+1:]...)
			}
			return
		}
	}
	changed := false
	for _, b := range fn.Blocks {
		if len(b.Instrs) == 0 || len(b.Succs) != 2 || b.Succs[0] == b.Succs[1] {
			continue
		}
		ifi, ok := b.Instrs[len(b.Instrs)-1].(*ssa.If)
		if !ok {
			continue
		}
		val, known := constCond(ifi.Cond)
		if !known {
			continue
		}
		taken, other := b.Succs[0], b.Succs[1]
		if !val {
			taken, other = other, taken
		}
		removePred(other, b)
		// b now reaches taken over both edges: one more predecessor entry, phi operands duplicated
		for i, pr := range taken.Preds {
			if pr != b {
				continue
			}
			taken.Preds = append(taken.Preds, b)
			for _, in := range taken.Instrs {
				ph, ok := in.(*ssa.Phi)
				if !ok {
					break
				}
				ph.Edges = append(ph.Edges, ph.Edges[i])
			}
			break
		}
		b.Succs[0], b.Succs[1] = taken, taken
		changed = true
	}
	if !changed {
		return
	}
	live := map[*ssa.BasicBlock]bool{}
	var visit func(b *ssa.BasicBlock)
	visit = func(b *ssa.BasicBlock) {
		if live[b] {
			return
		}
		live[b] = true
		for _, s := range b.Succs {
			visit(s)
		}
	}
	visit(fn.Blocks[0])
	if fn.Recover != nil {
		visit(fn.Recover)
	}
	var kept []*ssa.BasicBlock
	for _, b := range fn.Blocks {
		if live[b] {
			kept = append(kept, b)
			continue
		}
		for _, s := range b.Succs {
			if live[s] {
				removePred(s, b)
			}
		}
		for _, in := range b.Instrs {
			var ops [16]*ssa.Value
			for _, op := range in.Operands(ops[:0]) {
				if op == nil || *op == nil {
					continue
				}
				refs := (*op).Referrers()
				if refs == nil {
					continue
				}
				out := (*refs)[:0]
				for _, r := range *refs {
					if r != in {
						out = append(out, r)
					}
				}
				*refs = out
			}
		}
	}
	for i, b := range kept {
		b.Index = i
	}
	fn.Blocks = kept
}

// constCond: the branch condition is a constant — a literal, its negation, or
// a comparison of two constants (a platform constant such as the path
// separator against a literal: one platform's branch is dead code on the
// other).
func constCond(v ssa.Value) (val, known bool) {
	switch x := v.(type) {
	case *ssa.Const:
		if x.Value != nil && x.Value.Kind() == constant.Bool {
			return constant.BoolVal(x.Value), true
		}
	case *ssa.UnOp:
		if x.Op == token.NOT {
			if r, ok := constCond(x.X); ok {
				return !r, true
			}
		}
	case *ssa.BinOp:
		a, ok1 := x.X.(*ssa.Const)
		b, ok2 := x.Y.(*ssa.Const)
		if ok1 && ok2 && a.Value == nil && b.Value == nil && a.IsNil() && b.IsNil() {
			// nil against nil (a callback or writer that nothing sets)
			switch x.Op {
			case token.EQL:
				return true, true
			case token.NEQ:
				return false, true
			}
		}
		if !ok1 || !ok2 || a.Value == nil || b.Value == nil || a.Value.Kind() != b.Value.Kind() {
			return false, false
		}
		switch x.Op {
		case token.EQL, token.NEQ, token.LSS, token.LEQ, token.GTR, token.GEQ:
			if a.Value.Kind() == constant.String || a.Value.Kind() == constant.Int {
				return constant.Compare(a.Value, x.Op, b.Value), true
			}
		}
	}
	return false, false
}
